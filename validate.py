#!/usr/bin/env python3-vt
import json, sys, glob
import jsonschema
jsonschema.validate(json.load(open('/verif/MANIFEST.json')), json.load(open('/root/.vp/MANIFEST.schema.json')))
for f in glob.glob('/verif/evidence/C*.json'):
    jsonschema.validate(json.load(open(f)), json.load(open('/root/.vp/EVIDENCE.schema.json')))
    print("ok", f)
print("schemas ok")
