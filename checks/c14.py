"""C14 - Covariance frame changes are pure, path-independent rotations.

CovFrames.tla on the exact lattice (octahedral frames, axis-aligned state, integer covariance): TLC explores every sequence
of cov.frame / state.frame assignments, computes the contract value J C0 J^T exactly and checks the implementation-shaped
m1/m2 model against it (candidate generator).  Every behaviour is replayed on real Cov objects in synthetic exact frames
registered in the real library; the same walks are replayed on the built-in frames with the one-hop result as token."""
import json
import random

from lib import tlc as tlcmod
from lib.tlc import RawTla

ROT = [
    [[1, 0, 0], [0, 1, 0], [0, 0, 1]],
    [[0, 1, 0], [-1, 0, 0], [0, 0, 1]],     # quarter turn about z
    [[1, 0, 0], [0, 0, 1], [0, -1, 0]],     # quarter turn about x
    [[0, 1, 0], [0, 0, 1], [1, 0, 0]],      # cyclic permutation
    [[-1, 0, 0], [0, 0, 1], [0, 1, 0]],     # half turn composed with a swap (det +1)
]
# integer symmetric positive definite 6x6: L L^T with a unit lower triangular integer L times diag
LMAT = [[3, 0, 0, 0, 0, 0], [1, 2, 0, 0, 0, 0], [-1, 1, 4, 0, 0, 0], [2, 0, 1, 1, 0, 0], [0, 1, -2, 1, 2, 0], [1, -1, 0, 2, 1, 3]]
C0 = [[sum(LMAT[i][k] * LMAT[j][k] for k in range(6)) for j in range(6)] for i in range(6)]
BUILTIN_MAPS = [
    ["EME2000", "MOD", "ITRF", "TOD", "GCRF"],
    ["TEME", "PEF", "EME2000", "CIRF", "G50"],
    ["GCRF", "TIRF", "TOD", "EME2000", "TEME"],
    ["MOD", "EME2000", "G50", "ITRF", "CIRF"],
    ["TOD", "ITRF", "MOD", "PEF", "GCRF"],
    ["CIRF", "GCRF", "TEME", "TIRF", "MOD"],
    ["G50", "TOD", "CIRF", "EME2000", "ITRF"],
]


def mat(m):
    return RawTla("<<" + ", ".join("<<" + ", ".join(map(str, r)) + ">>" for r in m) + ">>")


def explore(ctx, attach, pos, vel, hops, follows=False):
    consts = {"PrivateFollows": follows, "Rot": RawTla("<<" + ", ".join(str(mat(r)) for r in ROT) + ">>"), "Pos": list(pos), "Vel": list(vel),
              "C0": mat(C0), "Attach": attach, "MaxHops": hops}
    name, mc, cl = tlcmod.wrap("CovFrames", consts)
    cfg = "SPECIFICATION Spec\n" + cl + "INVARIANT WellFormed\n" + ("" if follows else "INVARIANT ModelMeetsContract\n") + "CHECK_DEADLOCK FALSE\n"
    r = ctx.tlc(name, label=f"CovFrames attach={attach} pos={pos} vel={vel} hops<={hops} follows={follows}", cfg_text=cfg,
                extra_files={name + ".tla": mc}, workers=16, dump=True, timeout=2400)
    behs = []
    for s in r.dump:
        if not s["hist"]:
            continue
        nf = len(ROT)
        loc = {nf + 1: "QSW", nf + 2: "TNW"}
        behs.append({"hist": [[a[0], loc.get(a[1], a[1])] for a in s["hist"]], "cf": loc.get(s["cf"], s["cf"]), "expected": [list(x) for x in s["exp"]],
                     "model_ok": s["mat"] == s["exp"]})
    return behs


def run(ctx):
    thorough = ctx.tier == "thorough"
    rnd = random.Random(ctx.seed)
    ctx.rule = ("TLC enumerates every sequence of <= MaxHops assignments cov.frame = t / state.frame = t over 5 exact frames + QSW + TNW "
                "for several attachment frames and state orientations; each behaviour is replayed on real Cov objects; the same "
                "walks mapped onto the 10 built-in frames are replayed with the one-hop result as token. Distinct/non-trivial = "
                "distinct (length, number of local targets, state moved) classes and (start, length, local target) classes")
    hops = 4 if thorough else 3
    configs = [(1, (1, 0, 0), (0, 1, 0)), (2, (0, 0, 1), (1, 0, 0)), (4, (0, -1, 0), (0, 0, 1))]
    if thorough:
        configs += [(3, (1, 0, 0), (0, 0, -1)), (5, (0, 1, 0), (-1, 0, 0))]
    allb = []
    payloads = []
    model_disagree = 0
    for attach, pos, vel in configs:
        behs = explore(ctx, attach, pos, vel, hops)
        model_disagree += sum(1 for b in behs if not b["model_ok"])
        allb.append(behs)
        cap = 6000 if thorough else 1200
        sel = behs if len(behs) <= cap else rnd.sample(behs, cap)
        for i in range(4):
            if sel[i::4]:
                payloads.append({"Rot": ROT, "C0": C0, "Pos": pos, "Vel": vel, "Attach": attach, "behaviours": sel[i::4]})
    ctx.extra["implementation_model_disagrees_with_contract_on"] = model_disagree
    # regression exploration: the pre-fix behaviour as a named deviation of the model must leave the contract (keeps the
    # model honest: if it did not, the model would not be able to express the defect that was found and repaired)
    old = explore(ctx, 1, (1, 0, 0), (0, 1, 0), 2, follows=True)
    ctx.extra["pre_fix_model_disagrees_on"] = sum(1 for b in old if not b["model_ok"])
    # the same walks on the built-in frames (cov-only walks; id k -> k-th name of the map, start = first name)
    walks = []
    covonly = [b for b in allb[0] if all(a[0] == "cov" for a in b["hist"])]
    mixed = [b for b in allb[0] if any(a[0] == "state" for a in b["hist"]) and len(b["hist"]) >= 2]
    for mi, names in enumerate(BUILTIN_MAPS):
        sel = covonly if thorough else [b for b in covonly if len(b["hist"]) <= 2] + rnd.sample([b for b in covonly if len(b["hist"]) == 3], 25)
        sel = sel + (mixed if thorough else rnd.sample(mixed, min(len(mixed), 60)))
        for b in sel:
            acts = [[k, t if isinstance(t, str) else names[t - 1]] for k, t in b["hist"]]
            cf = b["cf"] if isinstance(b["cf"], str) else names[b["cf"] - 1]
            walks.append({"start": names[0], "targets": [a[1] for a in acts], "acts": acts, "cf": cf})
    follow = [(m[0], t) for m in BUILTIN_MAPS for t in m[1:3]]
    per = max(1, len(walks) // 12)
    for i in range(0, len(walks), per):
        payloads.append({"walks": walks[i:i + per], "seed": ctx.seed, "follow": follow if i == 0 else []})
    for res in ctx.harness_parallel("cov_replay.py", payloads, procs=16, timeout=3000):
        ctx.absorb(res)
    ctx.exhaustive = False
    ctx.assumptions += [
        "synthetic exact frames are registered in the real library from the harness (an Orientation subclass + a Node link, as "
        "stations do); the Cov / StateVector / Orientation.convert_to / to_local code is the code under test",
        "for rotating (Earth-fixed) targets only path independence, symmetry, PSD, restoration are demanded of the full matrix",
    ]
