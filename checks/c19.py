"""C19 - Mission-design helpers are consistent with the dynamics they target.

Mission.tla: LTAN <-> RAAN as inverse affine bijections modulo a day and Walker constellations as modular arithmetic (TLC,
exhaustive); replayed on the real functions.  Sun-synchronous solver, Lambert, B-plane and beta angle as laws against the
dynamics / definitions, evaluated in the harness."""
import random

from lib import tlc as tlcmod


def run(ctx):
    thorough = ctx.tier == "thorough"
    rnd = random.Random(ctx.seed)
    ctx.rule = ("every Walker triple t/p/f with p | t, f < p, t <= MaxT (Delta and Star); LTAN on a grid of Sun right ascensions x node right "
                "ascensions x dates x labels x mean/true; seeded orbits for the sso / Lambert / B-plane / beta laws. Distinct/non-trivial = "
                "distinct Walker triples")
    maxt = 72 if thorough else 30
    name, mc, cl = tlcmod.wrap("Mission", {"Grid": 300 if not thorough else 100, "MaxT": maxt})
    cfg = "INIT Init\nNEXT Next\n" + cl + "INVARIANT LtanInverse\nINVARIANT WalkerOK\nCHECK_DEADLOCK FALSE\n"
    r = ctx.tlc(name, label=f"Mission: LTAN grid + Walker t<={maxt}", cfg_text=cfg, extra_files={name + ".tla": mc}, workers=16, dump=True, timeout=3000)
    walker = []
    for s in r.dump:
        if s["mode"] == "walker":
            fl = s["fleet"]
            planes = [fl[k] for k in sorted(fl)] if isinstance(fl, dict) else list(fl)
            rows = []
            for pl in planes:
                rows.append([pl[k] for k in sorted(pl)] if isinstance(pl, dict) else list(pl))
            walker.append({"t": s["t"], "p": s["p"], "f": s["f"], "fleet": rows})
    dates = [[2020, 3, 20, 12, 0, 0], [2016, 5, 4, 3, 4, 5], [2001, 12, 31, 23, 0, 0], [2010, 6, 21, 6, 30, 0]]
    labels = ["UTC", "TAI", "TT", "UT1", "GPS", "TDB"]
    ltan = [{"date": d, "label": labels[k % 6], "raans": [0, 300, 43200, 86399, 21600, 64800, 12345, 77777]} for k, d in enumerate(dates)]
    nw = len(walker)
    payloads = [{"walker": walker[i::6], "seed": ctx.seed + i} for i in range(6)]
    payloads.append({"ltan": ltan, "seed": ctx.seed})
    k = 3 if thorough else 1
    for j in range(4):
        payloads.append({"nsso": 60 * k, "nlambert": 160 * k, "nbplane": 80 * k, "nbeta": 60 * k, "seed": ctx.seed + 100 + j})
        if j < 2:
            payloads.append({"nlambert": 80 * k, "nbplane": 40 * k, "seed": ctx.seed + 200 + j, "body": ("sun", "moon")[j]})
    for res in ctx.harness_parallel("mission_replay.py", payloads, procs=12, timeout=3000):
        ctx.absorb(res)
    ctx.extra["walker_triples"] = nw
    ctx.exhaustive = False
    ctx.assumptions += [
        "DECIDED by the specification: LTAN/RAAN inverse bijection and Walker arithmetic. The sso / Lambert / B-plane / beta clauses are laws "
        "between code paths and definitions evaluated numerically in the harness on seeded inputs (Lambert: within 10 m after Kepler propagation; "
        "no independent Lambert solver); frozen()/sso_frozen() eccentricities and beta against the built-in Sun's accuracy are not decided",
    ]
