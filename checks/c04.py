"""C04 - Results depend on the instant, never on the Date's scale label.

ScaleIndep.tla enumerates operation x argument label x epoch label; each is run on the real library with the same
instants carried under the given labels (real IERS tables configured) and compared with the UTC/UTC result."""
from lib import tlc as tlcmod
from lib.ctx import REPO

OPS = ["sgp4", "sgp4beta", "kepler", "j2", "none", "keplernum", "cw", "sun", "moon", "frame", "ephem", "events", "tle", "opm", "oem", "tle-newyear", "sgp4-newyear", "sun-coincide", "moon-coincide", "maneuver", "visibility", "measure", "lambert", "ltan", "beta"]
SCALES = ["UTC", "TAI", "TT", "GPS", "UT1", "TDB"]


def run(ctx):
    ctx.rule = ("TLC enumerates every (operation, argument-date label, epoch label) of the catalogue x 6 x 6; distinct/non-trivial = "
                "distinct (operation, argument relabelled?, epoch relabelled?) classes actually run")
    name, mc, cl = tlcmod.wrap("ScaleIndep", {"Ops": set(OPS), "Scales": set(SCALES)})
    cfg = "SPECIFICATION Spec\n" + cl + "PROPERTY ResultIgnoresLabels\nCHECK_DEADLOCK FALSE\n"
    r = ctx.tlc(name, label="operation x label x label", cfg_text=cfg, extra_files={name + ".tla": mc}, workers=8, dump=True)
    cases = sorted({(s["op"], s["la"], s["le"]) for s in r.dump})
    by_op = {}
    for c in cases:
        by_op.setdefault(c[0], []).append({"op": c[0], "la": c[1], "le": c[2]})
    payloads = []
    for op, cs in by_op.items():
        if op in ("keplernum", "oem", "events"):
            for i in range(3):
                payloads.append({"repo": REPO, "cases": cs[i::3]})
        else:
            payloads.append({"repo": REPO, "cases": cs})
    for res in ctx.harness_parallel("scale_replay.py", payloads, procs=16, timeout=3000):
        ctx.absorb(res)
    ctx.exhaustive = True
    ctx.assumptions += [
        "instants are more than 2 minutes away from day boundaries in every scale and from leap seconds (IERS tables are per day)",
        "relabelling uses Date.change_scale, verified by C03; tolerances |v| x 3 us for states, 2 us for dates, identical text for TLEs",
        "the catalogue is explicit: a new date-consuming API must be added to it",
    ]
