"""Station visibility streams of C10 (last clause): recorded calls of TopocentricFrame.visibility judged by VisibilityTrace.tla."""
import json
import os

from lib import tlc as tlcmod

STYLES = ["events-true", "events-true+listeners", "events-list", "events-listener", "events-listener+listeners", "events-signal10", "events-own-types"]


def scenarios(thorough):
    leo = [7.2e6, 0.02, 0.9, 1.0, 2.0, 0.7]
    leo2 = [6.9e6, 0.001, 1.7, 0.2, 0.0, 3.0]
    mol = [2.66e7, 0.7, 1.1, 0.3, 4.7, 3.0]
    sc = []
    for k, style in enumerate(STYLES):
        sc.append({"name": f"leo-kepler-120-{style}", "kep": leo, "propagator": "kepler", "station": "plain", "step": 120, "duration": 86400,
                   "style": style, "repeats": 3})
    sc += [{"name": "leo-kepler-300-masked", "kep": leo, "propagator": "kepler", "station": "masked", "step": 300, "duration": 86400, "style": "events-true", "repeats": 2},
           {"name": "polar-kepler-45-south", "kep": leo2, "propagator": "kepler", "station": "south", "step": 45, "duration": 43200, "style": "events-true+listeners", "repeats": 2},
           {"name": "molniya-kepler-600", "kep": mol, "propagator": "kepler", "station": "plain", "step": 600, "duration": 172800, "style": "events-list", "repeats": 2},
           {"name": "leo-ephem-60", "kep": leo, "propagator": "ephem", "station": "plain", "step": 60, "duration": 64800, "style": "events-true", "repeats": 2}]
    if thorough:
        for k, style in enumerate(STYLES):
            sc.append({"name": f"polar-kepler-60-{style}", "kep": leo2, "propagator": "kepler", "station": ("plain", "south", "masked")[k % 3], "step": 60,
                       "duration": 86400, "style": style, "repeats": 3})
        sc += [{"name": "leo-keplernum-60", "kep": leo, "propagator": "keplernum", "station": "plain", "step": 60, "duration": 12000, "style": "events-true+listeners", "repeats": 2},
               {"name": "molniya-ephem-300", "kep": mol, "propagator": "ephem", "station": "south", "step": 300, "duration": 90000, "style": "events-listener", "repeats": 2},
               {"name": "leo-kepler-20", "kep": leo, "propagator": "kepler", "station": "plain", "step": 20, "duration": 14400, "style": "events-true", "repeats": 2}]
    return sc


def run(ctx):
    thorough = ctx.tier == "thorough"
    scs = scenarios(thorough)
    results = ctx.harness_parallel("visibility_trace.py", [{"scenarios": [s]} for s in scs], procs=14, timeout=3000)
    traces = [t for r in results for t in r["traces"]]
    for t in traces:
        if t["error"]:
            ctx.violation("visibility/raises", f"station.visibility raised in {t['scenario']} (call {t['rep'] + 1}, style {t['style']}): {t['error']}", {k: t[k] for k in ("scenario", "style", "rep", "error")})
    judged = [t for t in traces if not t["error"]]
    path = os.path.join(ctx.scratch, "visibility.json")
    with open(path, "w") as fh:
        json.dump({"traces": [{"grid": t["grid"], "stream": t["stream"], "picks": t["picks"], "filter": t["filter"],
                               # repeated calls carry no selection: judged against their own events
                               "filtered": t["filtered"] if t["filtered"] is not None else [{"s": x["s"], "us": x["us"]} for x in t["stream"] if x["k"] == "E"]}
                              for t in judged]}, fh)
    name, mc, cl = tlcmod.wrap("VisibilityTrace", {"ZTol": 2000}, name="MCVisibilityTrace")
    cfg = "INIT TInit\nNEXT TNext\n" + cl + "INVARIANT Report\nCHECK_DEADLOCK FALSE\n"
    r = ctx.tlc(name, label="visibility streams", cfg_text=cfg, extra_files={name + ".tla": mc}, workers=8, env={"TRACE_FILE": path}, timeout=1800)
    if r.distinct < len(judged) or not judged:
        from lib.ctx import MachineryFailure
        raise MachineryFailure(f"VisibilityTrace visited {r.distinct} states for {len(judged)} traces")
    bad = 0
    for (k, f) in r.prints:
        t = judged[k - 1]
        bad += 1
        for c in sorted(f):
            first = "" if t["rep"] == 0 else f" (call {t['rep'] + 1} with the caller's listener objects re-used; the caller's list now holds {t['caller_list_len']} listeners)"
            ctx.violation(f"visibility/{c}" + ("" if t["rep"] == 0 else "[repeated-call]"),
                          f"visibility stream {t['scenario']} style {t['style']}{first}: clause {c}; {sum(1 for x in t['stream'] if x['k'] == 'E')} events, "
                          f"{sum(1 for x in t['stream'] if x['k'] == 'S')} samples yielded for {sum(1 for g in t['grid'] if g['up'] > 0)} above-horizon grid dates",
                          {"scenario": t["scenario"], "style": t["style"], "rep": t["rep"], "clause": c, "events": [x for x in t["stream"] if x["k"] == "E"][:12]})
    ctx.clause("a station visibility stream is exactly the above-horizon samples plus one AOS / LOS / MAX per crossing, at zero elevation (rate), in order - "
               "whatever the style of passing listeners, also when the call is repeated with the caller's objects (VisibilityTrace.tla)", len(traces), bad + len(traces) - len(judged))
    ctx.traces += len(traces)
    ctx.evaluations += sum(len(t["stream"]) for t in traces)
    for t in traces:
        ctx.nontrivial.add(f"visibility:{t['scenario']}:{t['rep']}")
    ctx.extra["visibility_traces"] = {"calls": len(traces), "events": sum(1 for t in traces for x in t["stream"] if x["k"] == "E"),
                                      "samples": sum(1 for t in traces for x in t["stream"] if x["k"] == "S")}
