"""C20 - Conversion routing is correct for every registration order.

1. TLC explores exhaustively every link history (Routing.tla: implementation-shaped Node._update checked
   against the contract clauses Valid / Unconnected / TreeUnique / Shortest).
2. Every history TLC produced is replayed on real Node objects (harness/routing_replay.py); the projected
   real states and transitions are judged by TLC with the *contract* operators (RoutingTrace.tla).
3. Registry.tla: interleavings of station / orbit-frame creations with conversions, replayed on the real
   library in fresh processes; built-in graphs validated as forests with unique routes.
"""
import json
import os
import random

from lib import tlc as tlcmod


def routing_cfg(n, maxlinks, forest, invs, props=("NbrsMonotone",), single=False):
    lines = ["SPECIFICATION Spec", "CONSTANTS", f" N = {n}", f" MaxLinks = {maxlinks}",
             f" ForestOnly = {'TRUE' if forest else 'FALSE'}", f" SinglePass = {'TRUE' if single else 'FALSE'}"]
    lines += [f"INVARIANT {i}" for i in invs]
    lines += [f"PROPERTY {p}" for p in props]
    lines.append("CHECK_DEADLOCK FALSE")
    return "\n".join(lines) + "\n"


def trace_cfg(n):
    return ("INIT TInit\nNEXT TNext\nCONSTANTS\n N = %d\n MaxLinks = 0\n ForestOnly = FALSE\n SinglePass = FALSE\n"
            "INVARIANT Report\nCHECK_DEADLOCK FALSE\n" % n)


def conformance(ctx, n, hists, label, forest):
    """Replay hists on the real Node; judge projected states/steps with the contract in TLC."""
    maxlen = max(len(h) for h in hists)
    full = [h for h in hists if len(h) == maxlen]
    prefixes = set()
    for h in full:
        for j in range(len(h)):
            prefixes.add(tuple(map(tuple, h[:j])))
    rest = [h for h in hists if len(h) < maxlen and tuple(map(tuple, h)) not in prefixes]
    todo = full + rest
    if len(todo) > 250000:        # the model check is exhaustive; the replay of more than 250 000 histories is a seeded sample
        import random as _r
        todo = _r.Random(len(todo)).sample(todo, 250000)
        ctx.extra.setdefault("sampled", {})[label] = 250000
    chunks = [todo[i::8] for i in range(8) if todo[i::8]]
    # node names are inputs: numeric one-character names, and two mixed schemes (one-character names that are
    # characters of longer names)
    payloads = [{"N": n, "hists": c, "scheme": 0} for c in chunks]
    for sch in (1, 2):
        sub = todo if len(todo) <= 12000 else todo[sch::(len(todo) // 12000 + 1)]
        payloads += [{"N": n, "hists": c, "scheme": sch} for c in [sub[i::4] for i in range(4)] if c]
    results = ctx.harness_parallel("routing_replay.py", payloads, procs=16)
    # merge distinct projected states over chunks
    states, order, steps, first_hist, names_of = {}, [], set(), {}, {}
    for res in results:
        remap = {}
        for i, p in enumerate(res["states"], start=1):
            key = json.dumps(p, sort_keys=True)
            if key not in states:
                states[key] = len(order) + 1
                order.append(p)
                first_hist[states[key]] = res["first_hist"][str(i)]
                names_of[states[key]] = res["names"]
            remap[i] = states[key]
        for s in res["steps"]:
            steps.add((remap[s["pre"]], remap[s["post"]], s["a"], s["b"]))
        for m in res["api_mismatch"]:
            ctx.violation("node/routing-loop" if "never terminates" in m["what"] else "node/api-vs-tables", m["what"], m)
    ctx.traces += len(todo)
    ctx.evaluations += len(todo)
    steps = sorted(steps)
    data = {"states": order, "steps": [{"pre": s[0], "post": s[1], "a": s[2], "b": s[3]} for s in steps]}
    path = os.path.join(ctx.scratch, f"routing-{label}.json")
    with open(path, "w") as fh:
        json.dump(data, fh)
    r = ctx.tlc("RoutingTrace", label=f"trace-validation {label}", cfg_text=trace_cfg(n), workers=8,
                env={"TRACE_FILE": path})
    failing = {}
    for (k, f) in r.prints:
        failing[k] = sorted(f)
    nst = len(order)
    ctx.clause(f"{label}: projected real states satisfy contract (symmetric, valid, unconnected, shortest)", nst,
               sum(1 for k in failing if k <= nst))
    ctx.clause(f"{label}: observed transitions are Link effects and keep existing routes", len(steps),
               sum(1 for k in failing if k > nst))
    for k, f in sorted(failing.items()):
        if k <= nst:
            hist = first_hist[k]
            for clause in f:
                key = {"shortest": "shortest/cyclic-graph"}.get(clause, clause)
                ctx.violation(key, f"after links {hist}: clause {clause} fails on real Node tables",
                              {"N": n, "hist": hist, "clause": clause, "state": order[k - 1], "node_names": names_of.get(k),
                               "reproduce": "nodes=[Node(str(i)) for i in 1..N]; for a,b in hist: nodes[a-1]+nodes[b-1]; "
                                            "compare [x.name for x in nodes[a].path(str(t))] with BFS distance"})
        else:
            s = steps[k - nst - 1]
            hist = first_hist[s[0]] + [[s[2], s[3]]]
            for clause in f:
                ctx.violation(clause, f"link {s[2]}+{s[3]} after {first_hist[s[0]]}: clause {clause} fails",
                              {"N": n, "hist": hist, "clause": clause})
    if len(ctx.samples) < 4:
        ctx.samples.append({"kind": "link history replayed on real Node", "N": n, "hist": todo[len(todo) // 2],
                            "projected_state": order[-1]})
    for p in order:
        ctx.nontrivial.add(label + json.dumps(p["nb"]))
    return nst, len(steps)


def run(ctx):
    thorough = ctx.tier == "thorough"
    rnd = random.Random(ctx.seed)
    ctx.rule = ("TLC enumerates every history of Link actions (all orders and orientations, repeated links "
                "included) within the stated constants; each history is replayed on real Node objects; a case is "
                "distinct/non-trivial when its projected (neighbour-order, route table) state differs from all "
                "others; registry behaviours are distinct by their action sequence")
    # ---- 1. model vs contract, forests ----------------------------------------------------------
    forest_cfgs = [(4, 3), (5, 4)] if not thorough else [(4, 5), (5, 5), (6, 4)]      # (6, 5): 16 M states, 37 min of TLC alone
    for n, ml in forest_cfgs:
        r = ctx.tlc("Routing", label=f"forests N={n} MaxLinks={ml}", workers=16, dump=True, dump_only=["hist"], timeout=4000,
                    cfg_text=routing_cfg(n, ml, True, ["Symmetric", "Valid", "Unconnected", "TreeUnique",
                                                        "StepsExact", "IsForest"]))
        hists = [[list(l) for l in st["hist"]] for st in r.dump]
        conformance(ctx, n, hists, f"forests-N{n}", True)
    # ---- 2. general graphs: the model of the repaired Node (sweeps repeated until stable) satisfies Shortest ---------------
    graph_cfgs = [(4, 4)] if not thorough else [(4, 6), (5, 5)]
    for n, ml in graph_cfgs:
        r = ctx.tlc("Routing", label=f"graphs N={n} MaxLinks={ml} (valid, shortest, sweeps bounded)", workers=16, dump=True,
                    dump_only=["hist"], timeout=5000,
                    cfg_text=routing_cfg(n, ml, False, ["Symmetric", "Valid", "Unconnected", "Shortest", "StepsExact"],
                                         props=("NbrsMonotone", "SweepsBounded")))
        hists = [[list(l) for l in st["hist"]] for st in r.dump]
        if len(hists) > 400000:
            hists = rnd.sample(hists, 400000)
        conformance(ctx, n, hists, f"graphs-N{n}", False)
    # the named deviation SinglePass (the code before the repair 72117f8): TLC finds the smallest history on which one sweep leaves
    # a longer route (a 5-ring); that history, the two canonical 5-rings and random cyclic histories are replayed on the real Node
    r = ctx.tlc("Routing", label="graphs N=5 MaxLinks=5, single sweep (deviation): candidate search for Shortest", workers=16,
                expect_ok=False, cfg_text=routing_cfg(5, 5, False, ["Shortest"], props=(), single=True))
    cands = [[[2, 1], [3, 1], [4, 2], [5, 3], [5, 4]], [[4, 1], [2, 1], [3, 2], [5, 3], [5, 4]]]
    if r.violated == "Shortest" and r.counterexample:
        hist = [list(l) for l in r.counterexample[-1][1]["hist"]]
        ctx.extra["shortest_candidate_from_single_sweep_model"] = hist
        cands.append(hist)
    else:
        ctx.extra["shortest_candidate_from_single_sweep_model"] = None
    conformance(ctx, 5, cands, "shortest-candidates", False)
    for n in ((6, 7) if not thorough else (6, 7, 8)):
        hs = []
        for _ in range(300 if not thorough else 3000):
            nl = rnd.randint(n, n + 4)
            h = []
            for _k in range(nl):
                a, b = rnd.sample(range(1, n + 1), 2)
                h.append([a, b])
            hs.append(h)
        conformance(ctx, n, hs, f"random-cyclic-N{n}", False)
    # ---- 3. registries ---------------------------------------------------------------------------
    from checks import c20_registry
    c20_registry.run(ctx)
    # ---- the repository's own test-suite, trace-validated (SuiteTrace.tla / RoutingTrace.tla) -----------------------------
    from checks import suite
    suite.run(ctx, "C20", "links")
    ctx.exhaustive = True
    ctx.assumptions += [
        "Node names are unique strings (as in every built-in graph)",
        "exhaustive only within the stated N / MaxLinks; larger graphs by the thorough tier",
    ]
