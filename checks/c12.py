"""C12 - TLE text round-trips and is validated.

Tle.tla: the 69-column format as integer fields -> character sequences, with Parse/Valid/checksum; TLC enumerates all
pairs of field corner values around a base TLE, proves Parse(Format(f)) = f, validity and single-digit corruption
detection, and every state is replayed on the real Tle class.  TleStream.tla: multi-TLE texts."""
import random

from lib import tlc as tlcmod
from lib.tlc import RawTla

BASE = {"norad": 25544, "cls": 1, "desig": 1, "dyy": 98, "dlaunch": 67, "eyy": 18, "edoy": 124, "efrac": 55610684,
        "ndsgn": 1, "nd": 1524, "nddsgn": 1, "nddmant": 0, "nddesgn": -1, "nddexp": 0,
        "bssgn": 1, "bsmant": 30197, "bsesgn": -1, "bsexp": 4, "elnb": 999,
        "incl": 516421, "raan": 2362139, "ecc": 3381, "argp": 478509, "ma": 476767, "mm": 1554198229, "rev": 11173}
CORNER = {"norad": {0, 5, 99999, 101}, "cls": {1, 2, 3}, "desig": {0, 1, 2, 3, 4}, "dyy": {57, 99, 0, 56}, "dlaunch": {1, 999, 10},
          "eyy": {57, 99, 0, 56, 16}, "edoy": {1, 365, 59, 60, 366}, "efrac": {0, 1, 99999999, 50000000},
          "ndsgn": {-1, 1}, "nd": {0, 1, 2182, 99999999}, "nddsgn": {-1, 1}, "nddmant": {0, 10000, 99999, 12345},
          "nddesgn": {-1, 1}, "nddexp": {0, 1, 9, 5}, "bssgn": {-1, 1}, "bsmant": {0, 10000, 99999, 11606},
          "bsesgn": {-1, 1}, "bsexp": {0, 1, 9, 3}, "elnb": {0, 9, 1000, 2927, 9999},
          "incl": {0, 900000, 1799999, 1}, "raan": {0, 3599999, 10000}, "ecc": {0, 1, 9999999, 6470982},
          "argp": {0, 3599999, 1800000}, "ma": {0, 3599999, 9}, "mm": {1, 100273791, 999999999, 1000000000, 1699999999},
          "rev": {0, 7, 99999, 56353}}


def rec(d):
    return RawTla("[" + ", ".join(f"{k} |-> {v}" for k, v in d.items()) + "]")


def fn(d):
    return RawTla("(" + " @@ ".join(f'"{k}" :> {{{", ".join(map(str, sorted(v)))}}}' for k, v in d.items()) + ")")


def run(ctx):
    thorough = ctx.tier == "thorough"
    rnd = random.Random(ctx.seed)
    ctx.rule = ("TLC enumerates every pair of (field, corner value) substitutions into a base TLE (all 25 fields, 2-5 corner "
                "values each: 0, 1, max, boundary years 57/99/00/56, both signs, exponents -9..+1, blank/full designator, "
                "element numbers up to 9999); distinct/non-trivial = distinct sets of fields changed; plus every multi-TLE "
                "text of <= MaxLen lines from 9 line kinds")
    corner = CORNER if thorough else {k: set(sorted(v)[:3]) | ({max(v)} if k in ("elnb", "mm", "rev", "norad", "bsexp", "nddexp", "edoy") else set()) for k, v in CORNER.items()}
    name, mc, cl = tlcmod.wrap("Tle", {"Base": rec(BASE), "Corner": fn(corner)})
    cfg = "INIT Init\nNEXT Next\n" + cl + "INVARIANT RoundTrip\nINVARIANT WellFormed\nINVARIANT CorruptionDetected\nCHECK_DEADLOCK FALSE\n"
    r = ctx.tlc(name, label="Tle field pairs", cfg_text=cfg, extra_files={name + ".tla": mc}, workers=16, dump=True, timeout=2400)
    vectors = []
    for s in r.dump:
        f = s["fields"]
        changed = sorted(k for k in BASE if f[k] != BASE[k])
        vectors.append({"fields": f, "l1": "".join(s["l1"]), "l2": "".join(s["l2"]), "changed": changed})
    cap = 100000 if thorough else 2500
    if len(vectors) > cap:
        vectors = rnd.sample(vectors, cap)
        ctx.extra["vectors_sampled"] = cap
    chunks = [vectors[i::16] for i in range(16) if vectors[i::16]]
    payloads = [{"vectors": c, "corrupt_every": 10 if thorough else 25} for c in chunks]
    # multi-TLE texts
    ml = 5 if thorough else 4
    name2, mc2, cl2 = tlcmod.wrap("TleStream", {"MaxLen": ml})
    cfg2 = "INIT Init\nNEXT Next\n" + cl2 + "INVARIANT Sane\nCHECK_DEADLOCK FALSE\n"
    r2 = ctx.tlc(name2, label=f"TleStream texts <= {ml} lines", cfg_text=cfg2, extra_files={name2 + ".tla": mc2}, workers=16, dump=True)
    streams = [{"text": list(s["text"]), "expect": list(s["expect"]), "firstbad": s["firstbad"]} for s in r2.dump]
    schunks = [streams[i::16] for i in range(16)]
    for p, sc in zip(payloads, schunks):
        p["streams"] = sc
    for res in ctx.harness_parallel("tle_replay.py", payloads, procs=16):
        ctx.absorb(res)
    ctx.extra["stream_texts"] = len(streams)
    # ---- the repository's own test-suite: every TLE text it parses, judged by the column table (TleTrace.tla) ----------------
    from checks import suite
    suite.run(ctx, "C12", "tles")
    ctx.exhaustive = False
    ctx.assumptions += [
        "classification is always 'U' (the writer has no other); zero is written canonically ('00000-0', ' .00000000') and a "
        "zero exponent as '+0'; day-of-year <= 365",
        "texts pairing a valid line 1 with a valid line 2 of another object are outside the contract; the name attached to an "
        "entry after an orphan line is not demanded",
    ]
