"""C12 - TLE text round-trips and is validated.

Tle.tla: the 69-column format as integer fields -> character sequences, with Parse/Valid/checksum; TLC enumerates all
pairs of field corner values around a base TLE, proves Parse(Format(f)) = f, validity and single-digit corruption
detection, and every state is replayed on the real Tle class.  TleStream.tla: multi-TLE texts."""
import random

from lib import tlc as tlcmod
from lib.tlc import RawTla

BASE = {"norad": 25544, "cls": 1, "desig": 1, "dyy": 98, "dlaunch": 67, "eyy": 18, "edoy": 124, "efrac": 55610684,
        "ndsgn": 1, "nd": 1524, "nddsgn": 1, "nddmant": 0, "nddesgn": -1, "nddexp": 0,
        "bssgn": 1, "bsmant": 30197, "bsesgn": -1, "bsexp": 4, "elnb": 999,
        "incl": 516421, "raan": 2362139, "ecc": 3381, "argp": 478509, "ma": 476767, "mm": 1554198229, "rev": 11173}
CORNER = {"norad": {0, 5, 99999, 101}, "cls": {1, 2, 3}, "desig": {0, 1, 2, 3, 4}, "dyy": {57, 99, 0, 56}, "dlaunch": {1, 999, 10},
          "eyy": {57, 99, 0, 56, 16}, "edoy": {1, 365, 59, 60, 366}, "efrac": {0, 1, 99999999, 50000000},
          "ndsgn": {-1, 1}, "nd": {0, 1, 2182, 99999999}, "nddsgn": {-1, 1}, "nddmant": {0, 10000, 99999, 12345},
          "nddesgn": {-1, 1}, "nddexp": {0, 1, 9, 5}, "bssgn": {-1, 1}, "bsmant": {0, 10000, 99999, 11606},
          "bsesgn": {-1, 1}, "bsexp": {0, 1, 9, 3}, "elnb": {0, 9, 1000, 2927, 9999},
          "incl": {0, 900000, 1799999, 1}, "raan": {0, 3599999, 10000}, "ecc": {0, 1, 9999999, 6470982},
          "argp": {0, 3599999, 1800000}, "ma": {0, 3599999, 9}, "mm": {1, 100273791, 999999999, 1000000000, 1699999999},
          "rev": {0, 7, 99999, 56353}}


def rec(d):
    return RawTla("[" + ", ".join(f"{k} |-> {v}" for k, v in d.items()) + "]")


def fn(d):
    return RawTla("(" + " @@ ".join(f'"{k}" :> {{{", ".join(map(str, sorted(v)))}}}' for k, v in d.items()) + ")")


def epochs(ctx, thorough):
    """TLC enumerates the corner grid of (year, day, second, microsecond), the real writer is run on each, TLC judges the distance."""
    import json
    import os
    consts = {"Years": {1999, 2000, 2012, 2013}, "Doys": {1, 59, 60} if not thorough else {1, 2, 59, 60, 61, 100, 364},
              "Secs": {0, 1, 43200, 86398, 86399} if not thorough else {0, 1, 59, 60, 3599, 43199, 43200, 86340, 86398, 86399},
              "Uss": {0, 1, 431, 432, 433, 567, 500000, 999567, 999568, 999569, 999999}}
    name, mc, cl = tlcmod.wrap("TleEpoch", consts)
    r = ctx.tlc(name, label="TleEpoch corner grid", cfg_text="INIT GInit\nNEXT GNext\n" + cl + "INVARIANT FracSane\nCHECK_DEADLOCK FALSE\n",
                extra_files={name + ".tla": mc}, workers=8, dump=True, timeout=900)
    grid = [{"year": s["year"], "doy": s["doy"], "sec": s["sec"], "us": s["us"]} for s in r.dump]
    chunks = [grid[i::8] for i in range(8) if grid[i::8]]
    events, errors = [], []
    for res in ctx.harness_parallel("tle_epoch.py", [{"grid": c, "labels": ["UTC", "TAI", "TT"]} for c in chunks], procs=8):
        events += res["events"]
        errors += res["errors"]
    for e in errors[:3]:
        ctx.violation("tle/epoch-raises", f"Tle.from_orbit raised for the epoch {e['grid']} ({e['label']}): {e['error']}", e)
    path = os.path.join(ctx.scratch, "tle-epochs.json")
    with open(path, "w") as fh:
        json.dump({"events": [{k: v for k, v in e.items() if k not in ("text", "label", "dot", "error")} for e in events]}, fh)
    r2 = ctx.tlc(name, label="TleEpoch judgement", cfg_text="INIT TInit\nNEXT TNext\n" + cl + "INVARIANT Report\nCHECK_DEADLOCK FALSE\n",
                 extra_files={name + ".tla": mc}, workers=4, env={"TRACE_FILE": path}, timeout=900)
    if r2.distinct < len(events) or not events:
        from lib.ctx import MachineryFailure
        raise MachineryFailure(f"TleEpoch visited {r2.distinct} states for {len(events)} events")
    bad = 0
    for (k, f) in r2.prints:
        e = events[k - 1]
        bad += 1
        for c in sorted(f):
            ctx.violation(f"tle/epoch-{c}", f"orbit dated {e['year']} day {e['doy']} {e['sec']} s {e['us']} us ({e['label']} label): Tle.from_orbit wrote "
                                            f"'{e['text'][18:32]}' and the reader gives {e['ryear']} day {e['rdoy']} {e['rsec']} s {e['rus']} us - clause {c} "
                                            f"(the epoch is kept to 1e-8 day = 864 us)", e)
    ctx.clause("an orbit dated by any UTC microsecond is written with its epoch to 1e-8 day, in 69-character lines, and read back (TleEpoch.tla)",
               len(events) + len(errors), bad + len(errors))
    ctx.evaluations += len(events)
    ctx.traces += len(events)
    for e in events:
        ctx.nontrivial.add(f"epoch:{e['year']}:{e['doy']}:{e['sec']}:{e['us']}")


def run(ctx):
    thorough = ctx.tier == "thorough"
    rnd = random.Random(ctx.seed)
    ctx.rule = ("TLC enumerates every pair of (field, corner value) substitutions into a base TLE (all 25 fields, 2-5 corner "
                "values each: 0, 1, max, boundary years 57/99/00/56, both signs, exponents -9..+1, blank/full designator, "
                "element numbers up to 9999); distinct/non-trivial = distinct sets of fields changed; plus every multi-TLE "
                "text of <= MaxLen lines from 9 line kinds")
    corner = CORNER if thorough else {k: set(sorted(v)[:3]) | ({max(v)} if k in ("elnb", "mm", "rev", "norad", "bsexp", "nddexp", "edoy") else set()) for k, v in CORNER.items()}
    name, mc, cl = tlcmod.wrap("Tle", {"Base": rec(BASE), "Corner": fn(corner)})
    cfg = "INIT Init\nNEXT Next\n" + cl + "INVARIANT RoundTrip\nINVARIANT WellFormed\nINVARIANT CorruptionDetected\nCHECK_DEADLOCK FALSE\n"
    r = ctx.tlc(name, label="Tle field pairs", cfg_text=cfg, extra_files={name + ".tla": mc}, workers=16, dump=True, timeout=2400)
    vectors = []
    for s in r.dump:
        f = s["fields"]
        changed = sorted(k for k in BASE if f[k] != BASE[k])
        vectors.append({"fields": f, "l1": "".join(s["l1"]), "l2": "".join(s["l2"]), "changed": changed})
    cap = 100000 if thorough else 2500
    if len(vectors) > cap:
        vectors = rnd.sample(vectors, cap)
        ctx.extra["vectors_sampled"] = cap
    chunks = [vectors[i::16] for i in range(16) if vectors[i::16]]
    payloads = [{"vectors": c, "corrupt_every": 10 if thorough else 25} for c in chunks]
    # multi-TLE texts
    ml = 5 if thorough else 4
    name2, mc2, cl2 = tlcmod.wrap("TleStream", {"MaxLen": ml})
    cfg2 = "INIT Init\nNEXT Next\n" + cl2 + "INVARIANT Sane\nCHECK_DEADLOCK FALSE\n"
    r2 = ctx.tlc(name2, label=f"TleStream texts <= {ml} lines", cfg_text=cfg2, extra_files={name2 + ".tla": mc2}, workers=16, dump=True)
    streams = [{"text": list(s["text"]), "expect": list(s["expect"]), "firstbad": s["firstbad"]} for s in r2.dump]
    schunks = [streams[i::16] for i in range(16)]
    for p, sc in zip(payloads, schunks):
        p["streams"] = sc
    for res in ctx.harness_parallel("tle_replay.py", payloads, procs=16):
        ctx.absorb(res)
    ctx.extra["stream_texts"] = len(streams)
    # ---- orbits whose epoch does not come from a TLE text: any UTC microsecond (TleEpoch.tla) --------------------------------------
    epochs(ctx, thorough)
    # ---- the repository's own test-suite: every TLE text it parses, judged by the column table (TleTrace.tla) ----------------
    from checks import suite
    suite.run(ctx, "C12", "tles")
    ctx.exhaustive = False
    ctx.assumptions += [
        "zero is written canonically ('00000-0', ' .00000000') and a zero exponent as '+0'; day 366 in leap years only for generated texts "
        "(the writer's 'day one beyond a common year' at the very end of the year is accepted by TleEpoch.tla)",
        "texts pairing a valid line 1 with a valid line 2 of another object are outside the contract; the name attached to an "
        "entry after an orphan line is not demanded",
    ]
