"""Physical listeners of C10: traces recorded from real iterations, validated by PhysListenersTrace.tla."""
import json
import os

ALL = ["node", "apside", "anomaly:true:1.0", "anomaly:mean:3.0", "umbra", "penumbra", "signal", "max", "mask", "radial",
       "terminator"]


def scenarios(thorough):
    sc = [
        {"name": "iss-sgp4-60", "orbit": "iss", "propagator": "sgp4", "step": 60, "duration": 10800, "listeners": ALL},
        {"name": "molniya-sgp4-600", "orbit": "molniya", "propagator": "sgp4", "step": 600, "duration": 50400,
         "listeners": ["node", "apside", "anomaly:eccentric:2.0", "anomaly:aol:0.5", "signal", "max", "umbra", "radial"]},
        {"name": "molniya-sgp4-asia-300", "orbit": "molniya", "propagator": "sgp4", "step": 300, "duration": 54000, "offset": 120000,
         "listeners": ["signal@asia", "max@asia", "radial@asia", "signal@south", "max@south", "apside"]},
        {"name": "leo-kepler-180", "orbit": "kep", "kep": [7100e3, 0.05, 1.2], "propagator": "kepler", "step": 180, "duration": 10800,
         "listeners": ["node", "apside", "anomaly:true:4.0", "anomaly:mean:0.3", "terminator", "penumbra", "signal10"]},
        {"name": "iss-ephem-45", "orbit": "iss", "propagator": "ephem", "step": 60, "ephem_step": 45, "duration": 7200,
         "listeners": ["node", "apside", "signal", "max", "umbra", "mask"]},
        {"name": "iss-keplernum-60", "orbit": "iss", "propagator": "keplernum", "step": 60, "duration": 5700,
         "listeners": ["node", "apside", "signal", "max"]},
        {"name": "geo-kepler-900", "orbit": "kep", "kep": [42164e3, 0.001, 0.1], "propagator": "kepler", "step": 900,
         "duration": 172800, "listeners": ["node", "apside", "umbra", "penumbra", "anomaly:true:2.5"]},
        {"name": "leo-kepler-skyline-20", "orbit": "kep", "kep": [6978e3, 0.001, 1.082], "propagator": "kepler", "step": 20, "duration": 86400,
         "listeners": ["mask@skyline", "signal@skyline", "max@skyline"]},
    ]
    if thorough:
        sc += [
            {"name": "iss-sgp4-15", "orbit": "iss", "propagator": "sgp4", "step": 15, "duration": 7200, "listeners": ALL},
            {"name": "iss-sgp4-300-off", "orbit": "iss", "propagator": "sgp4", "step": 300, "duration": 43200, "offset": 1234,
             "listeners": ALL},
            {"name": "iss-kepler-120", "orbit": "iss", "propagator": "kepler", "step": 120, "duration": 21600, "listeners": ALL},
            {"name": "molniya-kepler-300", "orbit": "molniya", "propagator": "kepler", "step": 300, "duration": 90000,
             "listeners": ["node", "apside", "anomaly:true:3.0", "anomaly:mean:1.0", "umbra", "penumbra", "signal", "max", "mask"]},
            {"name": "molniya-ephem", "orbit": "molniya", "propagator": "ephem", "step": 120, "duration": 43200,
             "listeners": ["node", "apside", "signal", "max", "umbra", "anomaly:eccentric:1.0"]},
            {"name": "iss-ephem-native", "orbit": "iss", "propagator": "ephem", "step": 30, "duration": 10800,
             "listeners": ALL},
            {"name": "leo-keplernum-30", "orbit": "kep", "kep": [6900e3, 0.01, 1.7], "propagator": "keplernum", "step": 30,
             "duration": 6000, "listeners": ["node", "apside", "umbra", "signal", "max", "anomaly:aol:2.0"]},
            {"name": "heo-kepler-240", "orbit": "kep", "kep": [24000e3, 0.7, 0.5], "propagator": "kepler", "step": 240,
             "duration": 80000, "listeners": ["node", "apside", "anomaly:true:1.0", "anomaly:eccentric:5.0", "penumbra", "terminator"]},
        ]
    return sc


def run(ctx):
    thorough = ctx.tier == "thorough"
    scs = scenarios(thorough)
    results = ctx.harness_parallel("listeners_physical.py", [{"scenarios": [s]} for s in scs], procs=14, timeout=3000)
    traces, notes = [], []
    laws = {"frame": {"checked": 0, "failed": 0, "examples": []}, "cone": {"checked": 0, "failed": 0, "examples": []},
            "kepler": {"checked": 0, "failed": 0, "examples": []}}
    for r in results:
        traces += r["traces"]
        notes += r["notes"]
        for k, v in r.get("laws", {}).items():
            laws[k]["checked"] += v["checked"]
            laws[k]["failed"] += v["failed"]
            laws[k]["examples"] += v["examples"]
    ctx.clause("light listener: being lit or not does not depend on the frame the listener is asked to compute in", max(laws["frame"]["checked"], 1),
               laws["frame"]["failed"])
    ctx.clause("light listener: away from the boundaries (3 km) it agrees with an independent conical-shadow computation", max(laws["cone"]["checked"], 1),
               laws["cone"]["failed"])
    ctx.clause("on two-body orbits apsides, node crossings and anomaly crossings are at their closed-form times (1 ms)", max(laws["kepler"]["checked"], 1),
               laws["kepler"]["failed"])
    for ex in laws["kepler"]["examples"][:4]:
        ctx.violation("physical/closed-form", f"{ex['scenario']}: {ex['listener']} event '{ex['label']}' at {ex['t_s']:.6f} s is {ex['off_by_s']:.4g} s away from its "
                                              "closed-form time", ex)
    for ex in laws["frame"]["examples"][:4]:
        ctx.violation("physical/light-frame", f"LightListener({ex['type']}, frame={ex['frame']}) gives {ex['value']} where the default frame gives "
                                              f"{ex['value_default_frame']} ({ex['scenario']} at {ex['t_s']:.0f} s)", ex)
    for ex in laws["cone"]["examples"][:4]:
        ctx.violation("physical/light-cone", f"LightListener({ex['type']}) = {ex['listener']} although the satellite is {ex['margin_m']:.0f} m "
                                             f"{'outside' if ex['margin_m'] > 0 else 'inside'} the independent shadow cone ({ex['scenario']} at {ex['t_s']:.0f} s)", ex)
    path = os.path.join(ctx.scratch, "phys-traces.json")
    with open(path, "w") as fh:
        json.dump({"traces": [{"classes": t["classes"], "items": t["items"]} for t in traces]}, fh)
    cfg = "INIT TInit\nNEXT TNext\nINVARIANT Report\nCHECK_DEADLOCK FALSE\n"
    tr = ctx.tlc("PhysListenersTrace", label=f"physical listener traces ({len(traces)})", cfg_text=cfg, workers=8,
                 env={"TRACE_FILE": path}, timeout=2400)
    nitems = sum(len(t["items"]) for t in traces)
    if tr.distinct < nitems:
        from lib.ctx import MachineryFailure
        raise MachineryFailure(f"trace spec consumed {tr.distinct} states for {nitems} items")
    failing = {k: f for (k, f) in tr.prints}
    ctx.traces += len(traces)
    ctx.evaluations += nitems
    nev = sum(len(n["events"]) for n in notes)
    ctx.clause("physical listeners: events exactly where the own function changes sign between samples (guard holding), "
               "inside the interval, sorted, sharp within 8 us, labelled by direction", len(traces), len(failing))
    ctx.extra["physical"] = {"traces": len(traces), "items": nitems, "events": nev,
                             "event_kinds": sorted({e for n in notes for e in n["events"]})}
    for n in notes:
        ctx.nontrivial.add("phys:" + n["id"])
    for k, f in sorted(failing.items()):
        t = traces[k - 1]
        for item in sorted(f, key=str)[:6]:
            clause = item[0]
            lname = t["classes"][item[2] - 1] if len(item) > 2 else "-"
            ctx.violation(f"physical/{clause}[{lname}]", f"trace {t['id']}: {clause} at item {item[1]} listener {lname}",
                          {"trace": t["id"], "scenario": t["scenario"], "clause": list(map(str, item)),
                           "context": t["items"][max(0, item[1] - 4): item[1] + 1]})
    if notes:
        ctx.samples.append({"trace": notes[0]["id"], "samples": notes[0]["samples"], "events": notes[0]["events"][:12]})
