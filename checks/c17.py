"""C17 - Local orbital frames and maneuvers follow their definitions.

Local.tla: QSW/TNW axes, delta-v projection and orbit-attached coordinates on an exact integer lattice (TLC proves proper
rotations and magnitude preservation, exports the exact values).  NumMan.tla: timelines of impulsive/continuous maneuvers
in a gravity-free numerical propagation on an integer time grid (exactly-once, application window).  Both replayed on
the real code; first-order realisation of keplerian increments as a law in the harness."""
import itertools
import math
import random

from lib import tlc as tlcmod
from lib.tlc import RawTla


def lattice(rnd, n):
    def isq(x):
        r = math.isqrt(x)
        return r if r * r == x else None
    vecs = [v for v in itertools.product(range(-8, 9), repeat=3) if any(v) and isq(sum(x * x for x in v))]
    rnd.shuffle(vecs)
    out = []
    for r in vecs[:300]:
        for v in vecs[:300]:
            h = (r[1] * v[2] - r[2] * v[1], r[2] * v[0] - r[0] * v[2], r[0] * v[1] - r[1] * v[0])
            if not any(h):
                continue
            nh = isq(sum(x * x for x in h))
            if nh:
                out.append((r, v, isq(sum(x * x for x in r)), isq(sum(x * x for x in v)), nh, sum(a * b for a, b in zip(r, v))))
    noncirc = [s for s in out if s[5] != 0]
    circ = [s for s in out if s[5] == 0]
    rnd.shuffle(noncirc)
    rnd.shuffle(circ)
    return noncirc[: (2 * n) // 3] + circ[: n // 3]


def tl(x):
    if isinstance(x, (list, tuple)):
        return "<<" + ", ".join(tl(y) for y in x) + ">>"
    return str(x)


def run(ctx):
    thorough = ctx.tier == "thorough"
    rnd = random.Random(ctx.seed)
    ctx.rule = ("Local.tla: lattice states with integer |r|, |v|, |r x v| (two thirds with r.v != 0, retrograde and inclined) x "
                "delta-v vectors x second states; NumMan.tla: every chronological timeline of <= MaxMans impulses (on and off the "
                "integration grid) and grid-aligned burns strictly inside the span, RK4 and Euler. Distinct/non-trivial = distinct "
                "lattice states and distinct (method, maneuver kinds, on-grid flags)")
    sts = lattice(rnd, 90 if thorough else 24)
    dvs = [(1, 0, 0), (0, -2, 0), (0, 0, 3), (2, -3, 6), (-1, 4, 5)]
    others = [((7, 1, -2), (1, 6, 2)), ((-3, 5, 9), (4, -4, 7))]
    consts = {"States": RawTla("{" + ", ".join(tl(s[:5]) for s in sts) + "}"), "Dvs": RawTla("{" + ", ".join(tl(d) for d in dvs) + "}"),
              "Others": RawTla("{" + ", ".join(tl(o) for o in others) + "}")}
    name, mc, cl = tlcmod.wrap("Local", consts)
    cfg = "INIT Init\nNEXT Next\n" + cl + "INVARIANT ProperRotations\nINVARIANT MagnitudeKept\nCHECK_DEADLOCK FALSE\n"
    r = ctx.tlc(name, label=f"Local lattice ({len(sts)} states)", cfg_text=cfg, extra_files={name + ".tla": mc}, workers=16, dump=True)
    local = []
    for s in r.dump:
        local.append({k: s[k] for k in ("st", "dv", "other", "qsw", "tnw", "pq", "pt", "relq", "relt")})
    # ---- numerical maneuvers -------------------------------------------------------------------------------------
    H, N = 60, 10
    consts2 = {"H": H, "N": N, "ImpTimes": {60, 61, 90, 119, 300, 345}, "BurnStarts": {120, 240}, "BurnDurs": {60, 120},
               "MaxMans": 3 if thorough else 2}
    name2, mc2, cl2 = tlcmod.wrap("NumMan", consts2)
    cfg2 = "INIT Init\nNEXT Next\n" + cl2 + "INVARIANT ImplInWindow\nCHECK_DEADLOCK FALSE\n"
    r2 = ctx.tlc(name2, label=f"NumMan timelines MaxMans={consts2['MaxMans']}", cfg_text=cfg2, extra_files={name2 + ".tla": mc2}, workers=16, dump=True)
    tls = [{"H": H, "N": N, "mans": [dict(m) for m in s["mans"]], "methods": ["rk4", "euler"]} for s in r2.dump]
    cap = 2500 if thorough else 220
    if len(tls) > cap:
        tls = rnd.sample(tls, cap)
        ctx.extra["numman_sampled"] = cap
    offgrid = [(130, 45, 60), (95, 100, 60), (61, 59, 30)]
    dkep = [{"kep": [7.2e6, 0.01, 0.9], "nus": [0.0, 1.0, 2.5, 3.14, 4.4, 5.9], "das": [1.0, 100.0, 1.0e4],
             "angles": [(0.0, 1e-6, 0.0), (0.0, 1e-3, 0.0), (0.0, 1e-2, 0.0), (1.5707963, 0.0, 1e-4), (0.8, 1e-5, 2e-5), (2.0, 0.0, 0.0), (3.0, 1e-2, 1e-2)]},
            {"kep": [2.66e7, 0.7, 1.1], "nus": [0.0, 0.5, 3.0, 3.3], "das": [10.0, 1.0e3], "angles": [(0.0, 1e-4, 0.0), (1.0, 1e-6, 1e-6)]}]
    payloads = [{"local": local[i::8]} for i in range(8) if local[i::8]]
    payloads += [{"numman": tls[i::8]} for i in range(8) if tls[i::8]]
    grav = []
    for method in ("rk4", "dopri54", "rkf54", "euler"):
        for t in ([61, 75, 90, 100, 119, 120, 137, 150, 163, 179] if not thorough else list(range(61, 301, 7))):
            grav.append({"method": method, "t": t, "H": 60, "dv": [1.0, 0.0, 0.0], "frame": "TNW"})
            if thorough:
                grav.append({"method": method, "t": t, "H": 30, "dv": [0.0, 0.0, 2.0], "frame": "QSW"})
    for i, pl in enumerate(payloads):
        pl["gravman"] = grav[i::len(payloads)]
    payloads[0]["offgrid"] = offgrid
    payloads[0]["dkep"] = dkep
    for res in ctx.harness_parallel("local_replay.py", payloads, procs=16, timeout=3000):
        ctx.absorb(res)
    ctx.exhaustive = False
    ctx.assumptions += [
        "exactly-once is decided with no attracting body (KeplerNum(bodies=[])) so that expected states are exact; output at non-grid "
        "dates across an impulse is not demanded",
        "first-order realisation of keplerian increments is checked as |realised - requested| <= 12 x (second-order term)",
    ]
