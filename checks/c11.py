"""C11 - Ground-station geometry matches independent geodesy.

Topo.tla: station axes from geodesy vs the implementation-shaped rotation product (exact, prime fields), exact Earth-fixed
offsets of targets given in station axes, and the piecewise-linear horizon mask; replayed on real stations."""
import itertools
import random

from lib import tlc as tlcmod
from lib.tlc import RawTla

PRIMES = [32749, 32719, 32713, 32707, 32693]


def S(xs):
    return RawTla("{" + ", ".join("<<" + ", ".join(map(str, x)) + ">>" for x in xs) + "}")


def run(ctx):
    thorough = ctx.tier == "thorough"
    rnd = random.Random(ctx.seed)
    ctx.rule = ("stations on a lattice of Pythagorean latitudes (both hemispheres, equator) x longitudes (all quadrants) x 4 altitudes; "
                "targets with integer offsets and velocities in station axes (all octants, zenith, horizon); masks: every table of 2-4 "
                "points on a pi/12 grid ending at 2 pi x every azimuth on a pi/24 grid over [-4 pi, 4 pi). Distinct/non-trivial = distinct "
                "(latitude, longitude) stations and mask tables")
    lats = [(4, 3, 5), (3, -4, 5), (1, 0, 1), (12, 5, 13), (5, -12, 13)] + ([(3, 4, 5), (15, 8, 17)] if thorough else [])
    lons = [(1, 0, 1), (3, 4, 5), (-4, 3, 5), (-3, -4, 5), (0, -1, 1), (12, -5, 13)] + ([(-1, 0, 1), (8, 15, 17)] if thorough else [])
    tgts = [(3, 4, 12, 1, -2, 2), (-4, 3, 0, 0, 5, 0), (0, 0, 7, 0, 0, -3), (2, -6, 9, -1, 1, 4), (-1, -2, 2, 3, 0, 0), (6, 2, -3, 2, 2, 1)]
    # mask tables: azimuth indexes (units pi/12) strictly increasing, last = 24 ; elevations in degrees
    tabs = []
    for k in (1, 2, 3):
        for azs in itertools.combinations([3, 7, 12, 18, 21], k):
            for els in itertools.product([0, 4, 10], repeat=k + 1):
                tabs.append(tuple(zip(list(azs) + [24], els)))
    rnd.shuffle(tabs)
    tabs = tabs[:60 if thorough else 10]
    queries = set(range(-96, 96)) if thorough else set(range(-96, 96, 3)) | {0, 48, -48, 47, 1, 24, 6, 14}
    consts = {"Primes": PRIMES, "Lats": S(lats), "Lons": S(lons), "Targets": S(tgts),
              "MaskTables": RawTla("{" + ", ".join("<<" + ", ".join(f"<<{a}, {e}>>" for a, e in t) + ">>" for t in tabs) + "}"),
              "Queries": queries}
    name, mc, cl = tlcmod.wrap("Topo", consts)
    cfg = "INIT Init\nNEXT Next\n" + cl + "INVARIANT AxesAgree\nINVARIANT AxesOrthonormal\nINVARIANT MaskBounded\nCHECK_DEADLOCK FALSE\n"
    r = ctx.tlc(name, label="Topo lattice + masks", cfg_text=cfg, extra_files={name + ".tla": mc}, workers=16, dump=True, timeout=3000)
    axes, mask = [], []
    for s in r.dump:
        if s["mode"] == "axes":
            axes.append({"lat": list(s["lat"]), "lon": list(s["lon"]), "tgt": list(s["tgt"]), "axes": [dict(m) for m in s["axes"]],
                         "off": [[list(x) for x in m] for m in s["off"]]})
        else:
            mask.append({"tab": [list(x) for x in s["tab"]], "qz": s["qz"], "mval": list(s["mval"])})
    payloads = [{"primes": PRIMES, "axes": axes[i::10], "mask": mask[i::10]} for i in range(10)]
    for res in ctx.harness_parallel("topo_replay.py", payloads, procs=16, timeout=3000):
        ctx.absorb(res)
    ctx.extra["stations_x_targets"] = len(axes)
    ctx.extra["mask_queries"] = len(mask)
    ctx.exhaustive = False
    ctx.assumptions += [
        "the ellipsoid constants (equatorial radius, flattening) are the library's own Earth body: a wrong VALUE is not detected, a wrong formula is",
        "mask tables follow the documented convention (strictly increasing azimuths, last one 2 pi, first one > 0)",
    ]
