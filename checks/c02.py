"""C02 - Frame conversions are consistent rigid motions with correct kinematics.

Frames.tla (exact lattice): TLC enumerates trees of synthetic frames with octahedral rotations, integer rates, both edge
directions and centre offsets, proves invertibility / path independence / proper rotation on the contract and exports the
exact converted state for every ordered pair; replayed on the real library with the synthetic frames registered.
Walks.tla: every ordered pair / triple of built-in, topocentric and orbit-attached frames, replayed under three EOP
configurations with the laws A->B->A = id, A->B->C = A->C, proper rotation, velocity = d/dt position, 1980 vs 2010."""
import random

from lib import tlc as tlcmod
from lib.tlc import RawTla
from lib.ctx import REPO

PAL = [[[0, 1, 0], [-1, 0, 0], [0, 0, 1]], [[1, 0, 0], [0, 0, 1], [0, -1, 0]], [[0, 1, 0], [0, 0, 1], [1, 0, 0]],
       [[-1, 0, 0], [0, 0, 1], [0, 1, 0]], [[0, 0, -1], [0, 1, 0], [1, 0, 0]]]
RATES = [[0, 0, 0], [0, 0, 1], [1, -2, 0]]
OFFS = [[0, 0, 0, 0, 0, 0], [3, -1, 2, 0, 0, 0], [1, 2, -3, 4, 0, -1]]
STATE = [7, -2, 3, 1, 5, -4]
BUILTIN = ["EME2000", "MOD", "TOD", "TEME", "PEF", "ITRF", "TIRF", "CIRF", "GCRF", "G50"]
EXTRA = ["Station", "LofN", "LofQ", "LofT", "LofS", "Moon", "EML1", "EML4e"]
DATES = [[1973, 3, 2, 1, 2, 3], [1980, 1, 1, 0, 0, 0], [1992, 6, 30, 12, 0, 0], [2000, 1, 1, 12, 0, 0], [2004, 4, 6, 7, 51, 28],
         [2009, 1, 1, 0, 0, 30], [2016, 5, 4, 12, 30, 17], [2016, 12, 31, 23, 0, 0], [2017, 1, 20, 18, 0, 0], [1985, 7, 1, 6, 0, 0],
         [1999, 12, 31, 23, 58, 0], [2012, 7, 1, 0, 3, 0]]


def mat(m):
    return "<<" + ", ".join("<<" + ", ".join(map(str, r)) + ">>" for r in m) + ">>"


def run(ctx):
    thorough = ctx.tier == "thorough"
    rnd = random.Random(ctx.seed)
    ctx.rule = ("exact clause: every tree of NF synthetic frames x 6 attribute variants (rotation, rate, edge direction, centre "
                "offset) x ordered pair x intermediate frame; law clause: every ordered pair and triple of 10 built-in + station + 3 "
                "orbit-attached frames x dates 1973-2017 x 3 EOP configurations. Distinct/non-trivial = distinct (tree, variant) "
                "configurations and distinct (first, last, length) walk classes")
    nf = 4 if thorough else 3
    consts = {"NF": nf, "Palette": RawTla("<<" + ", ".join(mat(m) for m in PAL) + ">>"), "Rates": RATES, "Offsets": OFFS, "State": STATE}
    name, mc, cl = tlcmod.wrap("Frames", consts)
    cfg = ("INIT Init\nNEXT Next\n" + cl + "INVARIANT PathIndependent\nINVARIANT Invertible\nINVARIANT EdgeInverse\n"
           "INVARIANT ProperRotation\nCHECK_DEADLOCK FALSE\n")
    r = ctx.tlc(name, label=f"Frames exact lattice NF={nf}", cfg_text=cfg, extra_files={name + ".tla": mc}, workers=16, dump=True,
                timeout=3000)
    configs = {}
    for s in r.dump:
        if not s["out"]:
            continue
        key = (tuple(s["par"]), s["var"])
        configs.setdefault(key, []).append({"src": s["src"], "dst": s["dst"], "mid": s["mid"], "out": list(s["out"])})
    cl_ = [{"par": list(k[0]), "var": k[1], "vectors": v} for k, v in sorted(configs.items())]
    payloads = [{"NF": nf, "Palette": PAL, "Rates": RATES, "Offsets": OFFS, "State": STATE, "configs": cl_[i::16]} for i in range(16) if cl_[i::16]]
    for res in ctx.harness_parallel("frames_replay.py", payloads, procs=16, timeout=3000):
        ctx.absorb(res)
    ctx.extra["exact_configurations"] = len(cl_)
    # ---- law-driven walks on the real frames -------------------------------------------------------------------
    labels = set(BUILTIN + EXTRA)
    name2, mc2, cl2 = tlcmod.wrap("Walks", {"Labels": labels, "MaxLen": 3})
    cfg2 = "SPECIFICATION Spec\n" + cl2 + "INVARIANT TokenInvariant\nCHECK_DEADLOCK FALSE\n"
    r2 = ctx.tlc(name2, label="frame walks <= 3", cfg_text=cfg2, extra_files={name2 + ".tla": mc2}, workers=8, dump=True)
    walks = [list(s["walk"]) for s in r2.dump if len(s["walk"]) >= 2]
    pairs = [w for w in walks if len(w) == 2]
    triples = [w for w in walks if len(w) == 3]
    if not thorough:
        triples = rnd.sample(triples, 260)
    dates = DATES if thorough else [DATES[i] for i in (0, 3, 6, 8)]
    if thorough:
        for _ in range(12):
            dates.append([rnd.randint(1974, 2016), rnd.randint(1, 12), rnd.randint(1, 28), rnd.randint(0, 23), rnd.randint(2, 57), rnd.randint(0, 59)])
    payloads = []
    for eop in ("real", "zero", "missing-warn"):
        ds = dates if eop == "real" else dates[:max(2, len(dates) // 3)]
        for d in ds:
            # thorough: every pair at every date; the 4 352 triples are spread over the dates (a different third of them at each)
            tw = triples if not thorough else rnd.sample(triples, len(triples) // 3)
            payloads.append({"repo": REPO, "eop": eop, "dates": [d], "walks": pairs + tw, "kinematics": True, "histories": d is ds[0]})
    for res in ctx.harness_parallel("frames_laws.py", payloads, procs=16, timeout=3000):
        ctx.absorb(res)
    ctx.exhaustive = False
    ctx.assumptions += [
        "NOT decided: agreement of the Earth-fixed <-> inertial rotation with independently computed sidereal time / Earth rotation "
        "angle / precession (numeric accuracy against an external reference); the 1980-vs-2010 clause is checked as a law between "
        "the library's two chains",
        "synthetic exact frames are registered from the harness (harness/synth.py); dates are > 2 minutes from leap seconds",
    ]
