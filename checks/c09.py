"""C09 - Ephemeris interpolation is exact at nodes and accurate between them.

Interp.tla: TLC enumerates (grid, order, query) exhaustively, checks the implementation-shaped halving search and window
arithmetic against the contract and proves (modulo two primes) that the interpolant through the specification's window
reproduces the Newton basis of degree < order; every state is replayed on the real Interp / Ephem."""
import random

from lib import tlc as tlcmod
from lib.tlc import RawTla


def grids(nmax, rnd, nonuniform=3):
    gs = []
    for n in range(2, nmax + 1):
        gs.append([2 * i for i in range(n)])                       # uniform, spacing 2
    pattern = [2, 4, 2, 6, 2, 2, 4, 2, 8, 2, 4, 2, 2, 6, 2, 4, 2, 2]       # mildly non-uniform
    for n in (5, 9, 13, nmax)[:nonuniform + 1]:
        g, x = [0], 0
        for k in range(n - 1):
            x += pattern[k % len(pattern)]
            g.append(x)
        gs.append(g)
    return gs


def run(ctx):
    thorough = ctx.tier == "thorough"
    rnd = random.Random(ctx.seed)
    ctx.rule = ("TLC enumerates every (table of 2..N nodes uniform / mildly non-uniform, order 2..12, integer query from just "
                "below the first node to just above the last, i.e. every node and every interval incl. first/last); distinct/"
                "non-trivial = distinct (outcome, order, at-node/between, window at edge/centre) classes replayed")
    nmax = 16 if thorough else 13
    gs = grids(nmax, rnd)
    orders = list(range(2, 13))
    name, mc, cl = tlcmod.wrap("Interp", {"Grids": RawTla("{" + ", ".join("<<" + ", ".join(map(str, g)) + ">>" for g in gs) + "}"),
                                          "Orders": set(orders), "Primes": {32749, 32719}})
    cfg = "INIT Init\nNEXT Next\n" + cl + "INVARIANT SearchOK\nINVARIANT WindowOK\nINVARIANT LagrangeOK\nCHECK_DEADLOCK FALSE\n"
    r = ctx.tlc(name, label=f"Interp tables<= {nmax} orders 2..12", cfg_text=cfg, extra_files={name + ".tla": mc}, workers=16,
                dump=True, timeout=2400)
    vectors = []
    for i, s in enumerate(r.dump):
        vectors.append({"xs": list(s["xs"]), "order": s["order"], "x": s["x"], "verdict": s["verdict"], "prev": s["prev"],
                        "wstart": s["wstart"], "wstop": s["wstop"], "scale": [1.0, 30.0, 0.25][i % 3], "ephem": i % 7 == 0})
    if not thorough and len(vectors) > 6000:
        keep = [v for v in vectors if v["verdict"] != "value"]
        vectors = rnd.sample([v for v in vectors if v["verdict"] == "value"], 6000) + rnd.sample(keep, min(len(keep), 800))
        ctx.extra["replay_sampled"] = len(vectors)
    chunks = [vectors[i::16] for i in range(16) if vectors[i::16]]
    for res in ctx.harness_parallel("interp_replay.py", [{"vectors": c} for c in chunks], procs=16):
        ctx.absorb(res)
    ctx.exhaustive = thorough
    ctx.assumptions += [
        "polynomial reproduction is proved on the specification modulo the primes 32749 and 32719 (an identity over Q holds "
        "modulo every prime not dividing a denominator) and checked on the code in floating point to 1e-9 relative",
        "'within centimetres for a smooth orbit' is an approximation-error bound and is not decided here",
    ]
