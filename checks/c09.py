"""C09 - Ephemeris interpolation is exact at nodes and accurate between them.

Interp.tla: TLC enumerates (grid, order, query) exhaustively, checks the implementation-shaped halving search and window
arithmetic against the contract and proves (modulo two primes) that the interpolant through the specification's window
reproduces the Newton basis of degree < order; every state is replayed on the real Interp / Ephem."""
import random

from lib import tlc as tlcmod
from lib.tlc import RawTla


def grids(nmax, rnd, nonuniform=3):
    gs = []
    for n in range(2, nmax + 1):
        gs.append([2 * i for i in range(n)])                       # uniform, spacing 2
    pattern = [2, 4, 2, 6, 2, 2, 4, 2, 8, 2, 4, 2, 2, 6, 2, 4, 2, 2]       # mildly non-uniform
    for n in (5, 9, 13, nmax)[:nonuniform + 1]:
        g, x = [0], 0
        for k in range(n - 1):
            x += pattern[k % len(pattern)]
            g.append(x)
        gs.append(g)
    return gs


def run(ctx):
    thorough = ctx.tier == "thorough"
    rnd = random.Random(ctx.seed)
    ctx.rule = ("TLC enumerates every (table of 2..N nodes uniform / mildly non-uniform, order 2..12, integer query from just "
                "below the first node to just above the last, i.e. every node and every interval incl. first/last); distinct/"
                "non-trivial = distinct (outcome, order, at-node/between, window at edge/centre) classes replayed")
    nmax = 16 if thorough else 13
    gs = grids(nmax, rnd)
    orders = list(range(2, 13))
    name, mc, cl = tlcmod.wrap("Interp", {"Grids": RawTla("{" + ", ".join("<<" + ", ".join(map(str, g)) + ">>" for g in gs) + "}"),
                                          "Orders": set(orders), "Primes": {32749, 32719}})
    cfg = "INIT Init\nNEXT Next\n" + cl + "INVARIANT SearchOK\nINVARIANT WindowOK\nINVARIANT LagrangeOK\nCHECK_DEADLOCK FALSE\n"
    r = ctx.tlc(name, label=f"Interp tables<= {nmax} orders 2..12", cfg_text=cfg, extra_files={name + ".tla": mc}, workers=16,
                dump=True, timeout=2400)
    vectors = []
    for i, s in enumerate(r.dump):
        vectors.append({"xs": list(s["xs"]), "order": s["order"], "x": s["x"], "verdict": s["verdict"], "prev": s["prev"],
                        "wstart": s["wstart"], "wstop": s["wstop"], "scale": [1.0, 30.0, 0.25][i % 3], "ephem": i % 7 == 0})
    # ---- long tables with a systematic drift of the step (+-5 %): search and window only (the polynomial identity does
    #      not depend on the table length and is proved on the short tables above)
    def drift(n1, s1, n2, s2, n3=0, s3=0):
        g, x = [0], 0
        for k, st in ((n1, s1), (n2, s2), (n3, s3)):
            for _ in range(k):
                x += st
                g.append(x)
        return g
    longs = [drift(40, 19, 40, 21), drift(40, 21, 40, 19), drift(30, 20, 30, 19, 30, 21)]
    if thorough:
        longs += [drift(100, 19, 100, 21), drift(150, 21, 150, 19)]
    name3, mc3, cl3 = tlcmod.wrap("Interp", {"Grids": RawTla("{" + ", ".join("<<" + ", ".join(map(str, g)) + ">>" for g in longs) + "}"),
                                            "Orders": {2, 5, 8, 12}, "Primes": {32749}}, name="MCInterpLong")
    cfg3 = "INIT Init\nNEXT Next\n" + cl3 + "INVARIANT SearchOK\nINVARIANT WindowOK\nCHECK_DEADLOCK FALSE\n"
    r3 = ctx.tlc(name3, label=f"Interp long drifting tables ({[len(g) for g in longs]} nodes)", cfg_text=cfg3,
                 extra_files={name3 + ".tla": mc3}, workers=16, dump=True, timeout=2400)
    longv = []
    for i, s in enumerate(r3.dump):
        longv.append({"xs": list(s["xs"]), "order": s["order"], "x": s["x"], "verdict": s["verdict"], "prev": s["prev"],
                      "wstart": s["wstart"], "wstop": s["wstop"], "scale": [1.0, 3.0][i % 2], "ephem": i % 23 == 0})
    if not thorough and len(longv) > 9000:
        longv = rnd.sample(longv, 9000)
    ctx.extra["long_table_vectors"] = len(longv)
    if not thorough and len(vectors) > 6000:
        keep = [v for v in vectors if v["verdict"] != "value"]
        vectors = rnd.sample([v for v in vectors if v["verdict"] == "value"], 6000) + rnd.sample(keep, min(len(keep), 800))
        ctx.extra["replay_sampled"] = len(vectors)
    vectors = vectors + longv
    chunks = [vectors[i::16] for i in range(16) if vectors[i::16]]
    payloads = [{"vectors": c} for c in chunks]
    # ---- histories of settings on one object (EphemSettings.tla) ------------------------------------------------------------
    sconst = {"Orders": {2, 6, 11}, "Queries": {3, 15, 28} if thorough else {3, 15}, "MaxLen": 5 if thorough else 4, "FreezeAtFirstUse": False, "CopyResetsSettings": True,
              "Reprs": RawTla('{<<"EME2000", "cartesian">>, <<"EME2000", "keplerian">>, <<"TOD", "cartesian">>, <<"ITRF", "spherical">>}')}
    n4, mc4, cl4 = tlcmod.wrap("EphemSettings", sconst, name="MCEphemSettings")
    cfg4 = "SPECIFICATION Spec\n" + cl4 + "INVARIANT UsesCurrentSettings\nCHECK_DEADLOCK FALSE\n"
    r4 = ctx.tlc(n4, label="settings histories (contract)", cfg_text=cfg4, extra_files={n4 + ".tla": mc4}, workers=8, dump=True, dump_only=["hist"])
    # expectation outside the listed properties: a copy interpolates as its source (TLC shows the code's copy() leaves it)
    r4b = ctx.tlc(n4, label="settings histories (expectation: copies keep the settings)", cfg_text="SPECIFICATION Spec\n" + cl4 + "PROPERTY CopyKeepsSettings\nCHECK_DEADLOCK FALSE\n",
                  extra_files={n4 + ".tla": mc4}, workers=8, expect_ok=False)
    ctx.extra["finding_outside_the_list_copy_resets_interpolation_settings"] = r4b.violated == "CopyKeepsSettings"
    sconst["FreezeAtFirstUse"] = True
    n5, mc5, cl5 = tlcmod.wrap("EphemSettings", sconst, name="MCEphemSettingsFrozen")
    r5 = ctx.tlc(n5, label="settings histories (deviation: frozen at first use)", cfg_text="SPECIFICATION Spec\n" + cl5 + "INVARIANT UsesCurrentSettings\nCHECK_DEADLOCK FALSE\n",
                 extra_files={n5 + ".tla": mc5}, workers=8, expect_ok=False)
    ctx.extra["deviation_frozen_settings_leaves_contract"] = r5.violated == "UsesCurrentSettings"
    hists = [[list(a) for a in s["hist"]] for s in r4.dump if s["hist"] and s["hist"][-1][0] == "interp"]
    hists = [h for h in hists if sum(1 for a in h if a[0] == "interp") >= 1 and any(a[0] != "interp" for a in h)]
    if len(hists) > (6000 if thorough else 1500):
        hists = rnd.sample(hists, 6000 if thorough else 1500)
    behs = [{"hist": h, "degree": (4, 5, 9)[i % 3]} for i, h in enumerate(hists)]
    payloads += [{"settings": behs[i::8]} for i in range(8) if behs[i::8]]
    # ---- accuracy on smooth orbits (law): element forms x frames ----------------------------------------------------------------
    acc = []
    for kep, step in (([7.2e6, 0.02, 0.9, 1.0, 2.0, 0.7], 60), ([2.66e7, 0.7, 1.1, 0.3, 4.7, 3.0], 120), ([7.0e6, 0.001, 1.7, 3.0, 0.1, 5.9], 60)):
        for fr_ in ("EME2000", "ITRF") + (("TOD",) if thorough else ()):
            for fo_ in ("cartesian", "spherical", "keplerian", "equinoctial"):
                acc.append({"kep": kep, "step": step, "n": 40 if thorough else 24, "frame": fr_, "form": fo_})
    payloads += [{"accuracy": acc[i::4]} for i in range(4)]
    for res in ctx.harness_parallel("interp_replay.py", payloads, procs=16):
        ctx.absorb(res)
    ctx.exhaustive = thorough
    ctx.assumptions += [
        "polynomial reproduction is proved on the specification modulo the primes 32749 and 32719 (an identity over Q holds "
        "modulo every prime not dividing a denominator) and checked on the code in floating point to 1e-9 relative",
        "'within centimetres for a smooth orbit' is an approximation-error bound and is not decided here",
    ]
