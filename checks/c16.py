"""C16 - Clohessy-Wiltshire propagation solves Hill's equations.

CW.tla: the closed-form matrices as coefficient vectors; TLC proves Phi(0)=I, Gam(0)=0, Phi'=A Phi, Gam'=A Gam + B and the
semigroup law on the lattice tau = k pi/2; it enumerates maneuver timelines and derives the contract's segment plan.  The
harness evaluates the specification's tables in floating point and compares all 36+18 entries, compositions, maneuver
sequencing and the rendezvous helper's announced displacements with the real propagator, QSW and TNW."""
import random

from lib import tlc as tlcmod
from lib.ctx import MachineryFailure


def run(ctx):
    thorough = ctx.tier == "thorough"
    ctx.rule = ("TLC enumerates chronologically ordered timelines of <= MaxMans impulsive/continuous maneuvers on a grid of eighth "
                "periods x query dates (before epoch, before/at/inside/after each maneuver); matrix entries are compared at lattice "
                "times tau = k pi/2, k = -8..8 and seeded random times, for several target radii and both orientations. "
                "Distinct/non-trivial = distinct (orientation, maneuver kinds, backwards) classes")
    consts = {"Times": {0, 2, 3, 5, 8, 12} if not thorough else {0, 1, 2, 3, 5, 8, 12, 16}, "MaxMans": 2 if not thorough else 3,
              "Durations": {2, 3} if not thorough else {1, 2, 4}}
    name, mc, cl = tlcmod.wrap("CW", consts)
    mc = mc.replace("====", "ASSUME ExportTables\n====")
    cfg = ("INIT Init\nNEXT Next\n" + cl + "INVARIANT PhiSolvesHill\nINVARIANT GamSolvesHill\nINVARIANT SemigroupOnLattice\n"
           "INVARIANT ExactlyOnce\nINVARIANT TimeAddsUp\nCHECK_DEADLOCK FALSE\n")
    r = ctx.tlc(name, label=f"CW tables + timelines MaxMans={consts['MaxMans']}", cfg_text=cfg, extra_files={name + ".tla": mc},
                workers=16, dump=True, timeout=3000)
    tables = {p[0]: p[1] for p in r.prints if p and p[0] in ("Phi", "Gam")}
    if set(tables) != {"Phi", "Gam"}:
        raise MachineryFailure("specification tables were not exported by TLC")
    phi = [[list(e) for e in row] for row in tables["Phi"]]
    gam = [[list(e) for e in row] for row in tables["Gam"]]
    timelines = []
    for s in r.dump:
        timelines.append({"mans": [dict(m) for m in s["mans"]], "query": s["query"], "plan": [list(x) for x in s["plan"]]})
    rnd = random.Random(ctx.seed)
    cap = 20000 if thorough else 4000
    if len(timelines) > cap:
        timelines = rnd.sample(timelines, cap)
        ctx.extra["timelines_sampled"] = cap
    smas = [6800000.0, 7178137.0, 42164000.0] if not thorough else [6678137.0, 6800000.0, 7178137.0, 12000000.0, 26560000.0, 42164000.0]
    payloads = []
    nchunk = 6 if not thorough else 4
    for sma in smas:
        for i in range(nchunk):
            payloads.append({"Phi": phi, "Gam": gam, "smas": [sma], "lattice": list(range(-8, 9)) if i == 0 else [],
                             "nrandom": (6 if not thorough else 40) if i == 0 else 0, "timelines": timelines[i::nchunk],
                             "seed": ctx.seed + i})
    for res in ctx.harness_parallel("cw_replay.py", payloads, procs=16, timeout=3000):
        ctx.absorb(res)
    ctx.exhaustive = False
    ctx.assumptions += [
        "the closed form in CW.tla is proven by TLC to solve Hill's equations with constant thrust (linear algebra on coefficient "
        "vectors); its floating-point evaluation in the harness is the oracle for the code",
        "second-order agreement with the difference of two Keplerian orbits is not decided by this check (numeric scaling law)",
        "dates are rounded to the microsecond by timedelta: comparisons allow n * 2 us of phase",
    ]
