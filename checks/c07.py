"""C07 - SGP4 propagation equals the reference SGP4 theory.

First sentence (default propagator = wrapper around the reference library): decided as plumbing by trace validation.
Tle.tla generates a catalogue of TLE texts; traces of the real wrapper (lines handed to the library, calendar tuple, library
output, returned state) are validated by Sgp4Plumbing.tla (lines = the TLE, tuple = UTC reading of the instant per Dates.tla,
result = 1000 x library output, result date = requested instant).  Second sentence (native Sgp4Beta within 1 cm of the
reference where the full near-Earth model applies): law between the library's two code paths, evaluated on the catalogue."""
import json
import os
import random

from lib import eopgen
from lib import tlc as tlcmod
from lib.tlc import RawTla
from lib.ctx import REPO, MachineryFailure
from checks.c12 import rec, fn, BASE

CORNER = {"norad": {5, 25544, 99999}, "desig": {0, 1, 3}, "eyy": {74, 85, 99, 0, 8, 16}, "edoy": {1, 124, 300, 365},
          "efrac": {0, 55610684, 99999999}, "ndsgn": {-1, 1}, "nd": {0, 1524, 30000}, "bssgn": {-1, 1}, "bsmant": {0, 11606, 30197, 99999},
          "bsesgn": {-1}, "bsexp": {2, 3, 4}, "incl": {1, 516421, 634000, 982000, 1440000, 1799000}, "raan": {0, 2362139, 3599999},
          "ecc": {0, 1, 500, 1000, 1001, 3381, 100000, 1000000, 6470982, 9000000}, "argp": {0, 478509, 2700000}, "ma": {0, 476767, 1800000},
          "mm": {50000000, 100273791, 200561000, 318684355, 640000000, 1000000000, 1420902451, 1554198229, 1650000000}, "rev": {7, 11173}}


def run(ctx):
    thorough = ctx.tier == "thorough"
    rnd = random.Random(ctx.seed)
    ctx.rule = ("TLC (Tle.tla) generates TLE texts for all pairs of corner values of the SGP4-relevant fields (inclinations 0..180, e 0..0.9, "
                "mean motion 0.5..16.5 rev/day incl. deep space, +-B*, epochs 1974-2016 - the shipped IERS tables start on 1973-01-02 and a query may be 30 days before the epoch); each TLE is propagated at dates within +-30 days "
                "under the 6 date labels; every recorded wrapper trace is validated by Sgp4Plumbing.tla. Distinct/non-trivial = distinct TLEs")
    base = dict(BASE)
    base["eyy"] = 16          # epochs inside the IERS tables shipped with the repository
    name, mc, cl = tlcmod.wrap("Tle", {"Base": rec(base), "Corner": fn(CORNER)}, name="MCTleCatalogue")
    cfg = "INIT Init\nNEXT Next\n" + cl + "INVARIANT RoundTrip\nINVARIANT WellFormed\nCHECK_DEADLOCK FALSE\n"
    r = ctx.tlc(name, label="TLE catalogue (Tle.tla)", cfg_text=cfg, extra_files={name + ".tla": mc}, workers=16, dump=True, timeout=3000)
    # every TLE that differs from the base in at most ONE field is always propagated (each corner value of each field in an otherwise
    # ordinary low orbit with drag: e.g. the eccentricities 1e-7, 5e-5, 1e-4 around the reference model's near-circular threshold);
    # the pairs are sampled
    singles = [("".join(s["l1"]), "".join(s["l2"])) for s in r.dump if sum(1 for k in base if s["fields"][k] != base[k]) <= 1]
    tles = [("".join(s["l1"]), "".join(s["l2"])) for s in r.dump if sum(1 for k in base if s["fields"][k] != base[k]) > 1]
    rnd.shuffle(tles)
    tles = singles + tles[: (1200 if thorough else 110)]
    ctx.extra["single_field_tles"] = len(singles)
    labels = ["UTC", "TAI", "TT", "GPS", "UT1", "TDB"]
    cases = []
    for k, (l1, l2) in enumerate(tles):
        qs = [(0.0, "UTC"), (rnd.uniform(-30, 30) * 86400.0, labels[k % 6]), (round(rnd.uniform(-2, 2) * 86400.0, 6), labels[(k + 3) % 6]),
              (5400.123456, "UTC"), (-86400.0 * 29.5, "UTC")]
        qs = [(round(a, 6), b) for a, b in qs]
        cases.append({"id": k, "l1": l1, "l2": l2, "queries": qs, "beta": True})
    # B* twins: the same identifier, epoch and elements with another drag term, propagated right after the original in the same process
    def cks(line):
        return line[:68] + str(sum(int(c) if c.isdigit() else (1 if c == "-" else 0) for c in line[:68]) % 10)
    twins = []
    for c in cases[::5]:
        alt = " 50000-3" if c["l1"][53:61] != " 50000-3" else " 12345-4"
        twins.append((c["id"], {"id": len(cases) + len(twins), "l1": cks(c["l1"][:53] + alt + c["l1"][61:]), "l2": c["l2"], "queries": c["queries"][:3], "beta": False}))
    order = []
    tw = dict(twins)
    for c in cases:
        order.append(c)
        if c["id"] in tw:
            order.append(tw[c["id"]])
    cases = order
    tles = tles + [(t[1]["l1"], t[1]["l2"]) for t in twins]
    n16 = (len(cases) + 15) // 16
    chunks = [cases[i * n16:(i + 1) * n16] for i in range(16) if cases[i * n16:(i + 1) * n16]]      # consecutive: a twin stays next to its original
    results = ctx.harness_parallel("sgp4_trace.py", [{"repo": REPO, "cases": c} for c in chunks], procs=16, timeout=3000)
    traces = []
    laws = {"checked": 0, "failed": 0, "worst_cm": 0.0, "examples": []}
    laws2 = {"checked": 0, "failed": 0, "examples": []}
    for res in results:
        for kk in ("checked", "failed"):
            laws2[kk] += res.get("laws2", {}).get(kk, 0)
        laws2["examples"] += res.get("laws2", {}).get("examples", [])
    for res in results:
        traces += res["traces"]
        for k in ("checked", "failed"):
            laws[k] += res["laws"][k]
        laws["worst_cm"] = max(laws["worst_cm"], res["laws"]["worst_cm"])
        laws["examples"] += res["laws"]["examples"]
    # items with errors are violations by themselves; the rest goes to TLC
    clean = []
    for t in traces:
        if t.get("error"):
            ctx.violation("sgp4/tle-rejected", f"catalogue TLE {t['id']} rejected: {t['error']}", t)
            continue
        its = []
        for it in t["items"]:
            if it.get("error"):
                ctx.violation("sgp4/wrapper", f"TLE {t['id']}: {it['error']}", {"tle": tles[t["id"]], "item": it})
            else:
                its.append(it)
        clean.append({"id": t["id"], "items": its})
    days = sorted({it["inst"][0] + k for t in clean for it in t["items"] if it["ev"] == "call" for k in (-1, 0, 1)})
    mod, _s, _u = eopgen.eop_module(REPO, days)
    path = os.path.join(ctx.scratch, "sgp4-traces.json")
    with open(path, "w") as fh:
        json.dump({"traces": clean}, fh)
    n2, mc2, cl2 = tlcmod.wrap("Sgp4Plumbing", {"Days": set(), "Sods": RawTla("{}"), "EdgeSods": RawTla("{}"), "Deltas": RawTla("{}"), "MaxSteps": 0})
    cfg2 = "INIT TInit\nNEXT TNext\n" + cl2 + "INVARIANT Report\nCHECK_DEADLOCK FALSE\n"
    tr = ctx.tlc(n2, label=f"wrapper traces ({len(clean)})", cfg_text=cfg2, extra_files={n2 + ".tla": mc2, "EopData.tla": mod}, workers=8,
                 env={"TRACE_FILE": path}, timeout=2400)
    nitems = sum(len(t["items"]) for t in clean)
    if tr.distinct < nitems:
        raise MachineryFailure(f"trace spec consumed {tr.distinct} states for {nitems} items")
    failing = {k: f for (k, f) in tr.prints}
    ctx.traces += len(clean)
    ctx.evaluations += nitems
    ctx.clause("wrapper traces: lines handed to the reference library are the TLE, the calendar tuple is the UTC reading of the instant, the "
               "result is 1000 x the library output at the requested instant", len(clean), len(failing))
    for k, f in sorted(failing.items())[:30]:
        t = clean[k - 1]
        for item in sorted(f, key=str)[:3]:
            ctx.violation(f"sgp4/{item[0]}", f"TLE {t['id']} item {item[1]}: clause {item[0]} fails: {json.dumps(t['items'][item[1] - 1])[:300]}",
                          {"tle": tles[t["id"]], "item": t["items"][item[1] - 1]})
    for t in clean:
        ctx.nontrivial.add(f"tle{t['id']}")
    ctx.samples.append({"tle": list(tles[0]), "trace_item": clean[0]["items"][-1] if clean and clean[0]["items"] else None})
    ctx.clause("the state returned by the default SGP4 propagator is the reference library's state for that TLE text at that instant (|v| x 50 us)",
               max(laws2["checked"], 1), laws2["failed"])
    for ex in laws2["examples"][:4]:
        ctx.violation("sgp4/reference", f"default Sgp4 differs from the reference model built from the same lines by {ex['difference_m']:.4g} m "
                                        f"(allowed {ex['allowed_m']:.3g} m) at {ex['offset_s']} s ({ex['label']})", ex)
    # ---- law between the two code paths -----------------------------------------------------------------------------------
    ctx.clause("native Sgp4Beta agrees with the wrapped reference within 1 cm where the full near-Earth model applies", max(laws["checked"], 1), laws["failed"])
    ctx.extra["native_vs_reference"] = {"compared": laws["checked"], "worst_cm": laws["worst_cm"]}
    ctx.extra["native_vs_reference"]["examples"] = sorted(laws["examples"], key=lambda e: -e.get("difference_cm", 1e9))[:40]
    for ex in sorted(laws["examples"], key=lambda e: -e.get("difference_cm", 1e9))[:5]:
        ctx.violation("sgp4beta/differs", f"native model differs from the reference by {ex.get('difference_cm', ex.get('error'))} cm", ex)
    ctx.exhaustive = False
    ctx.assumptions += [
        "the reference implementation is the installed python-sgp4 (Vallado, WGS-72) exactly as the wrapper calls it; its internals are not modelled",
        "the native-vs-reference clause is a law between two code paths of the library, on the generated catalogue (period < 225 min, perigee >= 220 km)",
    ]
