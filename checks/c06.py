"""C06 - Numerical propagation converges to the true two-body solution.

RungeKutta.tla: the Butcher tableaux observed from the live class are checked by TLC (exact prime-field arithmetic) against
the row-sum and rooted-tree order conditions (Euler 1, RK4 4, RKF54 and DOPRI54 5 with embedded 4), and one generic step on
linear problems is executed exactly and replayed on the real _make_step; the numerical laws of the property are evaluated in
the harness."""
import random

from lib import tlc as tlcmod
from lib.tlc import RawTla
from lib.ctx import MachineryFailure

PRIMES = [32749, 32719, 32713, 32707, 32693]
ORDERS = {"euler": (1, 0), "rk4": (4, 0), "rkf54": (5, 4), "dopri54": (5, 4)}


def q(x):
    return f"<<{x[0]}, {x[1]}>>"


def seq(xs):
    return "<<" + ", ".join(xs) + ">>"


def run(ctx):
    thorough = ctx.tier == "thorough"
    rnd = random.Random(ctx.seed)
    ctx.rule = ("4 live tableaux x (row sums, 1+1+2+4+9 rooted-tree order conditions for b, up to order 4 for b*) in 5 prime fields; x linear "
                "test problems (kappa, g0, g1, x0, v0, t0, h rational) executed exactly and replayed; numerical laws on LEO..GEO orbits. "
                "Distinct/non-trivial = distinct (method, kappa, g1) problems")
    tabs = ctx.harness("rk_replay.py", {"observe": True})
    probs = []
    for kap in ((0, 1), (-1, 400), (3, 1000)):
        for g1 in ((0, 1), (1, 50)):
            for h in ((1, 1), (2, 1), (1, 2), (7, 4)):      # steps are timedeltas: only microsecond-representable values
                probs.append([kap, (1, 3), g1, (5, 1), (-2, 3), (3, 2), h])
    if not thorough:
        probs = probs[::2]
    steps = []
    for method, t in tabs.items():
        order, ostar = ORDERS[method]
        rows = [seq([q(x) for x in r]) for r in t["a"]]
        while len(rows) < len(t["b"]):
            rows.append("<<>>")
        consts = {"Primes": PRIMES, "TA": RawTla(seq(rows)), "TB": RawTla(seq([q(x) for x in t["b"]])),
                  "TBS": RawTla(seq([q(x) for x in t["b_star"]])), "TC": RawTla(seq([q(x) for x in t["c"]])),
                  "Order": order, "OrderStar": ostar,
                  "Problems": RawTla("{" + ", ".join(seq([q(x) for x in p]) for p in probs) + "}")}
        name, mc, cl = tlcmod.wrap("RungeKutta", consts, name=f"MCRungeKutta_{method}")
        cfg = "INIT Init\nNEXT Next\n" + cl + "INVARIANT OrderConditions\nINVARIANT NotHigherOrder\nCHECK_DEADLOCK FALSE\n"
        r = ctx.tlc(name, label=f"tableau {method}: order {order}" + (f", embedded {ostar}" if ostar else ""), cfg_text=cfg,
                    extra_files={name + ".tla": mc}, workers=8, dump=True, expect_ok=False, timeout=1200)
        if r.violated:
            ctx.violation(f"rk/order-conditions[{method}]", f"the live tableau of {method} violates {r.violated} (order {order} / embedded {ostar})",
                          {"method": method, "tableau": t, "violated": r.violated})
            ctx.clause("the live Butcher tableau satisfies the order conditions of its stated order", 1, 1)
            continue
        ctx.clause("the live Butcher tableau satisfies the order conditions of its stated order", 1, 0)
        for s in r.dump:
            steps.append({"method": method, "prob": [list(x) for x in s["prob"]], "y1": [list(m) for m in s["y1"]]})
    force = [{"r": [1, 2, 2], "norm": 3}, {"r": [2, 3, 6], "norm": 7}, {"r": [-1, 4, 8], "norm": 9}, {"r": [4, -4, 7], "norm": 9},
             {"r": [2, 6, -9], "norm": 11}, {"r": [-6, -6, 7], "norm": 11}]
    laws = [{"kep": [7.0e6, 0.01, 0.9, 1.0, 2.0, 0.5], "t": 2400, "hs": {"euler": [10, 5], "rk4": [120, 60]}}]
    if thorough:
        laws += [{"kep": [2.66e7, 0.6, 1.1, 0.3, 1.0, 2.5], "t": 7200, "hs": {"euler": [20, 10], "rk4": [120, 60]}},
                 {"kep": [4.2164e7, 0.001, 0.1, 0.3, 1.0, 2.5], "t": 14400, "hs": {"euler": [60, 30], "rk4": [120, 60]}},
                 {"kep": [6.8e6, 0.001, 1.7, 0.3, 1.0, 2.5], "t": -3000, "hs": {"euler": [10, 5], "rk4": [60, 30]}}]
    payloads = [{"primes": PRIMES, "steps": steps[i::6], "tableaux": tabs} for i in range(6) if steps[i::6]]
    payloads.append({"primes": PRIMES, "force": force})
    for lw in laws:
        payloads.append({"primes": PRIMES, "laws": [lw]})
    payloads.append({"primes": PRIMES, "tolerance_kept": True})
    for res in ctx.harness_parallel("rk_replay.py", payloads, procs=12, timeout=3000):
        ctx.absorb(res)
    ctx.exhaustive = False
    ctx.assumptions += [
        "DECIDED by the specification: order conditions of the live tableaux and the step code on linear problems. The convergence-rate, "
        "tolerance, invariant-drift and split-independence clauses are numerical inequalities evaluated in the harness (outside the "
        "model-checking family), with generous factors (x/ 2.5 on the rate, 20 x tolerance per step, 1e-6 relative drift, 3 cm)",
    ]
