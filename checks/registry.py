"""Single source of truth for what MANIFEST.json claims."""

NOTES = ("Model-based verification with explicit TLA+ specifications (spec/*.tla) checked by TLC and bound to the code by "
         "replaying TLC-generated behaviours/exact vectors on the real library and by validating projected real states "
         "and recorded traces with the specification's contract operators. See DESIGN.md. Exit codes: 0 held / 1 VIOLATION / "
         "2 machinery failure. known_findings.json lists genuine defects that are reported as KNOWN-FINDING lines.")

CHECKS = [
    {
        "property_id": "C20",
        "design_ref": "DESIGN.md §4 C20",
        "technique": "TLA+ model (Routing.tla, Registry.tla) + TLC exhaustive enumeration of link/creation histories, replayed on real Node/frames; trace validation of projected real states against the contract (RoutingTrace.tla)",
        "text": "TLC enumerates every Link history (all orders, orientations, repeats) on forests up to N=5 (quick) / N=6 (thorough) and on general graphs, checks the implementation-shaped Node._update against the contract (Valid, Unconnected, TreeUnique, Shortest), every history is replayed on real Node objects and the projected real tables are judged by TLC with the contract operators; Registry.tla enumerates interleavings of station/orbit-frame creations with conversions, replayed on the real library in forked processes (conversions between pre-existing frames must not change); the live built-in graphs (forms, scales, orientations, centres incl. JPL bodies) are projected and validated as forests with unique routes.",
        "level_note": "Exhaustive only within the stated bounds (N<=5/6 nodes, <=4/5 links; <=2/3 creations); N=8 trees of the quantifier are not reached exhaustively. Registry replay is a seeded sample of the TLC behaviours in the quick tier. Trusted: TLC, the projection function (reads Node.neighbors / Node.routes), same-named linked nodes (library Earth / JPL Earth) are merged into one vertex.",
    },
]

_PENDING = "check not built yet in this session (design in DESIGN.md §4); will be claimed once its TLA+ model and conformance harness exist"
NOT_APPLICABLE = [
    {"property_id": f"C{i:02d}", "reason": _PENDING} for i in range(1, 20)
]
