"""Single source of truth for what MANIFEST.json claims."""

NOTES = ("Model-based verification with explicit TLA+ specifications (spec/*.tla) checked by TLC and bound to the code by "
         "replaying TLC-generated behaviours/exact vectors on the real library and by validating projected real states "
         "and recorded traces with the specification's contract operators. See DESIGN.md. Exit codes: 0 held / 1 VIOLATION / "
         "2 machinery failure. known_findings.json lists genuine defects that are reported as KNOWN-FINDING lines.")

CHECKS = [
    {
        "property_id": "C15",
        "design_ref": "DESIGN.md §4 C15",
        "technique": "TLA+ reference model StateVector.tla (value semantics of handles: copy / convert / assign / fail / metadata, maneuver and covariance mutations / pickle / as_orbit) explored by TLC exhaustively (short) and by simulation (long); every behaviour replayed on real objects with the projection of every live handle compared after every action",
        "text": "The specification is the contract as a reference model: each handle owns form, frame, coordinate token, maneuver list, list-valued and scalar metadata and covariance; copies duplicate, actions touch one handle, failing form/frame changes (unknown form, unknown frame, Hill, unconnected frame, coordinate name of another form) change nothing. TLC enumerates all sequences of <=2 (thorough 3) of ~25 action kinds on up to 3 handles and simulates thousands of sequences of 6-7 actions; the replay performs them on real Orbit/StateVector objects (Kepler propagator, maneuvers, covariance, list and scalar metadata) and after every action compares every live handle with the model: kind, form, frame, cartesian EME2000 fingerprint (1e-9), maneuver count, metadata, covariance presence/frame/trace; assignment by index/name/alias must set exactly that element (names and aliases transcribed from the form doc-strings).",
        "level_note": "Isolation between an object and its as_orbit/as_statevector derivative, of individual maneuver objects and of opaque user objects is not demanded (in-place mutations of shared objects in such alias groups are excluded from the explored behaviours). Trusted: TLC, the projection function.",
    },
    {
        "property_id": "C14",
        "design_ref": "DESIGN.md §4 C14",
        "technique": "TLA+ model CovFrames.tla on an exact integer lattice (octahedral frames, axis-aligned state, integer covariance): contract J C0 J^T vs implementation-shaped m1/m2 model, all assignment sequences enumerated by TLC and replayed on real Cov objects in synthetic exact frames and on the built-in frames",
        "text": "TLC enumerates every sequence of <=3 (thorough 4) assignments cov.frame = t / state.frame = t over 5 exact frames + QSW + TNW for 3-5 attachment frames and state orientations; the specification computes the exact integer matrix J C0 J^T each behaviour must end with (J depending on the target only, QSW/TNW built from the state in the attachment frame) and checks the implementation-shaped model of Cov.frame against it. Every behaviour is replayed on real Cov/StateVector objects with the synthetic frames registered in the real library (1e-9); the same walks mapped onto the 10 built-in frames + QSW/TNW from 7 non-rotating starts are replayed with the one-hop-from-fresh result as token, the single hop being judged as J C J^T with J obtained by converting the six basis states; symmetry, PSD, position-block eigenvalues, restoration and a same-frame covariance following its state are checked.",
        "level_note": "Exact oracle only on the octahedral lattice; generic frames through path-independence laws (1e-7 relative). For rotating targets the full 6x6 is only required to be path independent, symmetric, PSD and restorable. Trusted: TLC, harness/synth.py (registers synthetic frames).",
    },
    {
        "property_id": "C12",
        "design_ref": "DESIGN.md §4 C12",
        "technique": "TLA+ model Tle.tla (69-column format as integer fields -> character sequences, Parse/Valid/checksum) and TleStream.tla (multi-TLE texts) enumerated by TLC; every state replayed on the real Tle class",
        "text": "The specification formats TLE lines from integer fields by the published column table and TLC proves Parse(Format(f)) = f, validity (69 columns, checksums) and detection of every single-digit corruption for all pairs of (field, corner value) substitutions into a base TLE. Each generated TLE text is fed to the real Tle: parsed fields must equal the printed ones to their precision (epoch to 1e-8 day), Tle.from_orbit(tle.orbit()) must reproduce both lines and the name line character for character; single-digit corruptions of every column, wrong lengths and wrong line numbers must raise TleParseError. TleStream.tla enumerates every text of <=4/5 lines from 9 line kinds; from_string must yield exactly the valid entries in order, and raise with error='raise' iff an invalid line 2 is present.",
        "level_note": "Pairs of corner values around one base TLE, not the full product. Classification fixed to 'U'; zero written canonically; day-of-year <= 365. Orbits given in other forms/frames are judged by C01/C02, only the text here. Trusted: TLC, the column table transcribed in Tle.tla.",
    },
    {
        "property_id": "C09",
        "design_ref": "DESIGN.md §4 C09",
        "technique": "TLA+ model Interp.tla: halving search + window arithmetic vs contract, Lagrange reproduction of the Newton basis proved modulo primes by TLC over every (table, order, query); each state replayed on the real Interp/Ephem",
        "text": "TLC enumerates every table of 2..13 (thorough 16) nodes (uniform and mildly non-uniform), order 2..12 and every integer query from just below the first node to just above the last; it checks the implementation-shaped _prev_idx and window selection against the contract (exactly `order` consecutive nodes inside the table bracketing the query, centred when possible, refusal outside the table or when the table is shorter than the order) and proves on the specification that the interpolant through that window reproduces all polynomials of degree < order. Replay on the real code: the window actually used is observed through unit-vector data (support of the weights) and the weights compared with the exact rational Lagrange weights; polynomial reproduction, node exactness (4 ulp), linear mode, refusal, and the Ephem.interpolate path (dates as abscissae, frame/form kept, no extrapolation).",
        "level_note": "Not decided: 'within centimetres for a smooth orbit' (approximation error, numeric). Bit-exact node values in linear mode not demanded. Ephem path compared at 2e-6 relative because dates are MJD floats (0.6 us resolution). Trusted: TLC, modular-arithmetic argument (two 15-bit primes).",
    },
    {
        "property_id": "C10",
        "design_ref": "DESIGN.md §4 C10",
        "technique": "TLA+ model Listeners.tla (listen/_bisect on a microsecond grid vs contract) checked by TLC over all sign patterns; real Speaker driven on the same grid and its streams judged by TLC (ListenersTrace.tla); recorded traces of the physical listeners validated by a TLA+ trace specification (PhysListenersTrace.tla)",
        "text": "TLC checks the implementation-shaped listen()/_bisect() (timedelta halving, list order, sorted events, clear on new pass) against the contract (sound/complete w.r.t. sampling, between, sharp, label = direction, ordered, fresh after clear) for every pattern of <=3 sign flips; the same pattern sets run through the real AnalyticalPropagator.iter and Ephem.iter (dates and range modes, listener objects re-used in a second pass) and every real stream is judged with the contract operators. Physical listeners (Node, Apside, Anomaly x4, Light umbra/penumbra, Terminator, StationSignal/Max/Mask, RadialVelocity): streams of real iterations (SGP4, Kepler, KeplerNum, Ephem; ISS, Molniya, LEO, GEO; steps 45 s..900 s; two passes with the same listener objects) are recorded with the sign of each listener's own function and guard at every sample and around every event, and a TLA+ trace machine decides where events must and must not be, their order, interval, sharpness (8 us) and direction labels.",
        "level_note": "Not decided: closed-form Keplerian event times and umbra/penumbra against an independent conical shadow model (numeric; only soundness/sharpness w.r.t. the listener's own function). Quantity exactly zero at a sample is outside the property. Pattern replay is a seeded sample of the exhaustive model in the quick tier. Trusted: TLC, the recorder (calls the listeners' own __call__ on yielded samples, two-body Taylor shift of +-8 us around events).",
    },
    {
        "property_id": "C08",
        "design_ref": "DESIGN.md §4 C08",
        "technique": "TLA+ model Propagation.tla (call-history state machine + RangeOps iteration contract + implementation-shaped KeplerNum/Ephem date models) enumerated by TLC; every history replayed on real orbits/propagators/ephemerides of 7 kinds",
        "text": "TLC enumerates all single calls over a wide (start, span, step) grid and all histories of 2 (thorough: 3) calls on two orbits sharing one propagator instance; the spec supplies the exact date sequence each call must yield (DateRange contract) and refusal outside an ephemeris table; the replay checks, for SGP4, Kepler, J2, none, Clohessy-Wiltshire, KeplerNum and Ephem: exact dates in order and none beyond stop, each yielded state equal to a direct propagation from a fresh copy, initial orbit objects untouched, re-used listener objects giving the events of a fresh run.",
        "level_note": "Bounded grids (5-9 starts, 7-13 spans, 4-6 steps; histories <= 2/3 calls). Numerical states compared to 3 cm / 0.1 mm/s (interpolation error), analytical to 1e-9 relative. KeplerNum replays are a seeded sample in the quick tier. Partially consumed generators interleaved with other calls are not demanded. Known findings: backward ranges (Ephem, KeplerNum), short spans, stop off the integration grid, explicit date lists for KeplerNum.",
    },
    {
        "property_id": "C03",
        "design_ref": "DESIGN.md §4 C03",
        "technique": "TLA+ models Dates.tla / DateRange.tla / Eop.tla checked exhaustively by TLC (exact integer tick arithmetic over IERS tables read independently); every reachable state/behaviour replayed on real Date, DateRange, EopDb",
        "text": "Dates.tla: state = one TAI instant + scale label; actions change_scale / + timedelta; TLC proves on the model that relabelling keeps the instant, arithmetic is exact in uniform scales, the clock reading is well defined, and exports for every reachable state the exact instant and clock reading (0.1 us ticks) which the real Date must reproduce (exact scales to 1 ns and ==; UT1/TDB within the conversion resolution), plus order/eq/hash consistency across labels; every day of the IERS tables is checked for UT1-UTC/TAI-UTC in the thorough tier (400 sampled days quick). DateRange.tla: all (start, stop, step, inclusive) on a grid, iteration/len/membership. Eop.tla: registry + missing-policy machine, all action histories replayed on the real EopDb, plus the real tables on an uncovered date.",
        "level_note": "Bounded: start days = both sides of leap seconds (2 quick / all thorough) + seeded days, 17 seconds-of-day incl. carry boundaries, <=2 actions. TDB-TT value not decided (bound + instant preservation only). Instants within 3 min of a leap second and, for UT1/TDB, within 200 s of a day boundary are outside the quantifier. Trusted: TLC, lib/eopgen.py (independent table reader), float->tick projection.",
    },
    {
        "property_id": "C20",
        "design_ref": "DESIGN.md §4 C20",
        "technique": "TLA+ model (Routing.tla, Registry.tla) + TLC exhaustive enumeration of link/creation histories, replayed on real Node/frames; trace validation of projected real states against the contract (RoutingTrace.tla)",
        "text": "TLC enumerates every Link history (all orders, orientations, repeats) on forests up to N=5 (quick) / N=6 (thorough) and on general graphs, checks the implementation-shaped Node._update against the contract (Valid, Unconnected, TreeUnique, Shortest), every history is replayed on real Node objects and the projected real tables are judged by TLC with the contract operators; Registry.tla enumerates interleavings of station/orbit-frame creations with conversions, replayed on the real library in forked processes (conversions between pre-existing frames must not change); the live built-in graphs (forms, scales, orientations, centres incl. JPL bodies) are projected and validated as forests with unique routes.",
        "level_note": "Exhaustive only within the stated bounds (N<=5/6 nodes, <=4/5 links; <=2/3 creations); N=8 trees of the quantifier are not reached exhaustively. Registry replay is a seeded sample of the TLC behaviours in the quick tier. Trusted: TLC, the projection function (reads Node.neighbors / Node.routes), same-named linked nodes (library Earth / JPL Earth) are merged into one vertex.",
    },
]

_PENDING = "check not built yet in this session (design in DESIGN.md §4); will be claimed once its TLA+ model and conformance harness exist"
NOT_APPLICABLE = [
    {"property_id": f"C{i:02d}", "reason": _PENDING} for i in range(1, 20) if i not in (3, 8, 9, 10, 12, 14, 15)
]
