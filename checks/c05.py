"""C05 - Analytical two-body and J2 propagation obey Kepler's laws.

Kepler.tla: exact first-order secular J2 rate coefficients in canonical units (prime-field arithmetic) and the elapsed-time
state machine (composition / inverse built in); TLC enumerates (orbit, sequence of time steps); replayed on the real Kepler
and J2 propagators with the initial state given in various element forms."""
import random

from lib import tlc as tlcmod
from lib.tlc import RawTla

PRIMES = [32749, 32719, 32713, 32707, 32693]


def S(xs):
    return RawTla("{" + ", ".join("<<" + ", ".join(map(str, x)) + ">>" for x in xs) + "}")


def run(ctx):
    thorough = ctx.tier == "thorough"
    rnd = random.Random(ctx.seed)
    ctx.rule = ("TLC enumerates orbits (a = k^2 Re with rational k, eccentricities with rational sqrt(1-e^2), sin^2 i rational incl. polar "
                "and critical inclination) x sequences of <= MaxSteps forward/backward time steps; each replayed with Kepler and J2, "
                "prograde and retrograde, the initial state given in 6 different forms; plus seeded float orbits (elliptic e >= 1e-4, "
                "hyperbolic e <= 10, dt within +-30 d). Distinct/non-trivial = distinct (a, e, sin^2 i, number of steps)")
    ks = [(6, 5), (3, 2), (2, 1)] + ([(5, 2), (7, 5)] if thorough else [])
    ecc = [(3, 5, 4, 5), (5, 13, 12, 13), (8, 17, 15, 17)] + ([(4, 5, 3, 5), (7, 25, 24, 25)] if thorough else [])
    sin2 = [(1, 1), (4, 5), (1, 4), (16, 25)] + ([(9, 25), (3, 4)] if thorough else [])
    dts = {-7, 3, 16, 41} if not thorough else {-53, -7, 3, 16, 41, 97}
    consts = {"Primes": PRIMES, "Ks": S(ks), "Ecc": S(ecc), "Sin2": S(sin2), "Dts": dts, "MaxSteps": 2 if not thorough else 3}
    name, mc, cl = tlcmod.wrap("Kepler", consts)
    cfg = "SPECIFICATION Spec\n" + cl + "INVARIANT ElapsedIsSum\nINVARIANT CriticalInclination\nCHECK_DEADLOCK FALSE\n"
    r = ctx.tlc(name, label="Kepler/J2 lattice x step sequences", cfg_text=cfg, extra_files={name + ".tla": mc}, workers=16, dump=True, timeout=3000)
    vectors = [{"k": list(s["k"]), "ecc": list(s["ecc"]), "s2": list(s["s2"]), "steps": list(s["steps"]), "elapsed": s["elapsed"],
                "coef": [dict(m) for m in s["coef"]]} for s in r.dump if s["steps"]]
    cap = 12000 if thorough else 700
    if len(vectors) > cap:
        vectors = rnd.sample(vectors, cap)
        ctx.extra["sampled"] = cap
    payloads = [{"primes": PRIMES, "vectors": vectors[i::14]} for i in range(14) if vectors[i::14]]
    payloads += [{"primes": PRIMES, "vectors": [], "nfloat": 400 if thorough else 60, "seed": ctx.seed + j} for j in range(2)]
    payloads += [{"primes": PRIMES, "vectors": [], "nfloat": 200 if thorough else 40, "seed": ctx.seed + 5 + j, "body": b} for j, b in enumerate(("moon", "heavy"))]
    for res in ctx.harness_parallel("kepler_replay.py", payloads, procs=16, timeout=3000):
        ctx.absorb(res)
    ctx.exhaustive = False
    ctx.assumptions += [
        "NOT decided: agreement with an independent universal-variable two-body solution on generic orbits (only the element laws, "
        "composition, inverse, periodicity; the element definitions themselves are C01's)",
        "secular rates are the first-order J2 rates stated in the specification; Earth.J2, Earth.r, Earth.mu are taken from the library",
    ]
