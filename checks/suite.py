"""Trace validation of the repository's OWN test-suite (binding B2 on executions not designed here).

The suite (or the part of it relevant to a property) is run from /repo's working tree under harness/suite_plugin.py, which
records abstract-state events at the public calls' returns without touching /repo; the events are judged by TLC with the
contract operators: SuiteTrace.tla (dates, time scales, iteration streams) and RoutingTrace.tla (Node links)."""
import json
import os
import subprocess

from lib.ctx import REPO, ROOT, PY, MachineryFailure

SUBSETS = {
    "dates": ["tests/test_date.py", "tests/frames/test_iau1980.py", "tests/propagators/test_sgp4beta.py"],
    "iter": ["tests/propagators", "tests/orbits/test_ephem.py", "tests/orbits/test_orbit.py"],
    "links": ["tests/utils/test_node.py", "tests/frames", "tests/env/test_jpl.py", "tests/orbits/test_forms.py"],
    "streams": ["tests/propagators/test_listeners.py", "tests/orbits/test_ephem.py", "tests/frames/test_stations.py"],
    "tles": ["tests/io/test_tle.py", "tests/propagators/test_sgp4beta.py", "tests/io/ccsds/test_omm.py"],
}
ALL = ["--doctest-modules", "beyond", "tests"]

# clause of SuiteTrace.tla -> (key of the violation, clause text)
CLAUSES = {
    "date-instant": "Date(reading, scale): the instant is the reading plus the contract's offset for the label (EOP as attached)",
    "date-offset": "the offset stored with the date is the contract's offset",
    "unknown-scale": "labels are the six documented scales",
    "relabel-label": "change_scale returns the label asked for",
    "relabel-exact": "relabelling between UTC/TAI/TT/GPS keeps the instant",
    "relabel-1us": "relabelling with UT1/TDB keeps the instant within 1 us",
    "relabel-gross": "relabelling with UT1/TDB keeps the instant within 1 us",
    "plus-label": "d + timedelta keeps the label",
    "plus-reading": "d + timedelta advances the clock reading of the label scale by the timedelta",
    "plus-instant": "in uniform scales (and in UTC with unchanged TAI-UTC) the instant advances by the timedelta",
    "minus-instant": "d1 - d2 is the difference of the instants, to the microsecond",
    "range-empty": "a completed range iteration yields at least its start",
    "range-first": "iteration starts at start",
    "range-step": "consecutive dates differ by the step, in the direction of stop",
    "range-beyond-stop": "no date beyond stop",
    "range-stops-early": "the last date is the last one of the range",
    "list-dates": "iteration over a list yields those dates in order",
    "list-length": "iteration over a list yields all of them",
    "nodes-outside-request": "stored points of an ephemeris: inside the request, increasing",
    "stream-fresh": "a stream starts with a sample",
    "stream-ordered": "dates of a stream never go back",
    "stream-between": "an event lies after the previous sample and not after the next",
    "ephem-not-refused": "a strict ephemeris refuses requests outside its table",
    "unknown-event": "recorder and specification agree on the event kinds",
}
# failing clauses that belong to an already known root cause of the library: (property, clause) -> known-finding key
KNOWN_ROOT = {("C03", "relabel-1us"): "date/relabel-instant-1us"}


def record(ctx, paths, label):
    out = os.path.join(ctx.scratch, f"suite-{label}.jsonl")
    env = dict(os.environ)
    env.update({"VERIF_SUITE_TRACE": out, "PYTHONPATH": os.path.join(ROOT, "harness"), "PYTHONDONTWRITEBYTECODE": "1",
                "PYTHONHASHSEED": "0", "VERIF_SUITE_MAXN": "40"})
    env.pop("BEYOND_VERIF", None)
    cmd = [PY, "-m", "pytest", "-q", "-p", "no:cacheprovider", "-p", "suite_plugin", "-o", "addopts=", "--timeout=900",
           "--continue-on-collection-errors", "-x" if False else "-q"] + paths
    proc = subprocess.run(cmd, cwd=REPO, env=env, capture_output=True, text=True, timeout=3000)
    if not os.path.exists(out):
        raise MachineryFailure(f"the suite recording produced nothing (rc={proc.returncode})\n{proc.stdout[-2000:]}\n{proc.stderr[-2000:]}")
    events = [json.loads(line) for line in open(out)]
    meta = [e for e in events if e["k"] == "meta"]
    if not meta:
        raise MachineryFailure("the suite recording is incomplete (no final record)\n" + proc.stdout[-2000:])
    if meta[-1]["errors"]:
        raise MachineryFailure(f"the recorder failed {meta[-1]['errors']} times (run with VERIF_SUITE_DEBUG=1)")
    tail = proc.stdout.strip().splitlines()[-1] if proc.stdout.strip() else ""
    return [e for e in events if e["k"] != "meta"], {"pytest": tail, "recorded": meta[-1]["total"], "skipped": meta[-1]["skipped"]}


def validate_events(ctx, pid, events, label):
    """dates / scales / arithmetic / iteration streams -> SuiteTrace.tla"""
    from lib import tlc as tlcmod
    from lib.tlc import RawTla
    evs = [e for e in events if e["k"] in ("date", "scale", "plus", "minus", "iter")]
    # sphere-of-influence propagators restart their iteration at every transition (the transition date is yielded twice, and the
    # step changes with the active body): not among the propagators property C08 quantifies over
    nsoi = sum(1 for e in evs if e["k"] == "iter" and e["cls"].startswith("SoI"))
    evs = [e for e in evs if not (e["k"] == "iter" and e["cls"].startswith("SoI"))]
    ctx.extra.setdefault("suite_traces", {})["soi_iterations_not_judged"] = nsoi
    if not evs:
        return 0
    n2, mc2, cl2 = tlcmod.wrap("SuiteTrace", {"Days": set(), "Sods": RawTla("{}"), "EdgeSods": RawTla("{}"), "Deltas": RawTla("{}"),
                                               "MaxSteps": 0}, name=f"MCSuiteTrace_{label}")
    cfg = "INIT TInit\nNEXT TNext\n" + cl2 + "INVARIANT Report\nCHECK_DEADLOCK FALSE\n"
    from lib import eopgen
    eopmod, _s, _u = eopgen.eop_module(REPO, [51544, 51545])       # Dates.tla needs the module; the traces carry their own EOP values
    per = 6000
    nfail = {}
    for b in range(0, len(evs), per):
        chunk = evs[b:b + per]
        path = os.path.join(ctx.scratch, f"suite-{label}-{b}.json")
        with open(path, "w") as fh:
            json.dump({"events": chunk}, fh)
        tr = ctx.tlc(n2, label=f"suite traces {label} [{b}:{b + len(chunk)}]", cfg_text=cfg, extra_files={n2 + ".tla": mc2, "EopData.tla": eopmod}, workers=8,
                     env={"TRACE_FILE": path}, timeout=2400)
        if tr.distinct < len(chunk):
            raise MachineryFailure(f"trace spec visited {tr.distinct} states for {len(chunk)} events")
        for (k, f) in tr.prints:
            e = chunk[k - 1]
            for c in sorted(f):
                nfail[c] = nfail.get(c, 0) + 1
                key = KNOWN_ROOT.get((pid, c), f"suite/{c}")
                slim = {kk: vv for kk, vv in e.items() if kk != "out"}
                if "out" in e:
                    slim["out_head"] = e["out"][:12]; slim["out_tail"] = e["out"][-6:]
                    slim["out_len"] = len(e["out"])
                ctx.violation(key, f"test-suite trace, {e['test']}: {e['k']} event fails clause {c}: {json.dumps(slim)[:420]}",
                              {"event": slim, "clause": c, "how": "pytest under harness/suite_plugin.py; event judged by SuiteTrace.tla"})
    kinds = {}
    for e in evs:
        kinds[e["k"]] = kinds.get(e["k"], 0) + 1
        ctx.nontrivial.add("suite:" + e["k"] + ":" + e.get("lab", e.get("cls", "")) + ":" + e.get("new", e.get("status", e.get("form", ""))))
    for k, n in kinds.items():
        bad = sum(v for c, v in nfail.items() if c.split("-")[0] in {"date": ("date", "unknown"), "scale": ("relabel",), "plus": ("plus",),
                                                                    "minus": ("minus",), "iter": ("range", "list", "nodes", "stream", "ephem")}[k])
        ctx.clause(f"test-suite traces: every recorded {k} event satisfies the contract (SuiteTrace.tla)", n, min(bad, n))
    ctx.traces += len({e["test"] for e in evs})
    ctx.evaluations += len(evs)
    return len(evs)


def validate_links(ctx, events, label):
    """Node link events -> RoutingTrace.tla (contract operators of Routing.tla)"""
    links = [e for e in events if e["k"] == "link"]
    if not links:
        return 0
    n = max(len(e["names"]) for e in links)

    def pad(p, m):
        nb = [list(r) for r in p["nb"]] + [[] for _ in range(n - m)]
        rt = [list(map(list, r)) + [[0, 0]] * (n - m) for r in p["rt"]] + [[[0, 0]] * n for _ in range(n - m)]
        return {"nb": nb, "rt": rt}
    states, index, steps, origin = [], {}, [], {}
    for e in links:
        m = len(e["names"])
        ids = []
        for p in (e["pre"], e["post"]):
            q = pad(p, m)
            key = json.dumps(q, sort_keys=True)
            if key not in index:
                states.append(q)
                index[key] = len(states)
                origin[len(states)] = e
            ids.append(index[key])
        steps.append({"pre": ids[0], "post": ids[1], "a": e["a"], "b": e["b"]})
        origin[("step", len(steps))] = e
    path = os.path.join(ctx.scratch, f"suite-links-{label}.json")
    with open(path, "w") as fh:
        json.dump({"states": states, "steps": steps}, fh)
    cfg = ("INIT TInit\nNEXT TNext\nCONSTANTS\n N = %d\n MaxLinks = 0\n ForestOnly = FALSE\n SinglePass = FALSE\nINVARIANT Report\nCHECK_DEADLOCK FALSE\n" % n)
    r = ctx.tlc("RoutingTrace", label=f"suite link events {label} (N={n})", cfg_text=cfg, workers=8, env={"TRACE_FILE": path}, timeout=2400)
    if r.distinct < len(states) + len(steps):
        raise MachineryFailure(f"RoutingTrace visited {r.distinct} states for {len(states) + len(steps)} items")
    bad_states = bad_steps = 0
    for (k, f) in r.prints:
        if k <= len(states):
            e = origin[k]
            bad_states += 1
        else:
            e = origin[("step", k - len(states))]
            bad_steps += 1
        for c in sorted(f):
            key = {"shortest": "shortest/cyclic-graph"}.get(c, c)
            ctx.violation(key, f"test-suite trace, {e['test']}: link {e['names'][e['a'] - 1]} + {e['names'][e['b'] - 1]}: clause {c} fails "
                               f"on the real tables", {"names": e["names"], "a": e["a"], "b": e["b"], "pre": e["pre"], "post": e["post"], "clause": c})
    ctx.clause("test-suite traces: graph states after every recorded link satisfy the routing contract (RoutingTrace.tla)", len(states), bad_states)
    ctx.clause("test-suite traces: every recorded link is a Link effect and keeps existing routes", len(steps), bad_steps)
    ctx.evaluations += len(steps)
    for e in links:
        ctx.nontrivial.add("suite:link:" + ",".join(e["names"][:3]) + f":{len(e['names'])}")
    return len(steps)


def validate_tles(ctx, events, label):
    """TLE texts parsed by the suite -> TleTrace.tla (column table of Tle.tla)"""
    from lib import tlc as tlcmod
    from lib.tlc import RawTla
    from checks.c12 import rec, fn, BASE, CORNER
    evs = [e for e in events if e["k"] == "tle"]
    if not evs:
        return 0
    name, mc, cl = tlcmod.wrap("TleTrace", {"Base": rec(BASE), "Corner": fn({k: set(list(v)[:1]) for k, v in CORNER.items()})}, name="MCTleTrace")
    cfg = "INIT TInit\nNEXT TNext\n" + cl + "INVARIANT Report\nCHECK_DEADLOCK FALSE\n"
    path = os.path.join(ctx.scratch, f"suite-tles-{label}.json")
    with open(path, "w") as fh:
        json.dump({"events": evs}, fh)
    r = ctx.tlc(name, label=f"suite TLE texts {label}", cfg_text=cfg, extra_files={name + ".tla": mc}, workers=4, env={"TRACE_FILE": path}, timeout=900)
    if r.distinct < len(evs):
        raise MachineryFailure(f"TleTrace visited {r.distinct} states for {len(evs)} texts")
    bad = 0
    for (k, f) in r.prints:
        e = evs[k - 1]
        bad += 1
        for c in sorted(f):
            ctx.violation(f"suite/tle-{c}", f"test-suite trace, {e['test']}: the library read field {c} differently from the column table for\n"
                                            f"{''.join(e['l1'])}\n{''.join(e['l2'])}", {"l1": "".join(e["l1"]), "l2": "".join(e["l2"]), "clause": c,
                                                                                         "logged": {kk: vv for kk, vv in e.items() if kk not in ("l1", "l2")}})
    ctx.clause("test-suite traces: every TLE text the suite parses is read as the column table says, and is valid (TleTrace.tla)", len(evs), bad)
    ctx.evaluations += len(evs)
    for e in evs:
        ctx.nontrivial.add("suite:tle:" + "".join(e["l1"])[2:7] + "".join(e["l1"])[18:32])
    return len(evs)


def run(ctx, pid, what):
    """what: 'dates' | 'iter' | 'links' | 'streams'"""
    thorough = ctx.tier == "thorough"
    paths = ALL if thorough else SUBSETS[what]
    events, info = record(ctx, paths, what)
    keep = {"dates": ("date", "scale", "plus", "minus"), "iter": ("iter",), "links": ("link",), "streams": ("iter",), "tles": ("tle",)}[what]
    events = [e for e in events if e["k"] in keep]
    if what == "streams":        # iterations with listeners: the stream clauses (fresh, ordered, between) are the ones exercised
        events = [e for e in events if e["listeners"] > 0]
    n = validate_links(ctx, events, what) if what == "links" else validate_tles(ctx, events, what) if what == "tles" else validate_events(ctx, pid, events, what)
    info["validated"] = n
    ctx.extra.setdefault("suite_traces", {})[what] = info
    if n == 0:
        raise MachineryFailure(f"no {what} event was recorded from {paths}")
    ctx.assumptions.append(
        f"test-suite traces ({what}): events recorded by harness/suite_plugin.py from {'the whole suite' if thorough else ', '.join(paths)}; "
        "after the first 60 events of a kind in a test, 1 in 40 is kept; graph components above 40 nodes or with two nodes of the same "
        "name (stations re-created by fixtures) are not projected")
