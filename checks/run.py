#!/venv/bin/python
"""Entry point of every registered check:  run.py <property id> --tier quick|thorough [--replay file]

exit 0: property held on everything explored (known findings are listed as KNOWN-FINDING lines)
exit 1: VIOLATION property=<id> replay=<path>
exit 2: machinery failure (TLC could not run, harness crashed) - never a verdict about the code
"""
import argparse
import importlib
import json
import os
import sys
import traceback

ROOT = os.path.dirname(os.path.dirname(os.path.abspath(__file__)))
sys.path.insert(0, ROOT)
os.environ.setdefault("PYTHONHASHSEED", "0")

from lib.ctx import Ctx, MachineryFailure, LibraryRaised  # noqa
from lib.tlc import TlcFailure  # noqa


def main():
    ap = argparse.ArgumentParser()
    ap.add_argument("pid")
    ap.add_argument("--tier", default=os.environ.get("VERIF_TIER", "quick"), choices=["quick", "thorough"])
    ap.add_argument("--replay")
    a = ap.parse_args()
    seed = int(os.environ.get("VERIF_SEED", "20261001"))
    mod = importlib.import_module(f"checks.{a.pid.lower()}")
    if a.replay:
        with open(a.replay) as fh:
            rep = json.load(fh)
        return mod.replay(rep) if hasattr(mod, "replay") else print(json.dumps(rep, indent=1)) or 0
    ctx = Ctx(a.pid, a.tier, seed, level=getattr(mod, "LEVEL", "model_checking"))
    try:
        mod.run(ctx)
        return ctx.finish()
    except LibraryRaised as e:
        exc = e.error.split(":")[0].strip() or "Exception"
        ctx.violation(f"library-raised/{e.script[:-3]}[{exc}]",
                      f"the library raised where the replay {e.script} expects it to answer: {e.error} (at {e.where}); the rest of this check was not run",
                      {"script": e.script, "error": e.error, "where": e.where, "traceback_tail": e.tail})
        ctx.clause("the library answers every call of the replays that the contract says it must answer", 1, 1)
        return ctx.finish()
    except (MachineryFailure, TlcFailure) as e:
        ctx.cleanup()
        print(f"MACHINERY-FAILURE property={a.pid}: {e}", file=sys.stderr)
        return 2
    except Exception:
        ctx.cleanup()
        traceback.print_exc()
        print(f"MACHINERY-FAILURE property={a.pid}: unexpected exception", file=sys.stderr)
        return 2


if __name__ == "__main__":
    sys.exit(main())
