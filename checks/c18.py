"""C18 - Solar-system body positions match the JPL ephemeris.

Jpl.tla: the SPK kernel's segment list (read by an independent reader) as a tree; TLC enumerates every ordered pair of bodies,
checks the tree and the algebra of the formal signed sums and exports them; the harness evaluates the sums with the segments'
own evaluation and compares with the frames and orbits of beyond.env.jpl, with and without PCK files.  Analytical Sun/Moon:
velocity = derivative of their own positions, and agreement with the kernel to the accuracy of their series."""
import random

from lib import tlc as tlcmod
from lib.tlc import RawTla
from lib.ctx import REPO


def run(ctx):
    thorough = ctx.tier == "thorough"
    rnd = random.Random(ctx.seed)
    ctx.rule = ("every ordered pair of the bodies present in the kernel (TLC, exhaustive) x dates over 2000-2020 x date labels x with/without "
                "PCK files; distinct/non-trivial = distinct ordered pairs")
    obs = ctx.harness("jpl_replay.py", {"repo": REPO, "observe": True})
    seg = obs["segments"]
    name, mc, cl = tlcmod.wrap("Jpl", {"Seg": RawTla("<<" + ", ".join(f"<<{c}, {t}>>" for c, t in seg) + ">>")})
    cfg = "INIT Init\nNEXT Next\n" + cl + "INVARIANT TreeOK\nINVARIANT Antisymmetric\nINVARIANT Triangle\nINVARIANT NonEmpty\nCHECK_DEADLOCK FALSE\n"
    r = ctx.tlc(name, label=f"SPK tree, {len(seg)} segments, all ordered pairs", cfg_text=cfg, extra_files={name + ".tla": mc}, workers=8, dump=True)
    pairs = [{"a": s["a"], "b": s["b"], "plus": sorted(s["plus"]), "minus": sorted(s["minus"])} for s in r.dump]
    n = 1000 if thorough else 10
    # the second and fourth dates are in the last / first minute of their day: the TDB reading (the kernel's argument) falls on
    # another calendar day than the reading in the date's own scale
    dates = [[2000, 1, 2, 12, 0, 0], [2003, 3, 9, 23, 59, 30], [2019, 12, 30, 6, 0, 0], [2012, 7, 1, 0, 0, 12], [2010, 3, 4, 5, 6, 7]]
    while len(dates) < (24 if thorough else 6):
        dates.append([rnd.randint(2000, 2019), rnd.randint(1, 12), rnd.randint(1, 28), rnd.randint(0, 23), rnd.randint(0, 59), rnd.randint(0, 59)])
    payloads = []
    for pck in (True, False):
        sel = pairs if (pck or thorough) else rnd.sample(pairs, 60)
        for i in range(7):
            payloads.append({"repo": REPO, "Seg": seg, "pairs": sel[i::7], "dates": dates if pck else dates[:2], "pck": pck, "bodies": pck and i == 0})
    for res in ctx.harness_parallel("jpl_replay.py", payloads, procs=14, timeout=3000):
        ctx.absorb(res)
    ctx.extra["ordered_pairs"] = len(pairs)
    ctx.exhaustive = True
    ctx.assumptions += [
        "the kernel is tests/data/jpl/de403_2000-2020.bsp read with jplephem; the formal sums are evaluated with the segments' own "
        "compute_and_differentiate at the TDB Julian date (km -> m, km/day -> m/s); |v| x 50 us allowed for the float Julian date",
        "agreement of the analytical Sun/Moon series with the kernel (0.02 deg / 1e-4, 0.7 deg / 0.5 %) is a numerical comparison on the sampled "
        "dates, not decided by the specification",
    ]
