"""C01 - Orbital element forms are lossless, definition-true views of one state.

Forms.tla: exact rational lattice orbits (prime-field arithmetic); TLC checks that the textbook definitions evaluated from
the cartesian state give back the elements and exports every defining quantity; the harness reconstructs the rationals and
compares all 10x10 conversions, Kepler's equation and the derived quantities.  Walks.tla enumerates all walks of <= 3 forms."""
import random

from lib import tlc as tlcmod
from lib.tlc import RawTla

PRIMES = [32749, 32719, 32713, 32707, 32693]
FORMS = ["cartesian", "keplerian", "keplerian_eccentric", "keplerian_mean", "keplerian_circular", "keplerian_mean_circular",
         "equinoctial", "tle", "spherical", "cylindrical"]


def S(xs):
    return RawTla("{" + ", ".join("<<" + ", ".join(map(str, x)) + ">>" for x in xs) + "}")


def run(ctx):
    thorough = ctx.tier == "thorough"
    rnd = random.Random(ctx.seed)
    ctx.rule = ("lattice: eccentricities with rational sqrt|1-e^2| (elliptic and hyperbolic) x angular momenta x inclinations (prograde, "
                "polar, retrograde) x node x perigee x true anomaly in all quadrants (Pythagorean angles); for each, every ordered pair of "
                "the forms defined for it; walks: every walk of <= 3 distinct consecutive forms x seeded float orbits (e from 1e-4 to 20). "
                "Distinct/non-trivial = distinct (eccentricity, inclination, anomaly) lattice classes")
    ecc = [(3, 5, 4, 5), (4, 5, 3, 5), (5, 4, 3, 4), (5, 3, 4, 3)]
    angs = [(1, 0, 1), (3, 4, 5), (-4, 3, 5), (0, -1, 1), (4, -3, 5)]
    nus = [(1, 0, 1), (0, 1, 1), (-3, 4, 5), (-1, 0, 1), (4, -3, 5), (3, 4, 5), (-4, -3, 5)]
    incs = [(3, 4, 5), (-3, 4, 5), (0, 1, 1), (4, 3, 5)]
    hs = [(1, 1), (3, 2)]
    if thorough:
        ecc += [(5, 13, 12, 13), (12, 13, 5, 13), (13, 5, 12, 5), (13, 12, 5, 12)]
        angs += [(-3, -4, 5), (5, 12, 13)]
        nus += [(12, 5, 13), (-12, -5, 13)]
    else:
        angs = angs[:3]
        hs = hs[:1] + hs[1:]
    consts = {"Primes": PRIMES, "Ecc": S(ecc), "Hs": S(hs), "Incs": S(incs), "Angs": S(angs), "Nus": S(nus)}
    name, mc, cl = tlcmod.wrap("Forms", consts)
    cfg = "INIT Init\nNEXT Next\n" + cl + "INVARIANT DefinitionsHold\nCHECK_DEADLOCK FALSE\n"
    r = ctx.tlc(name, label="Forms lattice", cfg_text=cfg, extra_files={name + ".tla": mc}, workers=16, dump=True, timeout=3000)
    vectors = []
    for s in r.dump:
        if not s["q"]:
            continue
        vectors.append({"ecc": list(s["ecc"]), "hh": list(s["hh"]), "inc": list(s["inc"]), "node": list(s["node"]), "peri": list(s["peri"]),
                        "nu": list(s["nu"]), "q": [dict(m) for m in s["q"]]})
    cap = 20000 if thorough else 900
    if len(vectors) > cap:
        vectors = rnd.sample(vectors, cap)
        ctx.extra["lattice_sampled"] = cap
    # walks
    name2, mc2, cl2 = tlcmod.wrap("Walks", {"Labels": set(FORMS), "MaxLen": 3})
    cfg2 = "SPECIFICATION Spec\n" + cl2 + "INVARIANT TokenInvariant\nCHECK_DEADLOCK FALSE\n"
    r2 = ctx.tlc(name2, label="form walks <= 3", cfg_text=cfg2, extra_files={name2 + ".tla": mc2}, workers=8, dump=True)
    walks = [list(s["walk"]) for s in r2.dump if len(s["walk"]) >= 2]
    payloads = [{"primes": PRIMES, "vectors": vectors[i::12]} for i in range(12) if vectors[i::12]]
    payloads += [{"walks": walks[i::4], "nstates": 40 if thorough else 8, "seed": ctx.seed + i} for i in range(4)]
    # "any central body mu": the same lattice and walks about the Moon and about a synthetic heavy body (frames of their own, whose
    # centre carries the body); the code must take mu from the state's frame everywhere
    for bi, body in enumerate(("moon", "heavy")):
        sub = vectors[bi::(2 if thorough else 6)]
        payloads += [{"primes": PRIMES, "vectors": sub[i::3], "body": body} for i in range(3) if sub[i::3]]
        payloads.append({"walks": walks[bi::(3 if thorough else 9)], "nstates": 12 if thorough else 4, "seed": ctx.seed + 10 + bi, "body": body})
    for res in ctx.harness_parallel("forms_replay.py", payloads, procs=16, timeout=3000):
        ctx.absorb(res)
    ctx.extra["walks"] = len(walks)
    ctx.exhaustive = False
    ctx.assumptions += [
        "tle and keplerian_mean_circular are taken as undefined for hyperbolic orbits (mean motion of a < 0, unbounded mean anomaly modulo 2 pi)",
        "the exact oracle lives on the lattice (e in {3/5, 4/5, 5/4, 5/3, ...}); small eccentricities are reached by the walk law only",
        "conversions out of mean-anomaly forms are compared at 2e-7 (Newton tolerance 1e-8 of the Kepler solver), others at 1e-9",
    ]
