"""C15 - State vectors have value semantics and change atomically.

StateVector.tla is the contract as a reference model (every handle owns its state).  TLC enumerates action sequences
exhaustively (short) and by simulation (long); each is replayed on real StateVector/Orbit objects and the projection of
every live handle is compared with the model after every action."""
import json
import random

from lib import tlc as tlcmod

FORMS = {"cartesian", "keplerian", "keplerian_mean", "spherical"}
FRAMES = {"EME2000", "ITRF", "TOD"}


def norm_state(s):
    hs = s["h"]
    hs = [hs[k] for k in sorted(hs)] if isinstance(hs, dict) else list(hs)
    return {"h": hs, "last": s["last"]}


def run(ctx):
    thorough = ctx.tier == "thorough"
    rnd = random.Random(ctx.seed)
    ctx.rule = ("TLC enumerates every sequence of <= 2 (thorough 3) actions (copy, copy with conversion, set form/frame, failing "
                "form/frame changes of 4 kinds, assignment by index/name/alias, metadata / maneuver / covariance mutations, pickle, "
                "as_orbit/as_statevector) on up to 3 handles, and simulates sequences of 6-7 actions; distinct/non-trivial = distinct "
                "operation kinds exercised, every behaviour has >= 1 action")
    behaviours = []
    # ---- exhaustive, short ------------------------------------------------------------------------------------
    ml = 3 if thorough else 2
    name, mc, cl = tlcmod.wrap("StateVector", {"MaxH": 3, "MaxLen": ml, "Forms": FORMS, "Frames": FRAMES})
    cfg = ("SPECIFICATION Spec\n" + cl + "PROPERTY OthersUntouched\nPROPERTY FailuresAreAtomic\nPROPERTY CopiesEqualSource\n"
           "CHECK_DEADLOCK FALSE\n")
    r = ctx.tlc(name, label=f"exhaustive sequences <= {ml}", cfg_text=cfg, extra_files={name + ".tla": mc}, workers=16, dump=True,
                timeout=2400)
    by = {}
    for s in r.dump:
        by[json.dumps([dict(a) for a in s["hist"]], sort_keys=True)] = s
    for key, s in by.items():
        hist = [dict(a) for a in s["hist"]]
        if len(hist) != ml:
            continue
        states = [norm_state(by[json.dumps(hist[:k], sort_keys=True)]) for k in range(1, len(hist) + 1)]
        behaviours.append({"hist": hist, "states": states})
    cap = 30000 if thorough else 2500
    if len(behaviours) > cap:
        behaviours = rnd.sample(behaviours, cap)
        ctx.extra["exhaustive_sampled_for_replay"] = cap
    # ---- simulation, long ---------------------------------------------------------------------------------------
    depth = 8 if thorough else 7
    name2, mc2, cl2 = tlcmod.wrap("StateVector", {"MaxH": 3, "MaxLen": depth - 1, "Forms": FORMS, "Frames": FRAMES}, name="MCStateVectorSim")
    cfg2 = "SPECIFICATION Spec\n" + cl2 + "CHECK_DEADLOCK FALSE\n"
    num = 12000 if thorough else 3000
    r2 = ctx.tlc(name2, label=f"simulation num={num} depth={depth}", cfg_text=cfg2, extra_files={name2 + ".tla": mc2}, workers=1,
                 simulate={"num": num, "file": True}, depth=depth, seed=ctx.seed, timeout=900)
    nsim = 0
    for tr in getattr(r2, "sim_traces", []):
        if len(tr) < 2:
            continue
        final = tr[-1][1]
        if "hist" not in final:
            continue
        hist = [dict(a) for a in final["hist"]]
        states = [norm_state(st) for _lab, st in tr[1:]]
        if len(states) != len(hist):
            continue
        behaviours.append({"hist": hist, "states": states})
        nsim += 1
    ctx.extra["simulated_behaviours"] = nsim
    if nsim == 0:
        from lib.ctx import MachineryFailure
        raise MachineryFailure("no simulation trace could be parsed")
    chunks = [behaviours[i::16] for i in range(16) if behaviours[i::16]]
    for res in ctx.harness_parallel("statevector_replay.py", [{"behaviours": c} for c in chunks], procs=16, timeout=3000):
        ctx.absorb(res)
    ctx.exhaustive = False
    ctx.assumptions += [
        "isolation of individual maneuver objects and of opaque user objects without a copy method is not demanded; aliasing after "
        "as_orbit / as_statevector is not demanded (values and metadata preserved only)",
        "values compared as cartesian EME2000 fingerprints at 1e-9 relative",
    ]
