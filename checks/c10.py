"""C10 - Event detection is sound, complete w.r.t. sampling, ordered and sharp.

Listeners.tla models Speaker.listen/_bisect on a microsecond grid; TLC checks the implementation-shaped bisect against
the contract for every sign pattern; the same patterns are run through the REAL Speaker (analytical and ephemeris
iterators, listener objects re-used between passes) with pattern listeners and the real streams are judged by TLC with
the contract operators (ListenersTrace.tla).  Physical listeners: recorded traces validated by PhysListenersTrace.tla."""
import json
import os
import random

from lib import tlc as tlcmod
from lib.tlc import RawTla


def model_run(ctx, label, samples, nl, maxflips, passes, dump=True):
    consts = {"Samples": list(samples), "NL": nl, "MaxFlips": maxflips, "Passes": passes}
    name, mc, cl = tlcmod.wrap("Listeners", consts)
    cfg = "SPECIFICATION Spec\n" + cl + "INVARIANT ContractOK\nCHECK_DEADLOCK FALSE\n"
    r = ctx.tlc(name, label=label, cfg_text=cfg, extra_files={name + ".tla": mc}, workers=16, dump=dump,
                dump_only=["pat", "k", "pass", "out"], timeout=2400)
    cases = []
    if dump:
        for s in r.dump:
            if s["k"] == len(samples) + 1 and s["pass"] == passes:
                pat = s["pat"]
                pats = [pat[i] for i in sorted(pat)] if isinstance(pat, dict) else list(pat)
                cases.append({"samples": list(samples), "passes": passes,
                              "pat": [{"init": p["init"], "flips": sorted(p["flips"])} for p in pats],
                              "out": [list(x) for x in s["out"]]})
    return cases


def trace_cfg(samples, nl):
    name, mc, cl = tlcmod.wrap("ListenersTrace", {"Samples": list(samples), "NL": nl, "MaxFlips": 0, "Passes": 1},
                               name="MCListenersTrace")
    cfg = "INIT TInit\nNEXT TNext\n" + cl + "INVARIANT Report\nCHECK_DEADLOCK FALSE\n"
    return name, mc, cfg


def conformance(ctx, cases, samples, nl, label, modes, cap, rnd):
    if len(cases) > cap:
        cases = rnd.sample(cases, cap)
        ctx.extra.setdefault("sampled", {})[label] = cap
    chunks = [cases[i::16] for i in range(16) if cases[i::16]]
    results = ctx.harness_parallel("listeners_replay.py", [{"cases": c, "modes": modes} for c in chunks], procs=16)
    runs = [r for res in results for r in res["runs"]]
    path = os.path.join(ctx.scratch, f"lis-{label}.json")
    with open(path, "w") as fh:
        json.dump({"runs": [{"pat": r["pat"], "out": r["out"]} for r in runs]}, fh)
    name, mc, cfg = trace_cfg(samples, nl)
    tr = ctx.tlc(name, label=f"trace validation {label}", cfg_text=cfg, extra_files={name + ".tla": mc}, workers=16,
                 env={"TRACE_FILE": path}, timeout=2400)
    failing = {k: sorted(f) for (k, f) in tr.prints}
    ctx.traces += len(runs)
    ctx.evaluations += len(runs)
    ctx.clause(f"{label}: real output streams satisfy the contract (ordered, between, sharp, label, sound/complete, fresh)",
               len(runs), len(failing))
    same = sum(1 for r in runs if r["model_out"] == r["out"])
    ctx.extra.setdefault("impl_model_vs_real", {})[label] = {"equal": same, "runs": len(runs)}
    for k, f in sorted(failing.items())[:40]:
        r = runs[k - 1]
        for clause in f:
            key = f"listeners/{clause}" + ("-reuse" if r["pass"] > 1 else "")
            ctx.violation(key, f"{r['mode']} pass {r['pass']}: stream {r['out']} for patterns {r['pat']} fails {clause}",
                          {"mode": r["mode"], "pass": r["pass"], "samples": r["samples"], "pat": r["pat"], "real_out": r["out"],
                           "how": "harness/listeners_replay.py: PatternListener objects on a Kepler orbit / its ephemeris, "
                                  "iter(dates|start,stop,step in microseconds, listeners=...)"})
    for r in runs[:: max(1, len(runs) // 300)]:
        ctx.nontrivial.add(json.dumps([label, r["mode"], r["pat"]]))
    if runs:
        ctx.samples.append({"mode": runs[0]["mode"], "patterns": runs[len(runs) // 2]["pat"], "real_stream": runs[len(runs) // 2]["out"]})


def run(ctx):
    thorough = ctx.tier == "thorough"
    rnd = random.Random(ctx.seed)
    ctx.rule = ("TLC enumerates every sign pattern (initial sign x <= MaxFlips flip ticks) for 1-2 listeners over 3-4 samples "
                "and 2 passes re-using the listener objects; each pattern set is run through the real Speaker in 4 iterator "
                "modes; distinct/non-trivial = distinct (mode, pattern set) with at least one flip; physical listeners: one trace "
                "per (orbit, propagator, step, listener set)")
    modes = ["analytical-dates", "analytical-range", "ephem-dates", "ephem-range"]
    # one listener, up to 3 flips, uneven and even sampling, listener re-used in a second pass
    s1 = (0, 16, 32, 48) if thorough else (0, 8, 16, 24)
    cases = model_run(ctx, f"1 listener <=3 flips samples {s1}", s1, 1, 3, 2)
    conformance(ctx, cases, s1, 1, "one-listener", modes, 6000 if thorough else 700, rnd)
    s1b = (0, 5, 16, 21)
    cases = model_run(ctx, f"1 listener <=2 flips uneven samples {s1b}", s1b, 1, 2, 2)
    conformance(ctx, cases, s1b, 1, "uneven-sampling", ["analytical-dates", "ephem-dates"], 3000 if thorough else 300, rnd)
    # two listeners: ordering of simultaneous events
    s2 = (0, 7, 14) if not thorough else (0, 9, 18)
    cases = model_run(ctx, f"2 listeners <=2 flips samples {s2}", s2, 2, 2, 1)
    conformance(ctx, cases, s2, 2, "two-listeners", modes, 8000 if thorough else 700, rnd)
    from checks import c10_physical
    c10_physical.run(ctx)
    # ---- station visibility streams (last clause of the property) ---------------------------------------------------------------
    from checks import c10_visibility
    c10_visibility.run(ctx)
    # ---- the repository's own test-suite: every iteration with listeners, trace-validated (SuiteTrace.tla) ------------------
    from checks import suite
    suite.run(ctx, "C10", "streams")
    ctx.exhaustive = False
    ctx.assumptions += [
        "pattern listeners are harness-defined Listener subclasses; the real Speaker.listen/_bisect/clear_listeners and the real "
        "iterators are the code under test",
        "the model is exhaustive over patterns; the replay is a seeded sample of them in the quick tier",
        "a watched quantity exactly zero at a sample is outside the property (np.sign = 0)",
    ]
