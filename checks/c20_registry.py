"""Registry part of C20: Registry.tla behaviours replayed on the real library + built-in graphs validated."""
import json
import os

from lib.ctx import REPO


def registry_cfg(maxcreate, maxobs, maxuser=0, jpl=False):
    return ("SPECIFICATION Spec\nCONSTANTS\n MaxCreate = %d\n MaxObserve = %d\n MaxUser = %d\n WithJpl = %s\n"
            "INVARIANT OrientForest\nINVARIANT CentreForest\nINVARIANT AllConnected\nINVARIANT AllRouted\n"
            "PROPERTY ChainsStable\nCHECK_DEADLOCK FALSE\n" % (maxcreate, maxobs, maxuser, "TRUE" if jpl else "FALSE"))


def trace_cfg(n):
    return ("INIT TInit\nNEXT TNext\nCONSTANTS\n N = %d\n MaxLinks = 0\n ForestOnly = FALSE\n SinglePass = FALSE\n"
            "INVARIANT Report\nCHECK_DEADLOCK FALSE\n" % n)


def run(ctx):
    thorough = ctx.tier == "thorough"
    # (creations, observations, user-defined frames, planetary kernel): several bounded configurations instead of one big one
    configs = [(2, 1, 0, True), (1, 1, 1, False)] if not thorough else [(3, 1, 0, False), (2, 1, 0, True), (2, 1, 1, False), (1, 1, 1, True)]
    dumps = []
    for (mc, mo, mu, jpl) in configs:
        r = ctx.tlc("Registry", label=f"registry MaxCreate={mc} MaxObserve={mo} MaxUser={mu} WithJpl={jpl}", workers=16, dump=True,
                    dump_only=["acts"], cfg_text=registry_cfg(mc, mo, mu, jpl), timeout=5000)
        dumps += r.dump
    behaviours = []
    allacts = [list(st["acts"]) for st in dumps]
    prefixes = set()
    for a in allacts:
        for j in range(len(a)):
            prefixes.add(json.dumps(a[:j], sort_keys=True))
    for a in allacts:
        if a and json.dumps(a, sort_keys=True) not in prefixes:
            behaviours.append(a)
    ctx.extra["registry_behaviours_in_model"] = len(behaviours)
    cap = 6000 if thorough else 480
    if len(behaviours) > cap:
        import random
        rnd = random.Random(ctx.seed)
        behaviours = rnd.sample(behaviours, cap)
        ctx.extra["registry_behaviours_sampled"] = cap
    chunks = [behaviours[i::16] for i in range(16) if behaviours[i::16]]
    results = ctx.harness_parallel("registry_replay.py", [{"behaviours": c, "repo": REPO} for c in chunks], procs=16)
    nb = sum(x["behaviours"] for x in results)
    nconv = sum(x["conversions"] for x in results)
    nviol = 0
    for x in results:
        for v in x["violations"]:
            ctx.violation(v["key"], v["what"], v["data"])
            nviol += 1
    ctx.traces += nb
    ctx.evaluations += nconv
    ctx.clause("registry: conversions between pre-existing frames unchanged by creations; new frames convertible; "
               "round trips identity", nconv, nviol)
    for b in behaviours[:: max(1, len(behaviours) // 400)]:
        ctx.nontrivial.add("reg" + json.dumps(b, sort_keys=True))
    ctx.extra["registry_behaviours"] = nb
    if behaviours:
        ctx.samples.append({"kind": "registry behaviour replayed in a forked process", "acts": behaviours[len(behaviours) // 3]})
    # ---- built-in graphs (B2): projected from the live library, judged by the contract in TLC -----
    g = ctx.harness("graphs_project.py", {"jpl": True, "repo": REPO})
    for name, proj in g.items():
        if proj["routes_to_unknown"]:
            ctx.violation("graphs/route-to-unknown", f"graph {name} routes to unknown {proj['routes_to_unknown']}", proj)
        n = len(proj["names"])
        path = os.path.join(ctx.scratch, f"graph-{name}.json")
        with open(path, "w") as fh:
            json.dump({"states": [{"nb": proj["nb"], "rt": proj["rt"]}], "steps": []}, fh)
        tr = ctx.tlc("RoutingTrace", label=f"built-in graph {name} (N={n})", cfg_text=trace_cfg(n), workers=2,
                     env={"TRACE_FILE": path})
        bad = [sorted(f) for (_k, f) in tr.prints]
        ctx.traces += 1
        ctx.clause(f"built-in graph {name} is routed per contract", 1, 1 if bad else 0)
        ctx.nontrivial.add("graph" + name)
        # all built-in graphs are trees: a non-forest is reported as information, tree-unique is the contract
        if bad:
            ctx.violation(f"graphs/{name}", f"graph {name} ({proj['names']}) fails {bad}", proj)
    ctx.extra["builtin_graph_sizes"] = {k: len(v.get("names", [])) for k, v in g.items()}
