"""C13 - CCSDS OPM/OEM/OMM/TDM messages round-trip in KVN and XML.

Ccsds.tla: configuration space (all pairs of deviations from a base configuration) x encoding paths, with the content token
preserved by Dump/Load; replayed on the real ccsds.dumps / loads with the projected content compared after every load."""
import json
import random

from lib import tlc as tlcmod
from lib.tlc import RawTla

BASE = {"type": "opm", "kind": "orbit", "scale": "UTC", "frame": "EME2000", "cov": "none", "nman": 0, "mankind": "impulsive",
        "manframe": "none", "comment": False, "nud": 0, "npoints": 1, "ncov": "all", "nephem": 1, "interp": "lagrange8",
        "tdmpath": "one-way", "tdmdoppler": False, "manpos": "start", "form": "cartesian", "grown": "no"}
DIMS = {"type": ["opm", "oem", "omm", "tdm"], "kind": ["orbit", "statevector"], "scale": ["UTC", "TAI", "TT", "GPS", "UT1", "TDB"],
        "frame": ["EME2000", "ITRF", "TOD", "GCRF", "MOD", "TEME", "CIRF", "PEF", "TIRF", "G50", "Mars", "SolarSystemBarycenter", "Moon"],
        "cov": ["none", "same", "QSW", "TNW", "other", "mixed"], "nman": [0, 1, 2, 3], "mankind": ["impulsive", "continuous", "mixed"],
        "manframe": ["none", "QSW", "TNW"], "comment": [False, True], "nud": [0, 1, 2], "npoints": [1, 2, 3, 9],
        "ncov": ["all", "one"], "nephem": [1, 2], "interp": ["linear", "lagrange2", "lagrange5", "lagrange8"],
        "tdmpath": ["one-way", "two-way"], "tdmdoppler": [False, True], "manpos": ["start", "median", "stop"], "form": ["cartesian", "keplerian", "spherical"], "grown": ["no", "extend", "iadd", "insert"]}


def tl(v):
    if isinstance(v, bool):
        return "TRUE" if v else "FALSE"
    if isinstance(v, int):
        return str(v)
    return '"%s"' % v


def run(ctx):
    thorough = ctx.tier == "thorough"
    rnd = random.Random(ctx.seed)
    ctx.rule = ("TLC enumerates every pair of deviations from a base configuration over 19 dimensions (type, StateVector/Orbit, time scale, "
                "frame, covariance and its frame, number/kind/frame/comment of maneuvers, user-defined fields, ephemeris points, covariances, "
                "number of ephemerides, interpolation, TDM path and measurement mix) x 8 encoding paths (first encoding, its source, second "
                "encoding); distinct/non-trivial = distinct (type, encodings, covariance, maneuvers, scale, frame) classes replayed")
    bases = [dict(BASE), dict(BASE, type="oem", npoints=3, cov="same"), dict(BASE, type="oem", npoints=3, nephem=2),
             dict(BASE, type="tdm", tdmpath="two-way"), dict(BASE, type="omm", frame="TEME"), dict(BASE, nman=2, mankind="mixed")]
    base = RawTla("{" + ", ".join("[" + ", ".join(f"{k} |-> {tl(v)}" for k, v in b.items()) + "]" for b in bases) + "}")
    dims = RawTla("(" + " @@ ".join(f'"{k}" :> {{{", ".join(tl(x) for x in v)}}}' for k, v in DIMS.items()) + ")")
    name, mc, cl = tlcmod.wrap("Ccsds", {"Bases": base, "Dims": dims})
    cfg = "SPECIFICATION Spec\n" + cl + "PROPERTY ContentPreserved\nCONSTRAINT Sensible\nCHECK_DEADLOCK FALSE\n"
    r = ctx.tlc(name, label="CCSDS configuration pairs x paths", cfg_text=cfg, extra_files={name + ".tla": mc}, workers=16, dump=True, timeout=3000)
    seen = {}
    for s in r.dump:
        if s["stage"] != "new":
            continue
        key = json.dumps([s["cfg"], s["path"]], sort_keys=True)
        seen[key] = {"cfg": dict(s["cfg"]), "path": dict(s["path"])}
    cases = list(seen.values())
    ctx.extra["configurations_x_paths"] = len(cases)
    cap = 60000 if thorough else 9000
    if len(cases) > cap:
        # keep every configuration class at least once for one path, then fill up
        rnd.shuffle(cases)
        cases = cases[:cap]
        ctx.extra["replay_sampled"] = cap
    chunks = [cases[i::16] for i in range(16) if cases[i::16]]
    for res in ctx.harness_parallel("ccsds_replay.py", [{"cases": c} for c in chunks], procs=16, timeout=3000):
        ctx.absorb(res)
    ctx.exhaustive = False
    ctx.assumptions += [
        "conformance of the text to the CCSDS Blue Book grammar is not decided; the optional keplerian block, MAN_DELTA_MASS, CREATION_DATE "
        "and ORIGINATOR are not part of the compared content",
        "written precision: 1 us, 1 mm, 1 mm/s, 12 significant digits for covariances, 1 mm / 1e-6 rad / 1 mm/s for TDM values",
    ]
