"""C08 - Propagation and iteration contract; independence from call history.

Propagation.tla: TLC enumerates call histories (propagate / iter(start,stop,step) / iter(dates)) on two orbits sharing one
propagator instance, computes the contract's expected date sequences (RangeOps!Iter, validated against the real DateRange
by C03) and the implementation-shaped KeplerNum / Ephem date models; every history is replayed on the real objects for each
propagator kind."""
import json
import random

from lib import tlc as tlcmod
from lib.tlc import RawTla

KINDS = {
    # kind: (tick seconds, uses ephemeris expectations)
    "kepler": 10.0, "j2": 10.0, "none": 10.0, "sgp4": 10.0, "cw": 10.0, "keplernum": 5.0, "ephem": 15.0,
}


def seqs(xs):
    return RawTla("{" + ", ".join("<<" + ", ".join(map(str, x)) + ">>" for x in xs) + "}")


def explore(ctx, label, consts, maxcalls):
    consts = dict(consts)
    consts["MaxCalls"] = maxcalls
    name, mc, cl = tlcmod.wrap("Propagation", consts)
    cfg = "SPECIFICATION Spec\n" + cl + "INVARIANT ContractShape\nCHECK_DEADLOCK FALSE\n"
    r = ctx.tlc(name, label=label, cfg_text=cfg, extra_files={name + ".tla": mc}, workers=16, dump=True, timeout=2400)
    hs = []
    for s in r.dump:
        if not s["calls"]:
            continue
        calls = [{"op": c["op"], "o": c["o"], "a": c["a"], "b": c["b"], "s": c["s"], "dates": list(c["dates"])} for c in s["calls"]]
        hs.append({"calls": calls, "expected": list(s["expected"]), "kn": list(s["kn"]), "eph": list(s["eph"]),
                   "expected_eph": list(s["expeph"])})
    return hs


def replay(ctx, hs, consts, kinds, procs=16, listeners_every=3):
    payloads = []
    for kind in kinds:
        sel = hs
        per = max(1, len(sel) // (procs // 2 or 1))
        for i in range(0, len(sel), per):
            chunk = []
            for j, h in enumerate(sel[i:i + per]):
                h2 = dict(h)
                h2["listeners"] = (j % listeners_every == 0)
                chunk.append(h2)
            payloads.append({"kind": kind, "tick_s": KINDS[kind], "H": consts["H"], "ELo": consts["ELo"], "EHi": consts["EHi"],
                             "EN": consts["EN"], "EExtra": sorted(consts.get("EExtra", ())), "Order": consts["Order"], "histories": chunk})
    for res in ctx.harness_parallel("propagation_replay.py", payloads, procs=procs, timeout=3000):
        ctx.absorb(res)


def run(ctx):
    thorough = ctx.tier == "thorough"
    rnd = random.Random(ctx.seed)
    ctx.rule = ("TLC enumerates histories of propagate/iter calls (start before/at/after epoch, forward and backward spans, "
                "steps dividing and not dividing the span, spans shorter than the interpolation order, explicit date lists) on two "
                "orbits sharing one propagator instance; each history is replayed for each propagator kind. Distinct/non-trivial = "
                "distinct (kind, operation, range class, history length, listeners shared) classes replayed")
    base = {"H": 4, "ELo": -40, "EHi": 80, "EN": 4, "EExtra": set(), "Tolerant": False, "Order": 8, "Orbits": {1, 2}}
    # ---- (A) single calls over a wide grid -------------------------------------------------------------
    wide = dict(base)
    wide.update({"Starts": {-9, -4, 0, 3, 8}, "Spans": {-13, -8, 0, 5, 12, 30, 37},
                 "StepsOut": {2, 3, 4, 5} if not thorough else {1, 2, 3, 4, 5, 7},
                 "PropTimes": {-37, -4, 0, 5, 26}, "DateLists": seqs([(0, 4, 8), (3, 1, 2), (-8, -4, 12, 13), (5,)])})
    if thorough:
        wide["Starts"] = {-13, -9, -4, -1, 0, 3, 4, 8, 17}
        wide["Spans"] = {-37, -13, -8, -1, 0, 1, 5, 12, 27, 28, 30, 37, 60}
    hs = explore(ctx, "single calls, wide grid", wide, 1)
    hs1 = [h for h in hs if h["calls"][0]["o"] == 1]
    replay(ctx, hs1, wide, ["kepler", "j2", "none", "sgp4", "cw", "ephem"])
    kn = hs1 if thorough else rnd.sample(hs1, min(len(hs1), 90)) + [h for h in hs1 if h["calls"][0]["op"] != "iter"]
    replay(ctx, kn, wide, ["keplernum"])
    # ---- (A2) defaults (step / start / stop left out) and a table that is not uniformly sampled ---------------------------------
    nonu = dict(base)
    nonu.update({"ELo": -12, "EHi": 24, "EExtra": {-11, -10, 13}, "Tolerant": True, "Starts": {-30, -14, -12, -9, 0, 3, 26}, "Spans": {-8, 5, 12, 21, 24, 36, 50}, "StepsOut": {0, 3},
                 "PropTimes": {-11, 5}, "DateLists": seqs([(0, 4, 13)])})
    hs = explore(ctx, "defaults and a non-uniform table", nonu, 1)
    hsn = [dict(h, defaults=True) for h in hs if h["calls"][0]["o"] == 1]
    replay(ctx, hsn, nonu, ["ephem"])
    strict = [h for h in hsn if h["calls"][0]["op"] != "iter-tolerant"]
    replay(ctx, [h for h in strict if (h["calls"][0]["s"] == 0 and -12 <= h["calls"][0]["a"] <= 3) or h["calls"][0]["op"] != "iter"], nonu, ["keplernum"])
    replay(ctx, [h for h in strict if h["calls"][0]["s"] != 0 and h["calls"][0]["a"] == 0], nonu, ["kepler", "sgp4"])
    replay(ctx, [h for h in strict if h["calls"][0]["op"] == "propagate"], nonu, ["kepler", "j2", "sgp4", "cw"])      # propagate(Date) / propagate(timedelta)
    # ---- (B) histories: call sequences on shared objects --------------------------------------------------
    small = dict(base)
    small.update({"Starts": {-4, 0, 3}, "Spans": {-8, 5, 12}, "StepsOut": {3, 4}, "PropTimes": {-4, 5},
                  "DateLists": seqs([(0, 4, 8)])})
    hs = explore(ctx, "histories of 2 calls", small, 2)
    hs2 = [h for h in hs if len(h["calls"]) == 2]
    replay(ctx, hs2, small, ["kepler", "j2", "sgp4", "cw", "ephem", "none"])
    replay(ctx, rnd.sample(hs2, min(len(hs2), 600 if thorough else 60)), small, ["keplernum"])
    if thorough:
        tiny = dict(base)
        tiny.update({"Starts": {-4, 3}, "Spans": {-8, 12}, "StepsOut": {3}, "PropTimes": {5}, "DateLists": seqs([(0, 4, 8)])})
        hs = explore(ctx, "histories of 3 calls", tiny, 3)
        hs3 = [h for h in hs if len(h["calls"]) == 3]
        replay(ctx, hs3, tiny, ["kepler", "sgp4", "cw", "ephem"])
        replay(ctx, rnd.sample(hs3, min(len(hs3), 300)), tiny, ["keplernum"])
    # ---- (C) live generators of two independent orbits, interleaved (Interleave.tla) -----------------------------------------
    iconst = {"Ranges": seqs([(0, 6, 2), (3, -3, 3)] if not thorough else [(0, 6, 2), (3, -3, 3), (-2, 5, 4)]),
              "PropTimes": {1} if not thorough else {1, -4}, "MaxLen": 5 if not thorough else 6}
    n3, mc3, cl3 = tlcmod.wrap("Interleave", iconst)
    cfg3 = "SPECIFICATION Spec\n" + cl3 + "INVARIANT Consistent\nCHECK_DEADLOCK FALSE\n"
    r3 = ctx.tlc(n3, label="interleavings of two orbits' generators", cfg_text=cfg3, extra_files={n3 + ".tla": mc3}, workers=16, dump=True,
                 dump_only=["hist"], timeout=2400)
    ih = [[list(a) for a in st["hist"]] for st in r3.dump if len(st["hist"]) == iconst["MaxLen"]]

    def interleaved(h):
        opened = set()
        others_used = {1: False, 2: False}
        for a in h:
            if a[0] == "open":
                opened.add(a[1])
                others_used[a[1]] = False
            elif a[0] == "next" and others_used[a[1]]:
                return True
            if a[0] in ("next", "prop", "open"):
                for o in opened:
                    if o != a[1]:
                        others_used[o] = True
        return False
    ih = [h for h in ih if interleaved(h)]
    cap = 1200 if not thorough else 8000
    if len(ih) > cap:
        ih = rnd.sample(ih, cap)
        ctx.extra.setdefault("sampled", {})["interleavings"] = cap
    kinds_i = ["kepler-name", "j2-name", "sgp4", "none-name", "kepler-own", "j2-own"]
    payloads = [{"kinds": [k], "hists": ih[i::3]} for k in kinds_i for i in range(3) if ih[i::3]]
    for res in ctx.harness_parallel("interleave_replay.py", payloads, procs=16, timeout=3000):
        ctx.absorb(res)
    # ---- (D) thorough tier: whole user sessions (Session.tla), the clauses that are C08's: every object obtained by any sequence of
    #      calls is the state of its own trajectory at its own tick (propagation is a pure function of orbit and date)
    if thorough:
        import importlib.util
        import os as _os
        spec_ = importlib.util.spec_from_file_location("extras_session", _os.path.join(_os.path.dirname(_os.path.dirname(_os.path.abspath(__file__))), "extras", "session.py"))
        ses = importlib.util.module_from_spec(spec_)
        spec_.loader.exec_module(ses)
        tot = ses.collect(ctx, 600, verbose=False)
        mine = ("session/state", "session/ephem-nodes", "session/raises[propagate]", "session/raises[tabulate]", "session/raises[interpolate]", "session/heap")
        for k, v in tot["clauses"].items():
            if "trajectory" in k or "nodes of its range" in k:
                ctx.clause("sessions (Session.tla): " + k, v["checked"], v["failed"])
        for v in tot["violations"]:
            if v["key"] in mine:
                ctx.violation(v["key"], v["what"], v["data"])
        ctx.extra["session"] = {"behaviours": tot["behaviours"], "calls": tot["evaluations"],
                                "other_clauses_reported_by_extras_only": sorted({v["key"] for v in tot["violations"] if v["key"] not in mine})}
        ctx.traces += tot["behaviours"]
        ctx.evaluations += tot["evaluations"]
    # ---- the repository's own test-suite, trace-validated (SuiteTrace.tla / RoutingTrace.tla) -----------------------------
    from checks import suite
    suite.run(ctx, "C08", "iter")
    ctx.exhaustive = False
    ctx.assumptions += [
        "states are compared with a direct propagation from a fresh copy: 1e-9 relative for analytical propagators, "
        "2 mm + |v| x 2 us / 0.05 mm/s for the numerical propagator (20 s RK4 steps; float-MJD resolution of the re-sampling), 1e-6 m for ephemerides",
        "KeplerNum replays are a seeded sample of the TLC histories in the quick tier (each costs tens of RK4 steps)",
        "interleaving of partially consumed generators is not demanded (sequences of completed calls only)",
    ]
