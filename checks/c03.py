"""C03 - Time scales: one instant, exact offsets, lawful date arithmetic.

Dates.tla (instant + label state machine over the IERS tables read independently), DateRange.tla (exact
evaluator for iteration/len/membership) and Eop.tla (registry + missing-data policy machine) are explored
exhaustively by TLC; every reachable state / behaviour is replayed on the real Date, DateRange and EopDb."""
import json
import random

from lib import eopgen
from lib import tlc as tlcmod
from lib.tlc import RawTla
from lib.ctx import REPO

DELTAS = [(0, 1, 0), (1, 0, 0), (-1, 86399, 9999990), (0, 43200, 5000000), (30, 0, 0), (-1, 86340, 0)]
SODS = [(43200, 0), (3600, 1234560), (80000, 9999990), (61234, 5000000)]
EDGE = [(0, 0), (0, 10), (18, 9999990), (19, 0), (32, 1839990), (32, 1840000), (36, 0), (86399, 9999990),
        (86363, 0), (86367, 8160000), (86367, 8160010), (86381, 0), (86380, 9999990)]


def tup(xs):
    return RawTla("{" + ", ".join("<<" + ", ".join(map(str, x)) + ">>" for x in xs) + "}")


def pick_days(steps, ut1, n, rnd, nleaps):
    lo, hi = min(ut1) + 40, max(ut1) - 80   # keep +-31 days inside the table, stay in observed (not predicted) data
    days = set()
    inside = [mjd for mjd, _v in steps if lo < mjd < hi]
    for mjd in (inside if nleaps is None else rnd.sample(inside, nleaps)):
        days.update([mjd - 1, mjd, mjd + 1, mjd - 2])   # both sides of a leap second
    days.update([lo, hi, 51544, 57512])
    pool = list(range(lo, hi))
    while len(days) < n:
        days.add(rnd.choice(pool))
    return sorted(days)


def run_dates(ctx, ndays, maxsteps, label, nleaps):
    rnd = random.Random(ctx.seed)
    _m, steps, ut1 = eopgen.eop_module(REPO, [])
    days = pick_days(steps, ut1, ndays, rnd, nleaps)
    ddays = sorted({d[0] for d in DELTAS} | {0})
    reach = set()
    for d in days:
        for a in ddays + [x + 1 for x in ddays] + [x - 1 for x in ddays]:
            for b in ddays + [x + 1 for x in ddays] + [x - 1 for x in ddays]:
                for k in (-2, -1, 0, 1, 2):
                    reach.add(d + a + b + k)
    mod, steps, ut1 = eopgen.eop_module(REPO, sorted(reach))
    name, mc, cl = tlcmod.wrap("Dates", {"Days": set(days), "Sods": tup(SODS), "EdgeSods": tup(EDGE),
                                         "Deltas": tup(DELTAS), "MaxSteps": maxsteps})
    cfg = ("SPECIFICATION Spec\n" + cl + "CONSTRAINT InQuantifier\nINVARIANT RdInverse\nINVARIANT OffsetValues\n"
           "PROPERTY UniformArithmetic\nPROPERTY UtcArithmetic\nPROPERTY RelabelKeepsInstant\nCHECK_DEADLOCK FALSE\n")
    r = ctx.tlc(name, label=label, cfg_text=cfg, extra_files={"EopData.tla": mod, name + ".tla": mc}, workers=16,
                dump=True, timeout=2400)
    vectors = [{"lab0": s["lab0"], "rd0": list(s["rd0"]), "hist": [[a[0], a[1] if a[0] == "scale" else list(a[1])] for a in s["hist"]],
                "inst": list(s["inst"]), "rd": list(s["rd"]), "lab": s["lab"]} for s in r.dump]
    chunks = [vectors[i::16] for i in range(16) if vectors[i::16]]
    for res in ctx.harness_parallel("dates_replay.py", [{"repo": REPO, "vectors": c} for c in chunks], procs=16):
        ctx.absorb(res)
    ctx.extra.setdefault("dates", {})[label] = {"days": len(days), "vectors": len(vectors),
                                                "leap_days_bracketed": len([s for s in steps if min(days) < s[0] < max(days)])}


def run_table(ctx, ndays):
    """Every (sampled / all) day of the IERS tables: UTC -> UT1 and UTC -> TAI at noon."""
    rnd = random.Random(ctx.seed + 1)
    _m, steps, ut1 = eopgen.eop_module(REPO, [])
    alld = sorted(d for d in ut1 if min(ut1) + 2 < d < max(ut1) - 2)
    days = alld if ndays is None else sorted(rnd.sample(alld, ndays))
    reach = sorted({d + k for d in days for k in (-1, 0, 1)})
    mod, steps, ut1 = eopgen.eop_module(REPO, reach)
    name, mc, cl = tlcmod.wrap("Dates", {"Days": set(days), "Sods": tup([(43200, 0)]), "EdgeSods": tup([]),
                                         "Deltas": tup([]), "MaxSteps": 1}, name="MCDatesTable")
    mc = mc.replace("MC_EdgeSods == {}", "MC_EdgeSods == {}").replace("MC_Deltas == {}", "MC_Deltas == {}")
    cfg = ("SPECIFICATION Spec\n" + cl + "CONSTRAINT InQuantifier\nCONSTRAINT TableOnly\nINVARIANT RdInverse\nCHECK_DEADLOCK FALSE\n")
    mc = mc.replace("====", 'TableOnly == lab0 = "UTC" /\\ lab \\in {"UTC", "UT1", "TAI"}\n====')
    r = ctx.tlc(name, label=f"table days={len(days)}", cfg_text=cfg, extra_files={"EopData.tla": mod, name + ".tla": mc},
                workers=16, dump=True, timeout=2400)
    vectors = [{"lab0": s["lab0"], "rd0": list(s["rd0"]), "hist": [[a[0], a[1]] for a in s["hist"]],
                "inst": list(s["inst"]), "rd": list(s["rd"]), "lab": s["lab"]} for s in r.dump]
    chunks = [vectors[i::16] for i in range(16) if vectors[i::16]]
    for res in ctx.harness_parallel("dates_replay.py", [{"repo": REPO, "vectors": c} for c in chunks], procs=16):
        ctx.absorb(res)
    ctx.extra.setdefault("dates", {})["table"] = {"days": len(days), "vectors": len(vectors)}


def run_ranges(ctx, lo, hi, steps, probe):
    name, mc, cl = tlcmod.wrap("DateRange", {"Lo": lo, "Hi": hi, "Steps": set(steps), "Probe": probe})
    cfg = "INIT Init\nNEXT Next\n" + cl + "INVARIANT IterInMembers\nINVARIANT LenIsFormula\nINVARIANT FirstLast\nCHECK_DEADLOCK FALSE\n"
    r = ctx.tlc(name, label=f"DateRange {lo}..{hi} steps {sorted(steps)}", cfg_text=cfg, extra_files={name + ".tla": mc},
                workers=8, dump=True)
    ranges = [{"start": s["start"], "stop": s["stop"], "step": s["step"], "incl": s["incl"], "seq": list(s["seq"]),
               "len": s["len"], "members": sorted(s["members"])} for s in r.dump]
    invalid = []
    for a in (lo, 0, hi):
        for b in (lo, 0, hi):
            for st in list(steps) + [0]:
                ok = st != 0 and ((1 if b - a >= 0 else -1) == (1 if st >= 0 else -1))
                if not ok:
                    invalid.append({"start": a, "stop": b, "step": st, "incl": False})
    chunks = [ranges[i::8] for i in range(8) if ranges[i::8]]
    payloads = [{"ranges": c, "invalid": invalid if i == 0 else [], "probe": probe} for i, c in enumerate(chunks)]
    for res in ctx.harness_parallel("daterange_replay.py", payloads, procs=8):
        ctx.absorb(res)
    ctx.extra["dateranges"] = len(ranges)


RL_VARS = [("a", "Int"), ("b", "Int"), ("x", "Int"), ("n", "Int"), ("done", "Bool")]


def run_range_loop(ctx, steps):
    """RangeLoop.tla: the __iter__ loop yields exactly __len__'s closed form and nothing beyond stop - for UNBOUNDED start / stop by
    an inductive invariant discharged by Apalache (one run per step and inclusive flag), and on a bounded grid by TLC (same text)."""
    from concurrent.futures import ThreadPoolExecutor
    from lib import apalache
    jobs = []
    for s in steps:
        for inc in (True, False):
            nm = f"MCRangeLoop_{'m' if s < 0 else 'p'}{abs(s)}_{'i' if inc else 'x'}"
            text = apalache.instance_module(nm, "RangeLoop", RL_VARS, {"S": s, "Inc": "TRUE" if inc else "FALSE", "Bound": 0})
            for ob, (init, inv, length) in {"initiation": ("Init", "IndInv", 0), "consecution": ("IndInit", "IndInv", 1), "sufficiency": ("IndInit", "Safe", 0)}.items():
                jobs.append((s, inc, ob, nm, text, init, inv, length))

    def one(j):
        s, inc, ob, nm, text, init, inv, length = j
        return j, apalache.check(nm, text, init, inv, length, extra_modules=["RangeLoop"])
    bad = 0
    secs = 0.0
    with ThreadPoolExecutor(max_workers=6) as ex:
        for j, (holds, t, tail) in ex.map(one, jobs):
            secs += t
            if not holds:
                bad += 1
                ctx.violation("range/loop-vs-len", f"RangeLoop.tla: obligation {j[2]} fails for step {j[0]} inclusive={j[1]} (Apalache): the iteration loop and the "
                                                   f"closed form of the length disagree for some start / stop", {"step": j[0], "inclusive": j[1], "obligation": j[2], "apalache": tail})
    ctx.clause("spec level, unbounded start / stop (Apalache, inductive): the iteration loop yields exactly the closed-form length and nothing beyond stop",
               len(jobs), bad)
    ctx.extra["apalache"] = {"obligations": len(jobs), "steps": sorted(steps), "solver_seconds": round(secs, 1)}
    # the deductive part, for EVERY integer step at once (RangeLoopProof.tla, TLA+ proof system)
    from lib import tlaps
    proved, nob, secs, tail = tlaps.prove("RangeLoopProof", extra_modules=["RangeLoop"])
    ctx.clause("spec level, every integer step / start / stop (TLAPS): the loop invariant is inductive and no yielded date is beyond stop", nob, 0 if proved else 1)
    if not proved:
        ctx.violation("range/loop-proof", "RangeLoopProof.tla: the proof system no longer proves the inductive invariant of the iteration loop", {"tlapm": tail})
    ctx.extra["tlaps"] = {"obligations": nob, "seconds": round(secs, 1)}
    # the same module on a bounded grid, by TLC (with termination)
    for s in sorted(steps)[:2] + sorted(steps)[-2:]:
        for inc in (True, False):
            name, mc, cl = tlcmod.wrap("RangeLoop", {"S": s, "Inc": inc, "Bound": 12}, name=f"MCRangeLoopT")
            cfg = "INIT BInit\nNEXT Next\n" + cl + "INVARIANT IndInv\nINVARIANT Safe\nCHECK_DEADLOCK FALSE\n"
            ctx.tlc(name, label=f"RangeLoop bounded S={s} Inc={inc}", cfg_text=cfg, extra_files={name + ".tla": mc}, workers=4, timeout=600)


def run_eop(ctx, maxsteps):
    name, mc, cl = tlcmod.wrap("Eop", {"Names": {"a", "b"}, "MaxSteps": maxsteps})
    cfg = "SPECIFICATION Spec\n" + cl + "INVARIANT ValuesOnlyWhenCovered\nPROPERTY FailedIsSticky\nCHECK_DEADLOCK FALSE\n"
    r = ctx.tlc(name, label=f"Eop policy machine MaxSteps={maxsteps}", cfg_text=cfg, extra_files={name + ".tla": mc},
                workers=8, dump=True)
    by = {}
    for s in r.dump:
        by[(s["db0"], tuple(s["hist"]))] = s
    leaves = [k for k in by if len(k[1]) == maxsteps and any(a[0] == "get" for a in k[1])]
    rnd = random.Random(ctx.seed)
    cap = 4000 if ctx.tier == "quick" else 40000
    if len(leaves) > cap:
        leaves = rnd.sample(sorted(leaves), cap)
        ctx.extra["eop_behaviours_sampled"] = cap
    # deep histories of requests on ONE database (covered / uncovered days in every order, policy changes in between)
    deep = maxsteps + 2
    name2, mc2, cl2 = tlcmod.wrap("Eop", {"Names": {"a"}, "MaxSteps": deep}, name="MCEopRequests")
    cfg2 = "SPECIFICATION Spec\n" + cl2 + "INVARIANT ValuesOnlyWhenCovered\nCONSTRAINT RequestsOnly\nCHECK_DEADLOCK FALSE\n"
    r2 = ctx.tlc(name2, label=f"Eop requests on one database, {deep} steps", cfg_text=cfg2, extra_files={name2 + ".tla": mc2}, workers=8, dump=True)
    by2 = {}
    for s in r2.dump:
        h = tuple(s["hist"])
        if h and (h[0][0] != "register" or any(a[0] not in ("get", "policy") for a in h[1:])):
            continue
        by2[(s["db0"], h)] = s
    deep_leaves = [k for k in by2 if len(k[1]) == deep and sum(1 for a in k[1] if a[0] == "get") >= 3]
    if len(deep_leaves) > (1500 if ctx.tier == "quick" else 20000):
        deep_leaves = rnd.sample(sorted(deep_leaves), 1500 if ctx.tier == "quick" else 20000)
    by.update(by2)
    behs = []
    for force_real, (db0, hist) in [(False, k) for k in leaves] + [(True, k) for k in deep_leaves]:
        acts = []
        for k, a in enumerate(hist):
            act = {"op": a[0], "name": a[1], "kind": a[2]}
            if a[0] == "get":
                pre = by[(db0, hist[:k])]
                post = by[(db0, hist[:k + 1])]
                act["expect"] = post["outcome"]
                act["instantiates"] = pre["dbs"][pre["dbname"]] in ("class_ok", "class_bad")
            acts.append(act)
        behs.append({"dbname0": db0, "hist": acts, "real": force_real})
    # values of three covered days, read by the independent reader, for the behaviours replayed on the real table database
    days = [50003, 55000, 57000]
    _m, steps, ut1 = eopgen.eop_module(REPO, days)
    table = {}
    for d in days:
        tu = max(v for (dd, v) in steps if dd <= d)
        table[str(d)] = [ut1[d], tu]
    # the values of the two finals files, read independently: every 9th day (thorough: every day), the first and last 40 tabulated days
    import os
    pole = os.path.join(REPO, "tests", "data", "pole")
    f80 = eopgen.read_finals_full(os.path.join(pole, "finals.all"))
    f00 = eopgen.read_finals_full(os.path.join(pole, "finals2000A.all"))
    common = sorted(d for d in f80 if d in f00 and f80[d]["ut1_utc"] is not None)
    pick = set(common[:40] + common[-40:] + (common if ctx.tier == "thorough" else common[::9]))
    eopvals = {}
    for d in sorted(pick):
        a, b = f80[d], f00[d]
        eopvals[str(d)] = {"x": b["x"], "y": b["y"], "ut1_utc": b["ut1_utc"], "lod": b["lod"], "dpsi": a["d1"], "deps": a["d2"], "dx": b["d1"], "dy": b["d2"]}
    ctx.extra["eop_days_compared"] = len(eopvals)
    keys = sorted(eopvals)
    chunks = [behs[i::8] for i in range(8) if behs[i::8]]
    for res in ctx.harness_parallel("daterange_replay.py", [{"repo": REPO, "eop_behaviours": c, "table": table, "eopvals": {k: eopvals[k] for k in keys[i::8]}}
                                                            for i, c in enumerate(chunks)], procs=8):
        ctx.absorb(res)
    ctx.extra["eop_behaviours"] = len(behs)


def run(ctx):
    thorough = ctx.tier == "thorough"
    ctx.rule = ("TLC enumerates (start day incl. both sides of every leap second, second-of-day incl. every carry boundary, "
                "start scale) x all sequences of <= MaxSteps actions (change_scale to any scale, + timedelta) inside the "
                "property's quantifier; DateRange: every (start, stop, step, inclusive) on the grid; Eop: every action history. "
                "Distinct/non-trivial = distinct (start scale, final scale, action kinds) classes, range shape classes and "
                "(policy outcome, coverage) classes actually replayed on the real classes")
    run_dates(ctx, 140 if thorough else 14, 2, "dates-lattice", None if thorough else 2)
    run_table(ctx, None if thorough else 400)
    if thorough:
        run_ranges(ctx, -12, 12, [-8, -6, -4, -2, 2, 4, 6, 8], 30)
    else:
        run_ranges(ctx, -8, 8, [-6, -4, -2, 2, 4, 6], 20)
    run_range_loop(ctx, [-7, -1, 1, 3] if not thorough else [-86400, -60, -7, -3, -2, -1, 1, 2, 3, 5, 7, 60, 3600, 86400, 1000000])
    run_eop(ctx, 5 if thorough else 4)
    # ---- the repository's own test-suite, trace-validated (SuiteTrace.tla / RoutingTrace.tla) -----------------------------
    from checks import suite
    suite.run(ctx, "C03", "dates")
    ctx.exhaustive = False
    ctx.assumptions += [
        "IERS tables are read from /repo/tests/data/pole by an independent reader (lib/eopgen.py)",
        "instants within 3 minutes of a leap second are excluded (documented: leap seconds unsupported); UT1/TDB clauses "
        "exclude instants within 200 s of a day boundary (UT1-UTC is tabulated per day, no interpolation)",
        "TDB-TT is only bounded (<1.7 ms) and checked for instant preservation, its value is not decided",
    ]
