#!/venv/bin/python
"""Beyond the listed properties: sphere-of-influence propagators (DESIGN.md section 10).

1. TLC checks the contract clauses on the implementation-shaped model SoI.tla and reports which ones it leaves (named deviations).
2. Streams of the REAL SoIAnalytical / SoINumerical are validated against the model's actions (SoITrace.tla).
3. Each deviation is looked for in the real streams (duplicated transition date, point beyond stop, no termination).
Informational: always exits 0 unless the machinery fails; results in /verif/out/extras/soi.json."""
import json
import os
import sys

ROOT = os.path.dirname(os.path.dirname(os.path.abspath(__file__)))
sys.path.insert(0, ROOT)
from lib import tlc  # noqa: E402
from lib.tlc import RawTla  # noqa: E402
from lib.ctx import Ctx, REPO  # noqa: E402

CLAUSES = ["NeverBack", "StrictlyIncreasing", "NotBeyondStop", "InOwnSphere", "LaggingSphere", "Covered"]


def model(numerical, invs=(), props=(), maxout=40):
    consts = {"Horizon": 12, "Stops": {7, 12}, "StepsC": {3, 4}, "StepsA": {1, 3, 4}, "Numerical": numerical, "MaxCross": 2, "MaxOut": maxout,
              "Patterns": RawTla("{}")}
    name, mc, cl = tlc.wrap("SoI", consts, name="MCSoI")
    cfg = ("SPECIFICATION Spec\n" + cl + "".join(f"INVARIANT {i}\n" for i in invs) + "".join(f"PROPERTY {p}\n" for p in props)
           + ("CONSTRAINT Bounded\n" if maxout else "") + "CHECK_DEADLOCK FALSE\n")
    return tlc.run(name, cfg_text=cfg, extra_files={name + ".tla": mc}, workers=8, timeout=900)


def main():
    out = {"model": {}, "traces": {}, "real": {}}
    for num in (False, True):
        kind = "numerical" if num else "analytical"
        out["model"][kind] = {}
        for inv in CLAUSES:
            r = model(num, invs=(inv,))
            ce = r.counterexample[-1][1] if r.counterexample else None
            out["model"][kind][inv] = {"holds": r.ok, "distinct_states": r.distinct,
                                       "counterexample": ce and {k: ce[k] for k in ("inside", "stop", "stepC", "stepA", "out")}}
        r = model(num, props=("Termination",), maxout=0)
        out["model"][kind]["Termination"] = {"holds": r.ok, "distinct_states": r.distinct}
    # ---- real streams -------------------------------------------------------------------------------------------------------
    ctx = Ctx("C08", "quick", 1)          # only used for its scratch directory and harness runner
    scen = {False: [{"numerical": False, "tick_s": 3600, "stepC": 12, "stepA": 12, "stop": 120},
                    {"numerical": False, "tick_s": 3600, "stepC": 12, "stepA": 12, "stop": 120, "start": 24},
                    {"numerical": False, "tick_s": 3600, "stepC": 7, "stepA": 7, "stop": 24, "cap": 30},
                    {"numerical": False, "tick_s": 3600, "stepC": 5, "stepA": 5, "stop": 120, "cap": 60},
                    {"numerical": False, "tick_s": 3600, "stepC": 9, "stepA": 9, "stop": 117}],
            True: [{"numerical": True, "tick_s": 3600, "stepC": 12, "stepA": 1, "stop": 120, "cap": 200},
                   {"numerical": True, "tick_s": 3600, "stepC": 7, "stepA": 2, "stop": 120, "cap": 200},
                   {"numerical": True, "tick_s": 3600, "stepC": 12, "stepA": 5, "stop": 117, "cap": 200}]}
    for num in (False, True):
        kind = "numerical" if num else "analytical"
        res = ctx.harness("soi_replay.py", {"repo": REPO, "scenarios": scen[num]}, timeout=1200)
        path = os.path.join(ctx.scratch, f"soi-{kind}.json")
        with open(path, "w") as fh:
            json.dump(res, fh)
        consts = {"Horizon": 1, "Stops": {1}, "StepsC": {1}, "StepsA": {1}, "Numerical": num, "MaxCross": 0, "MaxOut": 0, "Patterns": RawTla("{}")}
        name, mc, cl = tlc.wrap("SoITrace", consts, name="MCSoITrace")
        cfg = "INIT TInit\nNEXT TNext\n" + cl + "INVARIANT Report\nCHECK_DEADLOCK FALSE\n"
        r = tlc.run(name, cfg_text=cfg, extra_files={name + ".tla": mc}, workers=1, env={"TRACE_FILE": path}, timeout=900)
        best = {}
        for (k, l) in r.prints:
            best[k] = max(best.get(k, 0), l)
        rows = []
        for i, t in enumerate(res["traces"], start=1):
            items = t["items"]
            ticks = [x[0] for x in items]
            rows.append({"scenario": t["scenario"], "status": t["status"], "items": len(items),
                         "accepted_by_model": best.get(i, 0) == len(items) + 1, "matched_prefix": best.get(i, 1) - 1,
                         "duplicated_dates": sorted({a for a, b in zip(ticks, ticks[1:]) if a == b}),
                         "beyond_stop": [x for x in ticks if x > t["stop"]],
                         "no_termination": t["status"] == "cut" and len(set(ticks[-5:])) == 1,
                         "frames_seen": sorted({x[1] for x in items}), "stream_head": items[:14], "stream_tail": items[-6:]})
        out["traces"][kind] = rows
    import shutil
    shutil.rmtree(ctx.scratch, ignore_errors=True)
    os.makedirs(os.path.join(ROOT, "out", "extras"), exist_ok=True)
    with open(os.path.join(ROOT, "out", "extras", "soi.json"), "w") as fh:
        json.dump(out, fh, indent=1)
    for kind, cl in out["model"].items():
        print(f"model {kind}: " + ", ".join(f"{k}={'holds' if v['holds'] else 'VIOLATED'}" for k, v in cl.items()))
    for kind, rows in out["traces"].items():
        for r_ in rows:
            print(f"real {kind} {r_['scenario']}: {r_['items']} items, status {r_['status']}, accepted by the model: {r_['accepted_by_model']}"
                  f" (prefix {r_['matched_prefix']}), duplicated dates {r_['duplicated_dates']}, beyond stop {r_['beyond_stop']}, "
                  f"no termination: {r_['no_termination']}")
    return 0


if __name__ == "__main__":
    sys.exit(main())
