#!/venv/bin/python
"""Config.tla: every history of <= 4 set / get calls on paths of depth <= 3 over 2 keys, replayed on the real Config (informational)."""
import json
import os
import sys

ROOT = os.path.dirname(os.path.dirname(os.path.abspath(__file__)))
sys.path.insert(0, ROOT)
from lib import tlc  # noqa: E402
from lib.ctx import Ctx  # noqa: E402


def main():
    ctx = Ctx("C20", "quick", 1)
    name, mc, cl = tlc.wrap("Config", {"Keys": {"a", "b"}, "Leaves": {"v1", "v2"}, "Depth": 3, "MaxLen": 3})
    cfg = "SPECIFICATION Spec\n" + cl + "INVARIANT PrefixClosed\nPROPERTY GetIsPure\nCHECK_DEADLOCK FALSE\n"
    r = ctx.tlc(name, label="Config histories", cfg_text=cfg, extra_files={name + ".tla": mc}, workers=16, dump=True, dump_only=["hist"], timeout=1800)
    hists = []
    for s in r.dump:
        h = s["hist"]
        if h and h[-1][0] == "get":
            hists.append([[a[0], list(a[1]), a[2]] + ([list(a[3]) if not isinstance(a[3][1] if len(a[3]) > 1 else 0, tuple) else [a[3][0], list(a[3][1])]] if a[0] == "get" else []) for a in h])
    chunks = [hists[i::8] for i in range(8) if hists[i::8]]
    tot = {"histories": len(hists), "states": r.distinct, "clauses": {}, "violations": []}
    for res in ctx.harness_parallel("config_replay.py", [{"hists": c} for c in chunks], procs=8):
        for k, v in res["clauses"].items():
            c = tot["clauses"].setdefault(k, {"checked": 0, "failed": 0})
            c["checked"] += v["checked"]
            c["failed"] += v["failed"]
        tot["violations"] += res["violations"]
    import shutil
    shutil.rmtree(ctx.scratch, ignore_errors=True)
    os.makedirs(os.path.join(ROOT, "out", "extras"), exist_ok=True)
    with open(os.path.join(ROOT, "out", "extras", "config.json"), "w") as fh:
        json.dump(tot, fh, indent=1)
    print(json.dumps({k: v for k, v in tot.items() if k != "violations"}))
    seen = {}
    for v in tot["violations"]:
        seen[v["key"]] = seen.get(v["key"], 0) + 1
        if seen[v["key"]] <= 2:
            print("FINDING", v["key"], v["what"][:300])
    return 0


if __name__ == "__main__":
    sys.exit(main())
