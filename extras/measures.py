#!/venv/bin/python
"""Measures.tla: histories of append / sort / filter / observe on MeasureSet objects, replayed on the real class (informational).

 * TLC shows that the implementation-shaped filter (the if / elif chain) leaves the contract exactly through the two named
   deviations (FilterAgrees violated with them, holds without);
 * every history with <= 3 measures and one call (exhaustive), and long simulated histories, are replayed: the real class must
   follow the implementation-shaped model everywhere (binding), and the places where it leaves the CONTRACT are reported as findings.
"""
import json
import os
import shutil
import sys

ROOT = os.path.dirname(os.path.dirname(os.path.abspath(__file__)))
sys.path.insert(0, ROOT)
from lib import tlc  # noqa: E402
from lib.ctx import Ctx  # noqa: E402

BASE = {"StationTypes": {"Range", "Doppler"}, "PvtTypes": {"X"}, "Srcs": {"S1", "S2"},
        "SigPaths": tlc.RawTla('{<<"S1", "sat", "S1">>, <<"S1", "sat", "S2">>, <<"S2", "sat", "S2">>}'), "Ticks": {0, 1}}


def consts(union, raises, nmeas, nsets, ncalls, **kw):
    c = dict(BASE)
    c.update(kw)
    c.update({"MultiIsUnion": union, "PathNeedsPaths": raises, "MaxMeasures": nmeas, "MaxSets": nsets, "MaxCalls": ncalls})
    return c


def plain(v):
    if isinstance(v, tuple):
        return [plain(x) for x in v]
    if isinstance(v, dict):
        return {k: plain(x) for k, x in v.items()}
    return v


def main():
    ctx = Ctx("C13", "quick", 1)
    tot = {"clauses": {}, "violations": [], "tlc": {}}
    props = "INVARIANT SortIsStablePermutation\nINVARIANT FilteredIsSubsequence\nPROPERTY FilterKeepsReceiver\nCHECK_DEADLOCK FALSE\n"
    # 1. the implementation-shaped operator against the contract, on the model alone
    for union, raises, expect in ((False, False, True), (True, False, False), (False, True, False), (True, True, False)):
        name, mc, cl = tlc.wrap("Measures", consts(union, raises, 2, 1, 0))
        cfg = "SPECIFICATION Spec\n" + cl + "INVARIANT FilterAgrees\n" + props
        r = ctx.tlc(name, label=f"FilterAgrees union={union} raises={raises}", cfg_text=cfg, extra_files={name + ".tla": mc}, workers=8, timeout=900,
                    expect_ok=False)
        held = not r.violated
        tot["tlc"][f"FilterAgrees[MultiIsUnion={union},PathNeedsPaths={raises}]"] = {"holds": held, "states": r.distinct}
        if held != expect:
            print("MODEL PROBLEM: FilterAgrees", union, raises, "holds" if held else "violated")
            return 2
    # 2. exhaustive short histories + simulated long ones, as the code is (both deviations on)
    hists = []
    name, mc, cl = tlc.wrap("Measures", consts(True, True, 3, 2, 1, StationTypes={"Range"}, SigPaths=tlc.RawTla('{<<"S1", "sat", "S1">>, <<"S2", "sat", "S2">>}')))
    r = ctx.tlc(name, label="Measures histories (exhaustive)", cfg_text="SPECIFICATION Spec\n" + cl + props, extra_files={name + ".tla": mc}, workers=16,
                dump=True, dump_only=["hist"], timeout=1800)
    tot["tlc"]["exhaustive"] = {"states": r.distinct}
    hists += [plain(s["hist"]) for s in r.dump if s["hist"] and s["hist"][-1][0] != "append"]
    name, mc, cl = tlc.wrap("Measures", consts(True, True, 6, 3, 4))
    for k in range(10):
        sim = ctx.tlc(name, label="Measures histories (simulated)", cfg_text="SPECIFICATION Spec\n" + cl + "CHECK_DEADLOCK FALSE\n", extra_files={name + ".tla": mc},
                      workers=1, simulate={"num": 200, "file": True}, depth=11, seed=7 + k, timeout=900)
        for tr in sim.sim_traces:
            h = tr[-1][1]["hist"] if tr else ()
            if h:
                hists.append(plain(h))
    tot["histories"] = len(hists)
    chunks = [hists[i::12] for i in range(12) if hists[i::12]]
    for res in ctx.harness_parallel("measures_replay.py", [{"hists": c, "maxsets": 3} for c in chunks], procs=12):
        for k, v in res["clauses"].items():
            c = tot["clauses"].setdefault(k, {"checked": 0, "failed": 0})
            c["checked"] += v["checked"]
            c["failed"] += v["failed"]
        tot["violations"] += res["violations"]
    shutil.rmtree(ctx.scratch, ignore_errors=True)
    os.makedirs(os.path.join(ROOT, "out", "extras"), exist_ok=True)
    with open(os.path.join(ROOT, "out", "extras", "measures.json"), "w") as fh:
        json.dump(tot, fh, indent=1)
    print(json.dumps({k: v for k, v in tot.items() if k != "violations"}))
    seen = {}
    rc = 0
    for v in tot["violations"]:
        seen[v["key"]] = seen.get(v["key"], 0) + 1
        if seen[v["key"]] <= 2:
            print("FINDING", v["key"], v["what"][:300])
        if v["key"] in ("measures/filter-model", "measures/sort", "measures/observe", "measures/filter-receiver", "measures/filter-class"):
            rc = 1       # the code does not follow the implementation-shaped model: the model (or the code) is wrong
    return rc


if __name__ == "__main__":
    sys.exit(main())
