#!/venv/bin/python
"""Regenerates MANIFEST.json from checks/registry.py (single source of truth for claimed checks)."""
import json
import os
import sys

ROOT = os.path.dirname(os.path.abspath(__file__))
sys.path.insert(0, ROOT)
from checks.registry import CHECKS, NOT_APPLICABLE, NOTES  # noqa

BASE = json.load(open("/root/.vp/BASELINE.json"))["cmd"] if os.path.exists("/root/.vp/BASELINE.json") else ""

man = {
    "version": 1,
    "setup_cmd": "/venv/bin/python /verif/setup.py",
    "hooks": {
        "guard": "BEYOND_VERIF",
        "enable": "no source hook is needed so far: all observation is done from the harness process (wrapping callables, harness-side subclasses, public attributes); checks import /repo's working tree directly via PYTHONPATH=/repo. BEYOND_VERIF=1 is reserved for future add-only hooks.",
        "baseline_off_cmd": "cd /repo && env -u BEYOND_VERIF /venv/bin/python -m pytest -ra -q -p no:cacheprovider --timeout=900 --continue-on-collection-errors",
        "source_commits": [],
        "add_only": True,
    },
    "engines": [
        {"name": "tlc", "path": "/verif/lib/tlc.py", "serves_properties": [c["property_id"] for c in CHECKS],
         "kind_free_text": "TLC 1.8 explicit-state model checking of /verif/spec/*.tla; behaviours and exact expected values exported (state dumps) and replayed on the real library; projected real states and recorded traces judged by TLC with the contract operators (trace validation)"}
    ],
    "checks": [],
    "notes": NOTES,
    "not_applicable": NOT_APPLICABLE,
}
for c in CHECKS:
    pid = c["property_id"]
    man["checks"].append({
        "property_id": pid,
        "quick_cmd": f"/venv/bin/python /verif/checks/run.py {pid} --tier quick",
        "thorough_cmd": f"/venv/bin/python /verif/checks/run.py {pid} --tier thorough",
        "evidence_file": f"/verif/evidence/{pid}.json",
        "replay_cmd_template": f"/venv/bin/python /verif/checks/run.py {pid} --replay {{path}}",
        "engine": "tlc",
        "level_claimed": {"category": c.get("category", "model_checking"), "text": c["text"], "design_ref": c["design_ref"]},
        "level_note": c["level_note"],
        "technique": c["technique"],
    })
with open(os.path.join(ROOT, "MANIFEST.json"), "w") as fh:
    json.dump(man, fh, indent=1)
print("MANIFEST.json written:", [c["property_id"] for c in CHECKS], "not_applicable:", [n["property_id"] for n in NOT_APPLICABLE])
