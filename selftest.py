#!/venv/bin/python
"""Binding demonstrations run by setup: every trace specification must ACCEPT a correct recorded trace and REJECT the
same trace with one field corrupted / one event removed.  Guards against vacuous acceptance (e.g. a verdict that is
printed but not parsed)."""
import copy
import json
import os
import sys
import tempfile

ROOT = os.path.dirname(os.path.abspath(__file__))
sys.path.insert(0, ROOT)
from lib import tlc  # noqa


def verdicts(module, cfg, data, extra=None, name=None):
    d = tempfile.mkdtemp(prefix="verif-self-")
    path = os.path.join(d, "trace.json")
    with open(path, "w") as fh:
        json.dump(data, fh)
    try:
        r = tlc.run(name or module, cfg_text=cfg, env={"TRACE_FILE": path}, workers=2, extra_files=extra, timeout=300)
    finally:
        import shutil
        shutil.rmtree(d, ignore_errors=True)
    return {p[0]: p[1] for p in r.prints}


def expect(label, cond):
    print(f"selftest {label}: {'ok' if cond else 'FAILED'}")
    return cond


def main():
    ok = True
    # ---- RoutingTrace: chain 1-2-3 with correct tables, then with node 1 routing to 3 through a non-neighbour ----
    good = {"nb": [[2], [1, 3], [2]],
            "rt": [[[0, 0], [2, 1], [2, 2]], [[1, 1], [0, 0], [3, 1]], [[2, 2], [2, 1], [0, 0]]]}
    bad = copy.deepcopy(good)
    bad["rt"][0][2] = [3, 1]          # 1 -> 3 "directly" although they are not linked
    lost = copy.deepcopy(good)
    lost["rt"][2][0] = [0, 0]         # 3 reports 1 as unknown although connected
    cfg = "INIT TInit\nNEXT TNext\nCONSTANTS\n N = 3\n MaxLinks = 0\n ForestOnly = FALSE\n SinglePass = FALSE\nINVARIANT Report\nCHECK_DEADLOCK FALSE\n"
    v = verdicts("RoutingTrace", cfg, {"states": [good, bad, lost], "steps": [{"pre": 1, "post": 1, "a": 1, "b": 3}]})
    ok &= expect("routing: correct tables accepted", 1 not in v)
    ok &= expect("routing: wrong next hop rejected", 2 in v and "valid" in v[2])
    ok &= expect("routing: lost route rejected", 3 in v and "valid" in v[3])
    ok &= expect("routing: a step that is not a Link effect rejected", 4 in v)
    # ---- ListenersTrace ------------------------------------------------------------------------------------------
    pat = [{"init": 1, "flips": [5]}]
    good = {"pat": pat, "out": [[0, 0, 0], [5, 1, -1], [8, 0, 0], [16, 0, 0]]}
    missing = {"pat": pat, "out": [[0, 0, 0], [8, 0, 0], [16, 0, 0]]}
    late = {"pat": pat, "out": [[0, 0, 0], [7, 1, -1], [8, 0, 0], [16, 0, 0]]}
    wronglab = {"pat": pat, "out": [[0, 0, 0], [5, 1, 1], [8, 0, 0], [16, 0, 0]]}
    unordered = {"pat": pat, "out": [[0, 0, 0], [8, 0, 0], [5, 1, -1], [16, 0, 0]]}
    name, mc, cl = tlc.wrap("ListenersTrace", {"Samples": [0, 8, 16], "NL": 1, "MaxFlips": 0, "Passes": 1}, name="MCListenersTrace")
    cfg = "INIT TInit\nNEXT TNext\n" + cl + "INVARIANT Report\nCHECK_DEADLOCK FALSE\n"
    v = verdicts("ListenersTrace", cfg, {"runs": [good, missing, late, wronglab, unordered]}, extra={name + ".tla": mc}, name=name)
    ok &= expect("listeners: correct stream accepted", 1 not in v)
    ok &= expect("listeners: missing event rejected", 2 in v and "sound-complete" in v[2])
    ok &= expect("listeners: event 2 us late rejected (sharp)", 3 in v and "sharp" in v[3])
    ok &= expect("listeners: wrong direction label rejected", 4 in v and "label" in v[4])
    ok &= expect("listeners: unordered stream rejected", 5 in v and "ordered" in v[5])
    # ---- PhysListenersTrace ------------------------------------------------------------------------------------------
    items = [{"k": "S", "s": 0, "us": 0, "sg": [-1, 1], "gd": [True, True]},
             {"k": "E", "s": 30, "us": 5, "l": 1, "lab": "AOS", "before": -1, "after": 1},
             {"k": "S", "s": 60, "us": 0, "sg": [1, 1], "gd": [True, True]},
             {"k": "S", "s": 120, "us": 0, "sg": [1, 1], "gd": [True, True]}]
    good = {"classes": ["signal", "node"], "items": items}
    miss = {"classes": ["signal", "node"], "items": [items[0], items[2], items[3]]}
    lab = copy.deepcopy(good)
    lab["items"][1]["lab"] = "LOS"
    blunt = copy.deepcopy(good)
    blunt["items"][1]["before"] = 1
    spur = copy.deepcopy(good)
    spur["items"].insert(3, {"k": "E", "s": 90, "us": 0, "l": 2, "lab": "Asc Node", "before": -1, "after": 1})
    cfg = "INIT TInit\nNEXT TNext\nINVARIANT Report\nCHECK_DEADLOCK FALSE\n"
    v = verdicts("PhysListenersTrace", cfg, {"traces": [good, miss, lab, blunt, spur]})
    kinds = {k: {x[0] for x in f} for k, f in v.items()}
    ok &= expect("physical: correct trace accepted", 1 not in v)
    ok &= expect("physical: removed event rejected", "missing-event" in kinds.get(2, ()))
    ok &= expect("physical: corrupted label rejected", "label" in kinds.get(3, ()))
    ok &= expect("physical: blunt event rejected", "not-sharp" in kinds.get(4, ()))
    ok &= expect("physical: spurious event rejected", "spurious-event" in kinds.get(5, ()))
    # ---- SuiteTrace ------------------------------------------------------------------------------------------------
    eop = {"tai_utc": 36, "ut1_utc": 175602}
    z = [0, 0, 0]
    date = {"k": "date", "form": "fields", "lab": "UTC", "rd": [58000, 100, 0], "inst": [58000, 136, 0], "eop": eop, "off": [36, 0]}
    date_bad = dict(date, inst=[58000, 100, 0])                                   # labelled, not converted
    scale = {"k": "scale", "lab": "UTC", "inst": [58000, 136, 0], "new": "TT", "inst2": [58000, 136, 0], "asked": "TT", "same_eop": True}
    scale_bad = dict(scale, inst2=[58000, 136, 20])                               # 2 us away between exact scales
    plus = {"k": "plus", "lab": "UTC", "inst": [58000, 136, 0], "off": [36, 0], "dt": [0, 86399, 5000000], "lab2": "UTC",
            "inst2": [58001, 135, 5000000], "off2": [36, 0], "same_eop": True}
    plus_bad = dict(plus, inst2=[58001, 135, 5000100])
    minus = {"k": "minus", "inst": [58001, 0, 0], "inst2": [58000, 86399, 0], "td": [0, 1, 0]}
    minus_bad = dict(minus, td=[0, 2, 0])
    it = {"k": "iter", "kind": "analytical", "cls": "Kepler", "listeners": 1, "mode": "range", "start": [58000, 0, 0], "stop": [58000, 100, 0],
          "step": [0, 40, 0], "hasstep": True, "inclusive": True, "dates": [], "lo": z, "hi": z, "strict": False, "status": "complete",
          "out": [[[58000, 0, 0], ""], [[58000, 12, 0], "AOS"], [[58000, 40, 0], ""], [[58000, 80, 0], ""]]}
    it_short = dict(it, out=it["out"][:3])                                        # stops one step early
    it_beyond = dict(it, out=it["out"] + [[[58000, 120, 0], ""]])
    it_event = dict(it, out=[it["out"][0], it["out"][2], it["out"][1], it["out"][3]])  # event after the sample that follows it
    evs = [date, date_bad, scale, scale_bad, plus, plus_bad, minus, minus_bad, it, it_short, it_beyond, it_event]
    from lib.tlc import RawTla
    from lib import eopgen
    from lib.ctx import REPO
    name, mc, cl = tlc.wrap("SuiteTrace", {"Days": set(), "Sods": RawTla("{}"), "EdgeSods": RawTla("{}"), "Deltas": RawTla("{}"), "MaxSteps": 0},
                            name="MCSuiteTraceSelf")
    cfg = "INIT TInit\nNEXT TNext\n" + cl + "INVARIANT Report\nCHECK_DEADLOCK FALSE\n"
    eopmod = eopgen.eop_module(REPO, [51544, 51545])[0]
    v = verdicts("SuiteTrace", cfg, {"events": evs}, extra={name + ".tla": mc, "EopData.tla": eopmod}, name=name)
    ok &= expect("suite: correct events accepted", not ({1, 3, 5, 7, 9} & set(v)))
    ok &= expect("suite: labelled-not-converted date rejected", "date-instant" in v.get(2, ()))
    ok &= expect("suite: relabel moving the instant rejected", "relabel-exact" in v.get(4, ()))
    ok &= expect("suite: addition off by 10 us rejected", "plus-reading" in v.get(6, ()))
    ok &= expect("suite: wrong difference rejected", "minus-instant" in v.get(8, ()))
    ok &= expect("suite: iteration stopping early rejected", "range-stops-early" in v.get(10, ()))
    ok &= expect("suite: iteration beyond stop rejected", "range-beyond-stop" in v.get(11, ()))
    ok &= expect("suite: misplaced event rejected", bool({"stream-ordered", "stream-between"} & set(v.get(12, ()))))
    # ---- TleTrace ----------------------------------------------------------------------------------------------------
    from checks.c12 import rec, fn, BASE, CORNER
    l1 = "1 25544U 98067A   18124.55610684  .00001524  00000-0  30197-4 0  9997"
    l2 = "2 25544  51.6421 236.2139 0003381  47.8509  47.6767 15.54198229111731"
    good = {"k": "tle", "l1": list(l1), "l2": list(l2), "norad": 25544, "elnb": 999, "rev": 11173, "nd": 1524, "ndsgn": 1, "incl": 516421,
            "raan": 2362139, "ecc": 3381, "argp": 478509, "ma": 476767, "mm": 1554198229, "epoch": [18, 124, 55610684]}
    bad_elnb = dict(good, elnb=99)                       # element number read from 3 of its 4 columns
    bad_sum = dict(good, l1=list(l1[:68] + "0"))          # wrong checksum accepted
    name, mc, cl = tlc.wrap("TleTrace", {"Base": rec(BASE), "Corner": fn({k: set(list(v)[:1]) for k, v in CORNER.items()})}, name="MCTleTraceSelf")
    cfg = "INIT TInit\nNEXT TNext\n" + cl + "INVARIANT Report\nCHECK_DEADLOCK FALSE\n"
    v = verdicts("TleTrace", cfg, {"events": [good, bad_elnb, bad_sum]}, extra={name + ".tla": mc}, name=name)
    ok &= expect("tle trace: correct reading accepted " + str(v.get(1)), 1 not in v)
    ok &= expect("tle trace: wrong element number rejected", "element-number" in v.get(2, ()))
    ok &= expect("tle trace: accepted text with a wrong checksum rejected", "accepted-invalid" in v.get(3, ()))
    # ---- TleEpoch: the distance between a microsecond date and the written 8-digit fraction, in limbs ---------------------------
    # 2013-12-31 23:59:59.999800 : carried into 1 January 2014 (or day 366 of 2013, which the reader takes as the same day)
    e_ok = {"year": 2013, "doy": 365, "sec": 86399, "us": 999800, "wyy": 14, "wdoy": 1, "wfrac": 0, "ryear": 2014, "rdoy": 1, "rsec": 0, "rus": 0, "len1": 69, "len2": 69}
    e_366 = dict(e_ok, wyy=13, wdoy=366)
    e_lost = dict(e_ok, wyy=13, wdoy=365, ryear=2013, rdoy=365)          # the carry is lost: one day early
    e_mid = {"year": 2012, "doy": 60, "sec": 43200, "us": 432, "wyy": 12, "wdoy": 60, "wfrac": 50000001, "ryear": 2012, "rdoy": 60, "rsec": 43200, "rus": 864, "len1": 69, "len2": 69}
    e_off = dict(e_mid, wfrac=50000003, rus=2592)                          # 2.16 ms away
    name, mc, cl = tlc.wrap("TleEpoch", {"Years": {2013}, "Doys": {1}, "Secs": {0}, "Uss": {0}}, name="MCTleEpochSelf")
    cfg = "INIT TInit\nNEXT TNext\n" + cl + "INVARIANT Report\nCHECK_DEADLOCK FALSE\n"
    v = verdicts("TleEpoch", cfg, {"events": [e_ok, e_366, e_lost, e_mid, e_off]}, extra={name + ".tla": mc}, name=name)
    ok &= expect("tle epoch: carry into the next year accepted " + str(v.get(1)), 1 not in v)
    ok &= expect("tle epoch: day one beyond the year accepted " + str(v.get(2)), 2 not in v)
    ok &= expect("tle epoch: lost carry (one day early) rejected", {"written", "read-back"} <= set(v.get(3, ())))
    ok &= expect("tle epoch: nearest fraction accepted " + str(v.get(4)), 4 not in v)
    ok &= expect("tle epoch: fraction 2 ms away rejected", "written" in v.get(5, ()))
    # ---- VisibilityTrace: the stream of one pass over a six-date grid ------------------------------------------------------------
    def g(sec, up, rise):
        return {"s": sec, "us": 0, "up": up, "rise": rise}

    def smp(sec):
        return {"k": "S", "s": sec, "us": 0, "cls": "-", "lab": "-", "up": 1, "z": 0, "info": "-"}

    def evt(sec, us, cls, lab, z=3):
        return {"k": "E", "s": sec, "us": us, "cls": cls, "lab": lab, "up": 0, "z": z, "info": lab + " 0 Sta"}
    grid = [g(0, -1, 1), g(60, -1, 1), g(120, 1, 1), g(180, 1, -1), g(240, -1, -1), g(300, -1, -1)]
    good = [evt(100, 5, "signal", "AOS"), smp(120), evt(150, 0, "max", "MAX"), smp(180), evt(230, 9, "signal", "LOS")]
    dup = good[:1] + [evt(100, 5, "signal", "AOS")] + good[1:]
    below = good + [smp(240)]
    missing = [x for x in good if not (x["k"] == "S" and x["s"] == 180)]
    wrong = [evt(100, 5, "signal", "LOS")] + good[1:]
    blunt = [evt(100, 5, "signal", "AOS", z=900000)] + good[1:]
    name, mc, cl = tlc.wrap("VisibilityTrace", {"ZTol": 2000}, name="MCVisibilityTraceSelf")
    cfg = "INIT TInit\nNEXT TNext\n" + cl + "INVARIANT Report\nCHECK_DEADLOCK FALSE\n"
    def vt(st, picks=(), filtered=None):
        evs = [{"s": x["s"], "us": x["us"]} for x in st if x["k"] == "E"]
        return {"grid": grid, "stream": st, "picks": list(picks), "filter": [], "filtered": evs if filtered is None else filtered}
    pick_ok = [{"info": "LOS 0 Sta", "offset": 0, "found": True, "s": 230, "us": 9}, {"info": "LOS 0 Sta", "offset": 1, "found": False, "s": 0, "us": 0}]
    pick_bad = [{"info": "AOS 0 Sta", "offset": 0, "found": True, "s": 230, "us": 9}]
    v = verdicts("VisibilityTrace", cfg, {"traces": [vt(st) for st in (good, dup, below, missing, wrong, blunt)] + [vt(good, pick_ok), vt(good, pick_bad), vt(good, filtered=[])]},
                 extra={name + ".tla": mc}, name=name)
    ok &= expect("visibility: find_event selections accepted " + str(v.get(7)), 7 not in v)
    ok &= expect("visibility: find_event returning another event rejected", "find-event" in v.get(8, ()))
    ok &= expect("visibility: events_iterator dropping events rejected", "events-iterator" in v.get(9, ()))
    ok &= expect("visibility: a correct stream accepted " + str(v.get(1)), 1 not in v)
    ok &= expect("visibility: a repeated AOS rejected", "aos-los-duplicated" in v.get(2, ()))
    ok &= expect("visibility: a sample below the horizon rejected", "sample-below-horizon-or-repeated" in v.get(3, ()))
    ok &= expect("visibility: a missing above-horizon sample rejected", "above-horizon-sample-missing" in v.get(4, ()))
    ok &= expect("visibility: AOS labelled LOS rejected", "aos-los-label" in v.get(5, ()))
    ok &= expect("visibility: an AOS away from zero elevation rejected", "event-not-at-zero" in v.get(6, ()))
    # ---- RangeLoop.tla with Apalache: the inductive argument is not vacuous -----------------------------------------------------
    from lib import apalache
    from checks.c03 import RL_VARS
    src = open(os.path.join(ROOT, "spec", "RangeLoop.tla")).read()
    mut = src.replace("MODULE RangeLoop", "MODULE RangeLoopMut").replace(" + (IF Inc /\\ (b - a) % Abs(S) = 0 THEN 1 ELSE 0)", "")
    assert mut.count("THEN 1 ELSE 0") == 0
    w = apalache.instance_module("MCRangeLoopSelf", "RangeLoop", RL_VARS, {"S": 3, "Inc": "TRUE", "Bound": 0})
    wm = apalache.instance_module("MCRangeLoopMutSelf", "RangeLoopMut", RL_VARS, {"S": 3, "Inc": "TRUE", "Bound": 0})
    ok &= expect("apalache: IndInv => Safe holds for the length formula of the code", apalache.check("MCRangeLoopSelf", w, "IndInit", "Safe", 0, extra_modules=["RangeLoop"])[0])
    ok &= expect("apalache: the formula without its inclusive '+1' is refuted", not apalache.check("MCRangeLoopMutSelf", wm, "IndInit", "Safe", 0, extra_texts={"RangeLoopMut": mut})[0])
    return 0 if ok else 1


if __name__ == "__main__":
    sys.exit(main())
