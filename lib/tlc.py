"""Run TLC on a module of /verif/spec and collect what the run covered."""

import os
import re
import shutil
import subprocess
import tempfile
import time

from . import tlaparse

SPEC_DIR = os.path.join(os.path.dirname(os.path.dirname(os.path.abspath(__file__))), "spec")
JAR = "/opt/veriftools/tla/tla2tools.jar:/opt/veriftools/tla/CommunityModules-deps.jar"


class TlcFailure(Exception):
    """TLC itself failed (parse error, evaluation error, timeout): machinery failure, never a verdict."""


class TlcResult:
    def __init__(self):
        self.ok = False  # no invariant/property violation, no error
        self.violated = None  # name of violated invariant/property
        self.generated = 0
        self.distinct = 0
        self.depth = 0
        self.wall_s = 0.0
        self.stdout = ""
        self.coverage = {}  # action name -> (distinct, total)
        self.dump = None  # list of states when dump requested
        self.prints = []  # parsed PrintT values
        self.counterexample = None  # list of (label, state dict) when a violation trace was printed

    def summary(self):
        return {
            "generated": self.generated,
            "distinct": self.distinct,
            "depth": self.depth,
            "wall_s": round(self.wall_s, 2),
            "violated": self.violated,
        }


def write_cfg(path, spec=None, init=None, next_=None, constants=None, invariants=(), properties=(),
              constraints=(), action_constraints=(), symmetry=None, view=None, postcondition=None,
              check_deadlock=False, extra=""):
    lines = []
    if spec:
        lines.append(f"SPECIFICATION {spec}")
    else:
        lines.append(f"INIT {init}")
        lines.append(f"NEXT {next_}")
    if constants:
        lines.append("CONSTANTS")
        for k, v in constants.items():
            lines.append(f"  {k} = {tla_const(v)}" if not (isinstance(v, str) and v.startswith("<-")) else f"  {k} {v}")
    for inv in invariants:
        lines.append(f"INVARIANT {inv}")
    for p in properties:
        lines.append(f"PROPERTY {p}")
    for c in constraints:
        lines.append(f"CONSTRAINT {c}")
    for c in action_constraints:
        lines.append(f"ACTION_CONSTRAINT {c}")
    if symmetry:
        lines.append(f"SYMMETRY {symmetry}")
    if view:
        lines.append(f"VIEW {view}")
    if postcondition:
        lines.append(f"POSTCONDITION {postcondition}")
    lines.append(f"CHECK_DEADLOCK {'TRUE' if check_deadlock else 'FALSE'}")
    if extra:
        lines.append(extra)
    with open(path, "w") as fh:
        fh.write("\n".join(lines) + "\n")


def tla_const(v):
    """Python value -> cfg/TLA+ literal."""
    if isinstance(v, bool):
        return "TRUE" if v else "FALSE"
    if isinstance(v, int):
        return str(v)
    if isinstance(v, str):
        return '"' + v.replace("\\", "\\\\").replace('"', '\\"') + '"'
    if isinstance(v, (list, tuple)):
        return "<<" + ", ".join(tla_const(x) for x in v) + ">>"
    if isinstance(v, (set, frozenset)):
        return "{" + ", ".join(tla_const(x) for x in sorted(v, key=repr)) + "}"
    if isinstance(v, dict):
        if all(isinstance(k, str) and re.match(r"^[A-Za-z_][A-Za-z0-9_]*$", k) for k in v) and v:
            return "[" + ", ".join(f"{k} |-> {tla_const(x)}" for k, x in v.items()) + "]"
        if not v:
            return "<<>>"
        return "(" + " @@ ".join(f"{tla_const(k)} :> {tla_const(x)}" for k, x in v.items()) + ")"
    raise TypeError(f"cannot express {v!r} as TLA+ constant")


_RE_STATES = re.compile(r"(\d+) states generated, (\d+) distinct states found")
_RE_DEPTH = re.compile(r"The depth of the complete state graph search is (\d+)")
_RE_INV = re.compile(r"Invariant (\S+) is violated")
_RE_PROP = re.compile(r"(?:Action|Temporal|State) property (\S+)? ?(?:line .*)?is violated|Action property (\S+) is violated|Temporal properties were violated")
_RE_COV = re.compile(r"^<(\w+) line (\d+), col (\d+) to line (\d+), col (\d+) of module (\w+)>(?:: (\d+):(\d+))?", re.M)


def run(module, cfg_text=None, cfg_path=None, workers=None, dump=False, coverage=False, timeout=1500,
        simulate=None, depth=None, seed=None, env=None, extra_files=None, extra_args=(), keep_dir=False,
        deque=False, dump_only=None):
    """Run TLC on spec/<module>.tla inside a scratch directory (spec files are copied there).

    cfg_text: contents of the .cfg ; or cfg_path: existing cfg in spec dir.
    simulate: dict(num=.., file=True) to use -simulate.
    extra_files: {name: text} written to scratch dir (generated modules, traces).
    Returns TlcResult.  Raises TlcFailure on machinery errors.
    """
    t0 = time.time()
    scratch = tempfile.mkdtemp(prefix="verif-tlc-")
    res = TlcResult()
    try:
        for fn in os.listdir(SPEC_DIR):
            if fn.endswith(".tla"):
                shutil.copy(os.path.join(SPEC_DIR, fn), scratch)
        gen_dir = os.path.join(SPEC_DIR, "generated")
        if os.path.isdir(gen_dir):
            for fn in os.listdir(gen_dir):
                if fn.endswith(".tla"):
                    shutil.copy(os.path.join(gen_dir, fn), scratch)
        for name, text in (extra_files or {}).items():
            with open(os.path.join(scratch, name), "w") as fh:
                fh.write(text)
        cfg = os.path.join(scratch, module + ".cfg")
        if cfg_text is not None:
            with open(cfg, "w") as fh:
                fh.write(cfg_text)
        elif cfg_path is not None:
            shutil.copy(os.path.join(SPEC_DIR, cfg_path), cfg)
        else:
            shutil.copy(os.path.join(SPEC_DIR, module + ".cfg"), cfg)
        # VERIF_SAVE_EXAMPLES=<dir>: keep the first (root module, cfg, generated modules, trace file) of every root module as a
        # ready-to-run example next to the specification
        exdir = os.environ.get("VERIF_SAVE_EXAMPLES")
        if exdir and cfg_text is not None and not os.path.exists(os.path.join(exdir, module + ".cfg")):
            os.makedirs(exdir, exist_ok=True)
            with open(os.path.join(exdir, module + ".cfg"), "w") as fh:
                fh.write(cfg_text)
            for name, text in (extra_files or {}).items():
                if len(text) < 400000:
                    with open(os.path.join(exdir, name), "w") as fh:
                        fh.write(text)
            tf = (env or {}).get("TRACE_FILE")
            if tf and os.path.exists(tf) and os.path.getsize(tf) < 400000:
                shutil.copy(tf, os.path.join(exdir, module + ".trace.json"))
            with open(os.path.join(exdir, module + ".cmd"), "w") as fh:
                fh.write(("TRACE_FILE=%s.trace.json " % module if tf else "") + "java -Xss64m -DTLA-Library=/verif/spec -cp %s tlc2.TLC -workers 8 -metadir /tmp/verif-example-meta -noGenerateSpecTE -config %s.cfg %s.tla\n"
                         % (JAR, module, module if (module + ".tla") in (extra_files or {}) else "../" + module))
        if workers is None:
            workers = 8
        # TLC unpacks its standard modules into java.io.tmpdir: keep them inside the scratch directory, removed with it
        jtmp = os.path.join(scratch, "jtmp")
        os.makedirs(jtmp, exist_ok=True)
        cmd = ["java", "-XX:+UseParallelGC", "-Xmx6g", "-Xss64m", "-Djava.io.tmpdir=" + jtmp]
        if deque:
            cmd.append("-Dtlc2.tool.queue.IStateQueue=StateDeque")
        cmd += ["-cp", JAR, "tlc2.TLC", "-workers", str(workers), "-metadir", os.path.join(scratch, "meta"),
                "-noGenerateSpecTE", "-config", cfg]
        if dump:
            cmd += ["-dump", os.path.join(scratch, "states")]
        if coverage:
            cmd += ["-coverage", "1"]
        if simulate:
            s = "num=%d" % simulate.get("num", 100)
            if simulate.get("file"):
                os.makedirs(os.path.join(scratch, "sim"), exist_ok=True)
                s = "file=" + os.path.join(scratch, "sim", "tr") + "," + s
            cmd += ["-simulate", s]
        if depth:
            cmd += ["-depth", str(depth)]
        if seed is not None:
            cmd += ["-seed", str(seed)]
        cmd += list(extra_args)
        cmd.append(os.path.join(scratch, module + ".tla"))
        penv = dict(os.environ)
        if env:
            penv.update({k: str(v) for k, v in env.items()})
        try:
            proc = subprocess.run(cmd, cwd=scratch, env=penv, capture_output=True, text=True, timeout=timeout)
        except subprocess.TimeoutExpired as e:
            if simulate:
                out = (e.stdout or b"")
                res.stdout = out.decode() if isinstance(out, bytes) else out
                res.ok = "is violated" not in res.stdout and "Error:" not in res.stdout
                res.wall_s = time.time() - t0
                return res
            raise TlcFailure(f"TLC timed out after {timeout}s on {module}")
        out = proc.stdout + proc.stderr
        res.stdout = out
        m = None
        for m in _RE_STATES.finditer(out):
            pass
        if m:
            res.generated, res.distinct = int(m.group(1)), int(m.group(2))
        if simulate:
            ms = re.search(r"The number of states generated: (\d+)", out)
            if ms:
                res.generated = res.distinct = int(ms.group(1))
        m = _RE_DEPTH.search(out)
        if m:
            res.depth = int(m.group(1))
        m = _RE_INV.search(out)
        if m:
            res.violated = m.group(1)
        elif "is violated" in out or "properties were violated" in out or re.search(r"Temporal propert\S+ .*violated", out):
            m2 = re.search(r"property (\S+) (?:is|was) violated", out)
            res.violated = m2.group(1) if m2 else "property"
        if res.violated:
            res.counterexample = parse_counterexample(out)
        elif "Error:" in out or proc.returncode not in (0,):
            # deadlock is reported as error too but we disable it by default
            raise TlcFailure(f"TLC failed on {module} (rc={proc.returncode}):\n" + "\n".join(l for l in out.splitlines() if l.startswith("Error:"))[:1500] + "\n...\n" + out[-4000:])
        res.ok = res.violated is None
        if coverage:
            for mm in _RE_COV.finditer(out):
                if mm.group(7) is not None:
                    res.coverage[mm.group(1)] = (int(mm.group(7)), int(mm.group(8)))
        res.prints = parse_prints(out)
        if dump:
            p = os.path.join(scratch, "states.dump")
            if os.path.exists(p):
                res.dump = tlaparse.parse_dump(p, dump_only)
        if simulate and simulate.get("file"):
            res.sim_traces = []
            d = os.path.join(scratch, "sim")
            for fn in sorted(os.listdir(d)):
                res.sim_traces.append(parse_sim_trace(os.path.join(d, fn)))
        res.wall_s = time.time() - t0
        return res
    finally:
        if not keep_dir:
            shutil.rmtree(scratch, ignore_errors=True)
        else:
            res.scratch = scratch


_RE_CE_STATE = re.compile(r"^State (\d+): <?([^>\n]*)>?\n((?:(?!^State \d+:|^\d+ states generated|^Error|^Finished|^The ).*\n?)*)", re.M)


def parse_counterexample(out):
    trace = []
    for m in _RE_CE_STATE.finditer(out):
        label = m.group(2).strip()
        body = m.group(3)
        try:
            st = tlaparse.parse_state_body(body)
        except Exception:
            st = {"_raw": body}
        trace.append((label, st))
    return trace


def parse_prints(out):
    """Values printed with PrintT(<<"VERIF", x...>>) are collected.  TLC wraps long values over several lines:
    lines are accumulated until the brackets balance.  A value that cannot be parsed is a machinery failure
    (never silently dropped: a dropped verdict would read as acceptance)."""
    vals = []
    lines = out.splitlines()
    i = 0
    while i < len(lines):
        line = lines[i]
        if re.match(r'^<<\s*"VERIF"', line):
            buf = line
            while _depth(buf) > 0 and i + 1 < len(lines):
                i += 1
                buf += " " + lines[i].strip()
            try:
                vals.append(tlaparse.parse_value(buf)[1:])
            except Exception as e:
                raise TlcFailure(f"cannot parse TLC verdict line: {buf[:300]} ({e})")
        i += 1
    return vals


def _depth(text):
    d = 0
    instr = False
    k = 0
    while k < len(text):
        c = text[k]
        if c == '"':
            instr = not instr
        elif not instr:
            if text.startswith("<<", k) or c in "{[(":
                d += 1
                if text.startswith("<<", k):
                    k += 1
            elif text.startswith(">>", k) or c in "}])":
                d -= 1
                if text.startswith(">>", k):
                    k += 1
        k += 1
    return d


_RE_SIM_STATE = re.compile(r"^\\\* <?([^>\n]*)>?\s*\nSTATE_(\d+) ==\s*\n((?:(?!^\\\*|^STATE_|^====).*\n?)*)", re.M)


def parse_sim_trace(path):
    with open(path) as fh:
        text = fh.read()
    trace = []
    for m in _RE_SIM_STATE.finditer(text):
        label = m.group(1).strip().split(" ")[0]
        try:
            st = tlaparse.parse_state_body(m.group(3))
        except Exception:
            st = {"_raw": m.group(3)}
        trace.append((label, st))
    return trace


def sany(module_path):
    jtmp = tempfile.mkdtemp(prefix="verif-sany-")
    try:
        proc = subprocess.run(["java", "-Djava.io.tmpdir=" + jtmp, "-cp", JAR, "tla2sany.SANY", module_path], capture_output=True,
                              text=True, cwd=os.path.dirname(module_path))
    finally:
        shutil.rmtree(jtmp, ignore_errors=True)
    ok = proc.returncode == 0 and "Semantic errors" not in proc.stdout and "Parse Error" not in proc.stdout \
        and "*** Errors" not in proc.stdout
    return ok, proc.stdout + proc.stderr


def wrap(base, consts, name=None, extends=()):
    """Model-checking wrapper module: cfg files cannot hold tuples/records, so every constant is defined in a
    generated module MC<base> and substituted with `K <- MC_K`.  Returns (module name, module text, cfg lines)."""
    name = name or ("MC" + base)
    lines = [f"---- MODULE {name} ----", "EXTENDS " + ", ".join([base] + list(extends))]
    cfg = ["CONSTANTS"]
    for k, v in consts.items():
        lines.append(f"MC_{k} == {v if isinstance(v, RawTla) else tla_const(v)}")
        cfg.append(f" {k} <- MC_{k}")
    lines.append("====")
    return name, "\n".join(lines) + "\n", "\n".join(cfg) + "\n"


class RawTla(str):
    """A TLA+ expression given verbatim."""
