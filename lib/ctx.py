"""Check context: TLC runs, harness subprocesses, verdict bookkeeping, evidence and known findings."""

import json
import os
import subprocess
import sys
import tempfile
import shutil
import time

from . import tlc as tlcmod

ROOT = os.path.dirname(os.path.dirname(os.path.abspath(__file__)))
REPO = os.environ.get("VERIF_REPO", "/repo")
PY = "/venv/bin/python"
GUARD = "BEYOND_VERIF"


class LibraryRaised(Exception):
    """A harness died on an exception raised inside the library under test (unexpected there): reported as a violation."""

    def __init__(self, script, error, where, tail):
        super().__init__(f"{script}: {error} at {where}")
        self.script, self.error, self.where, self.tail = script, error, where, tail


class MachineryFailure(Exception):
    pass


class Ctx:
    def __init__(self, pid, tier, seed, level="model_checking"):
        self.pid = pid
        self.tier = tier
        self.seed = seed
        self.level = level
        self.t0 = time.time()
        self.states = 0
        self.transitions = 0
        self.traces = 0
        self.evaluations = 0
        self.nontrivial = set()
        self.samples = []
        self.tlc_runs = []
        self.clauses = {}
        self.assumptions = []
        self.extra = {}
        self.violations = []  # dicts key, what, data
        self.known_hit = {}
        self.exhaustive = None
        self.rule = ""
        self.scratch = tempfile.mkdtemp(prefix=f"verif-{pid}-")
        with open(os.path.join(ROOT, "known_findings.json")) as fh:
            kf = json.load(fh)
        self.known = {}
        for e in kf.get("findings", []):
            if e["property"] == pid and e.get("status", "open") == "open":
                self.known[e["key"]] = e

    # ---- TLC -------------------------------------------------------------------------------
    def tlc(self, module, label=None, expect_ok=True, **kw):
        """Run TLC.  A violated invariant on a *contract-level spec self-check* is a machinery failure
        (the spec contradicts itself) unless expect_ok=False, in which case the caller inspects it."""
        r = tlcmod.run(module, **kw)
        if os.environ.get("VERIF_VERBOSE"):
            print(f"  [tlc] {label or module}: {r.summary()}", file=sys.stderr, flush=True)
        self.states += r.distinct
        self.transitions += r.generated
        rec = {"module": module, "label": label or module}
        rec.update(r.summary())
        if r.coverage:
            rec["actions"] = {k: v[1] for k, v in r.coverage.items()}
        self.tlc_runs.append(rec)
        if expect_ok and not r.ok:
            raise MachineryFailure(f"TLC reported {r.violated} violated on {module} ({label}); spec-level "
                                   f"check expected to hold.\n" + r.stdout[-3000:])
        return r

    # ---- harness ---------------------------------------------------------------------------
    def harness(self, script, payload, timeout=3000, env=None, hooks=False):
        """Run /verif/harness/<script> in a fresh interpreter against /repo's working tree.
        payload (JSON-serialisable) is passed by file; result JSON is returned."""
        import uuid
        tag = uuid.uuid4().hex[:12]
        inp = os.path.join(self.scratch, f"in-{tag}.json")
        outp = os.path.join(self.scratch, f"out-{tag}.json")
        with open(inp, "w") as fh:
            json.dump(payload, fh)
        penv = dict(os.environ)
        penv["PYTHONPATH"] = REPO + os.pathsep + ROOT
        penv["PYTHONHASHSEED"] = "0"
        penv["PYTHONDONTWRITEBYTECODE"] = "1"
        penv["VERIF_SEED"] = str(self.seed)
        if hooks:
            penv[GUARD] = "1"
        else:
            penv.pop(GUARD, None)
        if env:
            penv.update(env)
        proc = subprocess.run([PY, os.path.join(ROOT, "harness", script), inp, outp], env=penv,
                              capture_output=True, text=True, timeout=timeout, cwd=self.scratch)
        if proc.returncode != 0 or not os.path.exists(outp):
            # an exception that comes OUT OF THE LIBRARY (innermost frame under the tree being checked) at a place where the harness
            # expects none is a finding about the library, not a failure of the machinery
            import re as _re
            frames = _re.findall(r'File "([^"]+)", line (\d+), in (\S+)', proc.stderr)
            last = proc.stderr.strip().splitlines()[-1] if proc.stderr.strip() else ""
            if frames and os.path.realpath(frames[-1][0]).startswith(os.path.realpath(REPO) + os.sep):
                raise LibraryRaised(script, last[:300], f"{frames[-1][0]}:{frames[-1][1]} in {frames[-1][2]}", proc.stderr[-2500:])
            raise MachineryFailure(f"harness {script} failed rc={proc.returncode}\n{proc.stdout[-3000:]}\n{proc.stderr[-6000:]}")
        with open(outp) as fh:
            return json.load(fh)

    def harness_parallel(self, script, payloads, timeout=3000, env=None, procs=8):
        """Run the same harness on several payloads concurrently (fresh interpreter each)."""
        from concurrent.futures import ThreadPoolExecutor
        with ThreadPoolExecutor(max_workers=procs) as ex:
            futs = [ex.submit(self.harness, script, p, timeout, env) for p in payloads]
            return [f.result() for f in futs]

    # ---- verdicts --------------------------------------------------------------------------
    def clause(self, name, n_checked=1, failed=0):
        c = self.clauses.setdefault(name, {"checked": 0, "failed": 0})
        c["checked"] += n_checked
        c["failed"] += failed

    def violation(self, key, what, data):
        """Record a contract violation observed on the real code.  key identifies the failing class."""
        self.violations.append({"key": key, "what": what, "data": data})

    def absorb(self, result):
        """Take the standard result structure of a harness: {evaluations, clauses:{name:{checked,failed}},
        violations:[{key,what,data}], samples:[...], nontrivial:[...]}"""
        self.evaluations += result.get("evaluations", 0)
        self.traces += result.get("traces", 0)
        for name, c in result.get("clauses", {}).items():
            self.clause(name, c.get("checked", 0), c.get("failed", 0))
        for v in result.get("violations", []):
            self.violation(v["key"], v["what"], v.get("data"))
        for s in result.get("samples", []):
            if len(self.samples) < 12:
                self.samples.append(s)
        for s in result.get("nontrivial", []):
            self.nontrivial.add(s if isinstance(s, str) else json.dumps(s, sort_keys=True))
        if "nontrivial_count" in result:
            self.extra["nontrivial_count"] = self.extra.get("nontrivial_count", 0) + result["nontrivial_count"]
        for k, v in result.get("info", {}).items():
            cur = self.extra.setdefault("info", {}).get(k)
            if isinstance(v, dict) and isinstance(cur, dict) and all(isinstance(x, (int, float, list)) for x in v.values()):
                for kk, vv in v.items():
                    if isinstance(vv, list):
                        cur[kk] = (cur.get(kk, []) + vv)[:6]
                    else:
                        cur[kk] = cur.get(kk, 0) + vv
            else:
                self.extra["info"][k] = v

    # ---- finishing -------------------------------------------------------------------------
    def finish(self):
        os.makedirs(os.path.join(ROOT, "evidence"), exist_ok=True)
        os.makedirs(os.path.join(ROOT, "out", "replay"), exist_ok=True)
        lines = []
        new = []
        seen_known = {}
        for v in self.violations:
            ent = self._match_known(v["key"])
            if ent is not None:
                seen_known.setdefault(ent["key"], []).append(v)
            else:
                new.append(v)
        for key, vs in seen_known.items():
            lines.append(f"KNOWN-FINDING: property={self.pid} {key}: {self.known[key]['what']} "
                         f"({len(vs)} occurrence(s) this run, e.g. {vs[0]['what'][:160]})")
        reported = {}
        for v in new:
            reported.setdefault(v["key"], []).append(v)
        k = 0
        for key, vs in reported.items():
            k += 1
            path = os.path.join(ROOT, "out", "replay", f"{self.pid}-{k}.json")
            with open(path, "w") as fh:
                json.dump({"property": self.pid, "key": key, "what": vs[0]["what"], "count": len(vs),
                           "cases": [x["data"] for x in vs[:20]],
                           "how": f"{PY} {ROOT}/checks/run.py {self.pid} --replay {path}"}, fh, indent=1, default=str)
            lines.append(f"VIOLATION property={self.pid} replay={path}")
            lines.append(f"  clause={key} occurrences={len(vs)} first: {vs[0]['what'][:300]}")
        nontriv = len(self.nontrivial) + self.extra.get("nontrivial_count", 0)
        cov = {
            "states": self.states,
            "transitions": self.transitions,
            "traces_validated_against_impl": self.traces,
            "samples": self.samples[:12] or ["(no sample recorded)"],
            "evaluations": self.evaluations,
            "distinct_nontrivial": nontriv,
            "rule": self.rule,
            "tlc_runs": self.tlc_runs,
            "clauses": self.clauses,
            "known_findings_hit": {k: len(v) for k, v in seen_known.items()},
        }
        if self.exhaustive is not None:
            cov["exhaustive"] = self.exhaustive
        for k2, v2 in self.extra.items():
            if k2 != "nontrivial_count":
                cov[k2] = v2
        ev = {
            "property_id": self.pid,
            "tier": self.tier,
            "seed": self.seed,
            "level": self.level,
            "coverage": cov,
            "assumptions": self.assumptions,
            "wall_s": round(time.time() - self.t0, 2),
            "violations": len(new),
        }
        # evidence/<id>.json describes runs against /repo itself; a run against another tree (VERIF_REPO=<scratch worktree with a seeded
        # change>) leaves it alone and writes under out/
        evdir = os.path.join(ROOT, "evidence") if os.path.realpath(REPO) == "/repo" else os.path.join(ROOT, "out", "evidence-other-tree")
        os.makedirs(evdir, exist_ok=True)
        with open(os.path.join(evdir, f"{self.pid}.json"), "w") as fh:
            json.dump(ev, fh, indent=1, default=str)
        shutil.rmtree(self.scratch, ignore_errors=True)
        for ln in lines:
            print(ln)
        failed_clauses = {n: c for n, c in self.clauses.items() if c["failed"]}
        print(f"[{self.pid}] tier={self.tier} seed={self.seed} tlc_states={self.states} impl_traces={self.traces} "
              f"evaluations={self.evaluations} clauses={len(self.clauses)} failing_clauses={list(failed_clauses)} "
              f"new_violations={len(new)} known={list(seen_known)} wall={ev['wall_s']}s")
        return 1 if new else 0

    def _match_known(self, key):
        if key in self.known:
            return self.known[key]
        return None

    def cleanup(self):
        shutil.rmtree(self.scratch, ignore_errors=True)
