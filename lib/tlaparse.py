"""Parser for TLA+ values as printed by TLC (state dumps, PrintT output).

Supported: integers, strings, booleans, model values (bare identifiers), sequences/tuples
<<..>>, sets {..}, records [a |-> v, ...], explicit functions (k :> v @@ k :> v), and ranges a..b.
Values are mapped to Python: int, str, bool, tuple (for sequences), frozenset (sets, falls back to
tuple when members are unhashable), dict (records and functions; function keys are the parsed
keys when hashable).
"""

import re


class TlaParseError(Exception):
    pass


_TOKEN = re.compile(
    r"""\s*(?:
      (?P<int>-?\d+)
    | (?P<str>"(?:[^"\\]|\\.)*")
    | (?P<sym><<|>>|\|->|:>|@@|\.\.|[\[\]{}(),])
    | (?P<id>[A-Za-z_][A-Za-z0-9_!]*)
    )""",
    re.X,
)


def tokenize(text):
    pos = 0
    out = []
    n = len(text)
    while pos < n:
        m = _TOKEN.match(text, pos)
        if not m:
            if text[pos:].strip() == "":
                break
            raise TlaParseError(f"cannot tokenize at {pos}: {text[pos:pos+40]!r}")
        pos = m.end()
        kind = m.lastgroup
        out.append((kind, m.group(kind)))
    return out


class _P:
    def __init__(self, toks):
        self.t = toks
        self.i = 0

    def peek(self):
        return self.t[self.i] if self.i < len(self.t) else (None, None)

    def next(self):
        tok = self.peek()
        self.i += 1
        return tok

    def expect(self, sym):
        k, v = self.next()
        if v != sym:
            raise TlaParseError(f"expected {sym!r} got {v!r} at token {self.i}")

    def value(self):
        k, v = self.next()
        if k == "int":
            val = int(v)
            if self.peek()[1] == "..":
                self.next()
                hi = self.value()
                return frozenset(range(val, hi + 1))
            return val
        if k == "str":
            return bytes(v[1:-1], "utf-8").decode("unicode_escape")
        if k == "id":
            if v == "TRUE":
                return True
            if v == "FALSE":
                return False
            return v
        if v == "<<":
            items = []
            if self.peek()[1] == ">>":
                self.next()
                return tuple()
            while True:
                items.append(self.value())
                k2, v2 = self.next()
                if v2 == ">>":
                    break
                if v2 != ",":
                    raise TlaParseError(f"bad sequence sep {v2!r}")
            return tuple(items)
        if v == "{":
            items = []
            if self.peek()[1] == "}":
                self.next()
                return frozenset()
            while True:
                items.append(self.value())
                k2, v2 = self.next()
                if v2 == "}":
                    break
                if v2 != ",":
                    raise TlaParseError(f"bad set sep {v2!r}")
            try:
                return frozenset(items)
            except TypeError:
                return tuple(items)
        if v == "[":
            rec = {}
            if self.peek()[1] == "]":
                self.next()
                return rec
            while True:
                k2, name = self.next()
                self.expect("|->")
                rec[name] = self.value()
                k3, v3 = self.next()
                if v3 == "]":
                    break
                if v3 != ",":
                    raise TlaParseError(f"bad record sep {v3!r}")
            return rec
        if v == "(":
            fn = {}
            while True:
                key = self.value()
                self.expect(":>")
                val = self.value()
                try:
                    fn[key] = val
                except TypeError:
                    fn[repr(key)] = val
                k3, v3 = self.next()
                if v3 == ")":
                    break
                if v3 != "@@":
                    raise TlaParseError(f"bad function sep {v3!r}")
            return fn
        raise TlaParseError(f"unexpected token {v!r}")


def parse_value(text):
    p = _P(tokenize(text))
    v = p.value()
    if p.i != len(p.t):
        raise TlaParseError(f"trailing tokens after value: {p.t[p.i:p.i+5]}")
    return v


_STATE_HDR = re.compile(r"^State (\d+):", re.M)


def parse_dump(path, only=None):
    """Parse a TLC `-dump` file into a list of dicts var -> value (only: restrict to these variables)."""
    with open(path) as fh:
        text = fh.read()
    states = []
    parts = _STATE_HDR.split(text)
    # parts = [pre, num, body, num, body, ...]
    for k in range(1, len(parts), 2):
        body = parts[k + 1]
        states.append(parse_state_body(body, only))
    return states


def parse_state_body(body, only=None):
    """Body is '/\\ v1 = val\n/\\ v2 = val ...' or 'v = val'."""
    st = {}
    body = body.strip()
    if not body:
        return st
    # split on conjunct markers at line start
    chunks = re.split(r"(?m)^\s*/\\ ", "\n" + body)
    chunks = [c for c in chunks if c.strip()]
    for c in chunks:
        name, _, val = c.partition("=")
        name = name.strip()
        if only is not None and name not in only:
            continue
        st[name] = parse_value(val.strip())
    return st


def seq(v):
    """Normalise a TLA+ function with domain 1..n printed either as tuple or dict to a list."""
    if isinstance(v, tuple):
        return list(v)
    if isinstance(v, dict):
        return [v[k] for k in sorted(v)]
    raise TypeError(v)
