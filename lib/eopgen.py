"""Independent readers of the IERS data files named by property C03 (tai-utc.dat, finals.all).

Deliberately a different code path from beyond/dates/eop.py: token/regular-expression based, not fixed column
slices, so that a column slip in the library disagrees with the specification's tables."""
import os
import re

_RE_FINALS = re.compile(
    r"^\s*\d{1,2}\s*\d{1,2}\s*\d{1,2}\s+(\d{5})\.\d\d\s+[IP]\s+(-?\d*\.\d+)\s+\d*\.\d+\s+(-?\d*\.\d+)\s+\d*\.\d+\s+[IP]\s*(-?\d*\.\d+)")
_RE_TAIUTC = re.compile(r"=JD\s+(\d+\.\d+)\s+TAI-UTC=\s*(-?\d+\.\d+)\s*S\s*\+\s*\(MJD\s*-\s*(\d+)\.?\s*\)\s*X\s*(\d+\.\d*)\s*S")


def read_tai_utc(path):
    """-> list of (mjd, seconds) steps with zero drift (1972 onwards)."""
    out = []
    for line in open(path, encoding="ascii"):
        m = _RE_TAIUTC.search(line)
        if not m:
            continue
        jd, val, _ref, drift = m.groups()
        mjd = float(jd) - 2400000.5
        if float(drift) != 0.0:
            continue
        assert mjd == int(mjd) and float(val) == int(float(val))
        out.append((int(mjd), int(float(val))))
    return out


def read_ut1_utc(path):
    """-> dict mjd -> UT1-UTC in units of 0.1 microsecond (as printed, 7 decimals)."""
    out = {}
    for line in open(path, encoding="ascii"):
        m = _RE_FINALS.match(line)
        if not m:
            continue
        mjd, _x, _y, dut = m.groups()
        sign = -1 if dut.startswith("-") else 1
        whole, frac = dut.lstrip("-").split(".")
        frac = (frac + "0000000")[:7]
        out[int(mjd)] = sign * (int(whole or 0) * 10**7 + int(frac))
    return out


def read_finals_full(path):
    """-> dict mjd -> {x, y, ut1_utc, lod, d1, d2} (None where the file leaves the field blank).  Column positions transcribed
    from the IERS "readme.finals" (1-based, inclusive): MJD 8-15, PM-x 19-27, PM-y 38-46, UT1-UTC 59-68, LOD 80-86,
    dPsi / dX 98-106, dEps / dY 117-125 - the values of Bulletin A, the ones the library documents it uses."""
    cols = {"x": (19, 27), "y": (38, 46), "ut1_utc": (59, 68), "lod": (80, 86), "d1": (98, 106), "d2": (117, 125)}
    out = {}
    for line in open(path, encoding="ascii"):
        line = line.rstrip("\n")
        try:
            mjd = int(float(line[8 - 1:15]))
        except ValueError:
            continue
        rec = {}
        for k, (a, b) in cols.items():
            txt = line[a - 1:b].strip()
            try:
                rec[k] = float(txt) if txt else None
            except ValueError:
                rec[k] = None
        out[mjd] = rec
    return out


def _chunked_table(name, pairs, size=100):
    """function literal as a balanced union of small @@-chains (a single long chain overflows SANY's stack)."""
    if not pairs:
        return [f"{name} == <<>>"]
    lines = []
    parts = []
    for k in range(0, len(pairs), size):
        pn = f"{name}_{k // size}"
        lines.append(f"{pn} == " + " @@ ".join(f"{a} :> {b}" for a, b in pairs[k:k + size]))
        parts.append(pn)
    while len(parts) > size:
        nxt = []
        for k in range(0, len(parts), size):
            pn = f"{name}_g{len(lines)}"
            lines.append(f"{pn} == " + " @@ ".join(parts[k:k + size]))
            nxt.append(pn)
        parts = nxt
    lines.append(f"{name} == " + " @@ ".join(parts))
    return lines


def eop_module(repo, days):
    """TLA+ module EopData with the tables restricted to `days` (UT1-UTC) and all TAI-UTC steps."""
    pole = os.path.join(repo, "tests", "data", "pole")
    steps = read_tai_utc(os.path.join(pole, "tai-utc.dat"))
    ut1 = read_ut1_utc(os.path.join(pole, "finals.all"))
    days = [d for d in days if d in ut1]
    lines = ["---- MODULE EopData ----", "EXTENDS Integers, Sequences, TLC",
             "\\* generated from tests/data/pole/{tai-utc.dat,finals.all} by /verif/lib/eopgen.py (independent reader)",
             "TaiUtcSteps == <<" + ", ".join(f"<<{m}, {v}>>" for m, v in steps) + ">>",
             f"FirstTableDay == {min(ut1)}", f"LastTableDay == {max(ut1)}",
             *_chunked_table("Ut1UtcTable", [(d, ut1[d]) for d in days]),
             "TableDays == {" + ", ".join(str(d) for d in days) + "}",
             "===="]
    return "\n".join(lines) + "\n", steps, ut1
