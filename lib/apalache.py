"""Minimal runner for Apalache (symbolic model checker for TLA+): one obligation per call."""
import os
import re
import shutil
import subprocess
import tempfile

SPEC = os.path.join(os.path.dirname(os.path.dirname(os.path.abspath(__file__))), "spec")


class ApalacheFailure(Exception):
    pass


def instance_module(name, base, variables, subst):
    """A wrapper module that INSTANCEs `base` with constants substituted by literals (Apalache wants typed VARIABLES)."""
    lines = [f"---- MODULE {name} ----", "EXTENDS Integers", "VARIABLES"]
    decl = []
    for v, ty in variables:
        decl.append(f"  \\* @type: {ty};\n  {v}")
    lines.append(",\n".join(decl))
    lines.append(f"INSTANCE {base} WITH " + ", ".join(f"{k} <- {v}" for k, v in subst.items()))
    lines.append("====")
    return "\n".join(lines) + "\n"


def check(module_name, module_text, init, inv, length, extra_modules=(), extra_texts=None, timeout=600):
    """Returns (holds: bool, seconds, tail of the output).  Raises ApalacheFailure when the tool itself fails."""
    scratch = tempfile.mkdtemp(prefix="verif-apa-")
    try:
        with open(os.path.join(scratch, module_name + ".tla"), "w") as fh:
            fh.write(module_text)
        for m in extra_modules:
            shutil.copy(os.path.join(SPEC, m + ".tla"), scratch)
        for nm, text in (extra_texts or {}).items():
            with open(os.path.join(scratch, nm + ".tla"), "w") as fh:
                fh.write(text)
        env = dict(os.environ)
        env["JAVA_TOOL_OPTIONS"] = (env.get("JAVA_TOOL_OPTIONS", "") + f" -Djava.io.tmpdir={scratch}").strip()
        cmd = ["apalache-mc", "check", f"--init={init}", f"--inv={inv}", f"--length={length}", f"--out-dir={scratch}/out", f"--run-dir={scratch}/run",
               module_name + ".tla"]
        try:
            p = subprocess.run(cmd, cwd=scratch, env=env, capture_output=True, text=True, timeout=timeout)
        except subprocess.TimeoutExpired:
            raise ApalacheFailure(f"apalache timed out after {timeout} s on {module_name} {init} {inv}")
        out = p.stdout + p.stderr
        m = re.search(r"Total time: ([0-9.]+) sec", out)
        secs = float(m.group(1)) if m else 0.0
        if "EXITCODE: OK" in out and "The outcome is: NoError" in out:
            return True, secs, out[-600:]
        if "EXITCODE: ERROR (12)" in out and "invariant" in out and "violated" in out:
            return False, secs, out[-1200:]
        raise ApalacheFailure(f"apalache failed on {module_name} {init} {inv}:\n{out[-3000:]}")
    finally:
        shutil.rmtree(scratch, ignore_errors=True)
