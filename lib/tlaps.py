"""Minimal runner for the TLA+ proof system (tlapm): checks every proof obligation of one module."""
import os
import re
import shutil
import subprocess
import tempfile

SPEC = os.path.join(os.path.dirname(os.path.dirname(os.path.abspath(__file__))), "spec")


class TlapsFailure(Exception):
    pass


def prove(module, extra_modules=(), texts=None, timeout=900):
    """Returns (all proved: bool, number of obligations, seconds, tail).  The module and what it extends are copied to a scratch
    directory (tlapm writes its cache next to the module); `texts` may override / add module texts (self-tests)."""
    import time
    scratch = tempfile.mkdtemp(prefix="verif-tlaps-")
    try:
        for m in (module,) + tuple(extra_modules):
            src = os.path.join(SPEC, m + ".tla")
            if os.path.exists(src):
                shutil.copy(src, scratch)
        for nm, text in (texts or {}).items():
            with open(os.path.join(scratch, nm + ".tla"), "w") as fh:
                fh.write(text)
        t0 = time.time()
        try:
            p = subprocess.run(["tlapm", "--toolbox", "0", "0", "--cleanfp", module + ".tla"], cwd=scratch, capture_output=True, text=True, timeout=timeout)
        except subprocess.TimeoutExpired:
            raise TlapsFailure(f"tlapm timed out after {timeout} s on {module}")
        out = p.stdout + p.stderr
        m = re.search(r"All (\d+) obligations? proved", out)
        if m:
            return True, int(m.group(1)), time.time() - t0, out[-400:]
        m = re.search(r"(\d+)/(\d+) obligations? failed", out)
        if m:
            return False, int(m.group(2)), time.time() - t0, out[-1500:]
        raise TlapsFailure(f"tlapm failed on {module}:\n{out[-3000:]}")
    finally:
        shutil.rmtree(scratch, ignore_errors=True)
