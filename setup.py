#!/venv/bin/python
"""MANIFEST.setup_cmd: offline build of the framework = parse every TLA+ module with SANY, check that the
tooling the checks rely on is present, and run the binding self-tests (a corrupted trace must be rejected)."""
import os
import re
import sys
import subprocess

ROOT = os.path.dirname(os.path.abspath(__file__))
sys.path.insert(0, ROOT)
from lib import tlc  # noqa


def main():
    ok = True
    spec = os.path.join(ROOT, "spec")
    for d in ("evidence", "out"):
        os.makedirs(os.path.join(ROOT, d), exist_ok=True)
    gen = os.path.join(ROOT, "gen.py")
    if os.path.exists(gen):
        rc = subprocess.call(["/venv/bin/python", gen])
        if rc != 0:
            print("generated modules: FAILED")
            ok = False
    mods = sorted(f for f in os.listdir(spec) if f.endswith(".tla"))
    import tempfile, shutil
    scratch = tempfile.mkdtemp(prefix="verif-setup-")
    try:
        for f in mods:
            shutil.copy(os.path.join(spec, f), scratch)
        g = os.path.join(spec, "generated")
        if os.path.isdir(g):
            for f in os.listdir(g):
                if f.endswith(".tla"):
                    shutil.copy(os.path.join(g, f), scratch)
        # modules generated at check time from /repo's data files: a small instance is enough for parsing
        from lib import eopgen
        repo = os.environ.get("VERIF_REPO", "/repo")
        mod, _steps, _ut1 = eopgen.eop_module(repo, list(range(50000, 50010)))
        with open(os.path.join(scratch, "EopData.tla"), "w") as fh:
            fh.write(mod)
        for f in mods:
            if "EXTENDS" in open(os.path.join(scratch, f)).read() and ", TLAPS" in open(os.path.join(scratch, f)).read():
                # a proof module: parsed and checked by the proof system itself (SANY has no TLAPS.tla on its path)
                from lib import tlaps
                try:
                    good, nob, secs, out = tlaps.prove(f[:-4], extra_modules=[m[:-4] for m in mods if m != f and re.search(r"\b" + m[:-4] + r"\b", open(os.path.join(scratch, f)).read())])
                except tlaps.TlapsFailure as e:
                    good, nob, out = False, 0, str(e)
                print(f"tlapm {f}: {'ok, %d obligations proved' % nob if good else 'FAILED'}")
                if not good:
                    print(out[-2000:])
                    ok = False
                continue
            good, out = tlc.sany(os.path.join(scratch, f))
            print(f"sany {f}: {'ok' if good else 'FAILED'}")
            if not good:
                print(out[-2000:])
                ok = False
    finally:
        shutil.rmtree(scratch, ignore_errors=True)
    st = os.path.join(ROOT, "selftest.py")
    if os.path.exists(st):
        rc = subprocess.call(["/venv/bin/python", st])
        print("self-tests (binding demonstrations):", "ok" if rc == 0 else "FAILED")
        ok = ok and rc == 0
    return 0 if ok else 1


if __name__ == "__main__":
    sys.exit(main())
