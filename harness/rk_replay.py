"""Observation of the live Butcher tableaux and replay of RungeKutta.tla on the real KeplerNum._make_step (property C06),
plus the numerical laws (convergence order, tolerance of adaptive methods, invariants, split independence)."""
import json
import math
import sys
from datetime import timedelta
from fractions import Fraction

import numpy as np

from beyond.config import config

config.set("eop", "missing_policy", "pass")

from beyond.dates import Date  # noqa: E402
from beyond.orbits import Orbit  # noqa: E402
from beyond.propagators.keplernum import KeplerNum  # noqa: E402
from beyond.env.solarsystem import get_body  # noqa: E402
sys.path.insert(0, __file__.rsplit("/", 1)[0])
from forms_replay import crt_rational  # noqa: E402

DATE = Date(2019, 3, 2, 10, 0, 0)


def observe():
    """every float of the live tableaux as the unique small rational within 1 ulp"""
    out = {}
    for name, t in KeplerNum.BUTCHER.items():
        def rat(x):
            f = Fraction(float(x)).limit_denominator(10 ** 7)
            if abs(float(f) - float(x)) > abs(float(x)) * 2.3e-16 + 1e-300:
                raise ValueError(f"{name}: {x!r} is not within 1 ulp of a small rational ({f})")
            return [f.numerator, f.denominator]
        a = t["a"]
        rows = [[rat(x) for x in np.atleast_1d(r)] if len(np.atleast_1d(r)) else [] for r in (a if name != "euler" else [[]])]
        out[name] = {"a": rows, "b": [rat(x) for x in t["b"]], "c": [rat(x) for x in t["c"]],
                     "b_star": [rat(x) for x in t["b_star"]] if "b_star" in t else []}
    return out


class LinearField(KeplerNum):
    """the integrator under test, with the force model replaced by x'' = kappa x + g0 + g1 t (per axis); the parameters are
    class attributes so that KeplerNum.copy() (which re-instantiates the class) keeps them"""

    _lin = (0.0, 0.0, 0.0, 0.0)

    def _accel(self, orb):
        kappa, g0, g1, t0 = self._lin
        t = t0 + (orb.date - DATE).total_seconds()
        out = np.zeros(6)
        out[:3] = orb[3:]
        out[3:] = kappa * np.asarray(orb[:3]) + g0 + g1 * t
        return out


def linear_field(step, method, kappa, g0, g1, t0):
    cls = type("LinearFieldInstance", (LinearField,), {"_lin": (kappa, g0, g1, t0)})
    return cls(step, [], method=method)


def main(inp, outp):
    with open(inp) as fh:
        job = json.load(fh)
    if job.get("observe"):
        with open(outp, "w") as fh:
            json.dump(observe(), fh)
        return
    res = {"evaluations": 0, "traces": 0, "clauses": {}, "violations": [], "samples": [], "nontrivial": []}

    def clause(name, ok, key, what, data):
        c = res["clauses"].setdefault(name, {"checked": 0, "failed": 0})
        c["checked"] += 1
        if not ok:
            c["failed"] += 1
            if sum(1 for v in res["violations"] if v["key"] == key) < 4:
                res["violations"].append({"key": key, "what": what, "data": data})

    primes = job.get("primes")
    for v in job.get("steps", []):
        method = v["method"]
        pr = [Fraction(n, d) for n, d in v["prob"]]
        kappa, g0, g1, x0, v0, t0, h = [float(x) for x in pr]
        # the exact result has denominators far beyond what five 15-bit primes can reconstruct: the generic Runge-Kutta step is
        # evaluated here with Fractions from the observed tableau and CERTIFIED against TLC's residues (all five must match)
        tab = job["tableaux"][method]
        A_ = [[Fraction(*x) for x in r] for r in tab["a"]]
        while len(A_) < len(tab["b"]):
            A_.append([])
        B_ = [Fraction(*x) for x in tab["b"]]
        C_ = [Fraction(*x) for x in tab["c"]]
        kq, g0q, g1q, x0q, v0q, t0q, hq = pr
        K = []
        for i in range(len(B_)):
            xs = x0q + hq * sum((A_[i][j] * K[j][0] for j in range(len(A_[i]))), Fraction(0))
            vs = v0q + hq * sum((A_[i][j] * K[j][1] for j in range(len(A_[i]))), Fraction(0))
            K.append((vs, kq * xs + g0q + g1q * (t0q + C_[i] * hq)))
        exact = [x0q + hq * sum(b * k[0] for b, k in zip(B_, K)), v0q + hq * sum(b * k[1] for b, k in zip(B_, K))]
        for m, pp in zip(v["y1"], primes):
            for i in range(2):
                if (exact[i].numerator * pow(exact[i].denominator % pp, -1, pp) - m[i]) % pp:
                    raise SystemExit(f"oracle mismatch: harness Runge-Kutta step disagrees with TLC's residues for {method} {v['prob']}")
        want = [float(exact[0]), float(exact[1])]
        prop = linear_field(timedelta(seconds=h), method, kappa, g0, g1, t0)
        prop.tol = 1e30          # the embedded error estimate never asks for a smaller step here
        orb = Orbit([x0, 2 * x0, -x0, v0, -v0, 3 * v0], DATE, "cartesian", "EME2000", prop)
        prop.orbit = orb
        data = {"method": method, "problem": v["prob"], "how": "harness subclass of KeplerNum with a linear force; prop._make_step(prop.orbit, step)"}
        try:
            step, y = prop._make_step(prop.orbit, prop.step)
        except Exception as e:
            clause("one integration step completes", False, f"rk/raises[{method}]", f"{type(e).__name__}: {e}", data)
            continue
        res["evaluations"] += 1
        res["traces"] += 1
        got = [float(y[0]), float(y[3])]
        sc = max(1.0, abs(want[0]), abs(want[1]))
        # stage dates are timedeltas: c_i * h is rounded to the microsecond, which a time-dependent force sees
        slack = abs(g1) * h * 1e-6 * (1 + h)
        ok = abs(got[0] - want[0]) <= 1e-11 * sc + slack and abs(got[1] - want[1]) <= 1e-11 * sc + slack and abs((y.date - DATE).total_seconds() - h) <= 1e-6
        clause("one step of the real integrator equals the generic Runge-Kutta step of the (verified) tableau on linear problems", ok,
               f"rk/step[{method}]", f"{method}: got x={got[0]!r} v={got[1]!r}, expected x={want[0]!r} v={want[1]!r}", data)
        res["nontrivial"].append(json.dumps([method, v["prob"][0], v["prob"][2]]))
    # ---- force model at Pythagorean points ------------------------------------------------------------------------------
    for pt in job.get("force", []):
        earth = get_body("Earth")
        prop = KeplerNum(timedelta(seconds=60), earth)
        L = 1.0e6
        r = np.array(pt["r"], float) * L
        o = Orbit(list(r) + [1.0, 2.0, 3.0], DATE, "cartesian", "EME2000", prop)
        prop.orbit = o
        acc = prop._accel(prop.orbit)
        nrm = pt["norm"] * L
        want = -earth.mu * r / nrm ** 3
        res["evaluations"] += 1
        clause("point-mass attraction is -mu r / |r|^3 and the position derivative is the velocity", np.linalg.norm(acc[3:] - want) <= 1e-12 * np.linalg.norm(want)
               and np.allclose(acc[:3], [1.0, 2.0, 3.0]), "rk/force", f"r={pt['r']}: {acc.tolist()} expected {want.tolist()}", pt)
    # ---- numerical laws on real orbits -------------------------------------------------------------------------------------
    for case in job.get("laws", []):
        kep = case["kep"]
        earth = get_body("Earth")
        T = 2 * math.pi * math.sqrt(kep[0] ** 3 / earth.mu)

        def run(method, h, tsec, tol=1e-3):
            prop = KeplerNum(timedelta(seconds=h), earth, method=method, tol=tol)
            o = Orbit(kep, DATE, "keplerian", "EME2000", prop).copy(form="cartesian")
            return np.asarray(o.propagate(DATE + timedelta(seconds=tsec)), float)
        ref = np.asarray(Orbit(kep, DATE, "keplerian", "EME2000", "Kepler").propagate(DATE + timedelta(seconds=case["t"])).copy(form="cartesian"), float)
        data = {"kep": kep, "t": case["t"]}
        for method, order in (("euler", 1), ("rk4", 4)):
            hs = case["hs"][method]
            errs = [np.linalg.norm(run(method, h, case["t"])[:3] - ref[:3]) for h in hs]
            ratio = errs[0] / errs[1]
            want = (hs[0] / hs[1]) ** order
            res["evaluations"] += 1
            clause("the error against the analytical solution shrinks at the order of the integrator when the step is halved (x/ 2.5)",
                   want / 2.5 <= ratio <= want * 2.5 and errs[1] < errs[0], f"rk/order[{method}]",
                   f"{method}: errors {errs} for steps {hs}: ratio {ratio:.2f}, expected about {want}", data)
        for method in ("rkf54", "dopri54"):
            for tol in (1e-1, 1e-3):
                # forward and backward targets, nominal steps of 60 s and 120 s (the step control has to work in both directions)
                for tsec, hh in ((case["t"], 60), (-case["t"], 60), (case["t"], 120), (-case["t"], 120)):
                    got = run(method, hh, tsec, tol=tol)
                    refx = np.asarray(Orbit(kep, DATE, "keplerian", "EME2000", "Kepler").propagate(DATE + timedelta(seconds=tsec)).copy(form="cartesian"), float)
                    nsteps = max(1.0, abs(tsec) / float(hh))
                    err = np.linalg.norm(got[:3] - refx[:3])
                    res["evaluations"] += 1
                    clause("adaptive methods stay within a small multiple of their tolerance per step", err <= 20 * tol * nsteps + 1e-3, f"rk/tolerance[{method}]",
                           f"{method} tol {tol}, nominal step {hh} s, target {tsec} s: error {err:.4g} m after {nsteps:.0f} nominal steps", data)
        # adaptive methods, tight tolerances, judged on the raw integration nodes: every accepted step (also the ones that follow
        # a rejected trial) adds at most a small multiple of the tolerance to the error against the analytical solution
        kep_e = [kep[0], max(kep[1], 0.15)] + kep[2:]
        for method in ("rkf54", "dopri54"):
            for tol in (1e-5, 1e-6):
                prop = KeplerNum(timedelta(seconds=150), earth, method=method, tol=tol)
                o = Orbit(kep_e, DATE, "keplerian", "EME2000", prop).copy(form="cartesian")
                prop.orbit = o
                anal = Orbit(kep_e, DATE, "keplerian", "EME2000", "Kepler")
                y, prev_err, worst, rejected = prop.orbit, 0.0, 0.0, 0
                for _k in range(25):
                    real_step, y = prop._make_step(y, prop.step)
                    if real_step < prop.step:
                        rejected += 1
                    refn = np.asarray(anal.propagate(y.date).copy(form="cartesian"), float)
                    err = float(np.linalg.norm(np.asarray(y, float)[:3] - refn[:3]))
                    worst = max(worst, err - prev_err)
                    prev_err = err
                res["evaluations"] += 1
                clause("adaptive methods: each accepted step adds at most 10 x tolerance to the error at the integration nodes (tolerances 1e-5, 1e-6 m)",
                       worst <= 10 * tol + 2e-7, f"rk/node-tolerance[{method}]",
                       f"{method} tol {tol}: one step added {worst:.3g} m ({rejected} of 25 steps followed a rejected trial)", dict(data, kep=kep_e))
        # invariants: energy and angular momentum drift of RK4
        got = run("rk4", 30, case["t"])
        mu = earth.mu
        e0 = np.dot(ref[3:], ref[3:]) / 2 - mu / np.linalg.norm(ref[:3])
        e1 = np.dot(got[3:], got[3:]) / 2 - mu / np.linalg.norm(got[:3])
        h0 = np.cross(ref[:3], ref[3:])
        h1 = np.cross(got[:3], got[3:])
        res["evaluations"] += 1
        clause("energy and angular momentum drift stay within the integration error bound (RK4, 30 s)", abs(e1 - e0) <= 1e-6 * abs(e0) and np.linalg.norm(h1 - h0) <= 1e-6 * np.linalg.norm(h0),
               "rk/invariants", f"energy drift {abs(e1 - e0) / abs(e0):.3g}, momentum drift {np.linalg.norm(h1 - h0) / np.linalg.norm(h0):.3g}", data)
        # the state at a date does not depend on the output step or on how the request is split
        prop = KeplerNum(timedelta(seconds=60), earth)
        o = Orbit(kep, DATE, "keplerian", "EME2000", prop).copy(form="cartesian")
        tgt = DATE + timedelta(seconds=1320)
        direct = np.asarray(o.propagate(tgt), float)
        its = {}
        for outstep in (60, 30, 120, 40):
            st = prop.step if outstep == 60 else timedelta(seconds=outstep)
            for p in o.iter(start=DATE, stop=timedelta(seconds=1440), step=st):
                if abs((p.date - tgt).total_seconds()) < 1e-6:
                    its[outstep] = np.asarray(p, float)
        res["evaluations"] += 1
        worst = max([np.linalg.norm(v[:3] - direct[:3]) for v in its.values()] + [0.0])
        clause("the state returned for a date does not depend on the output step or on propagate-vs-iterate (3 cm)", len(its) >= 3 and worst <= 3e-2,
               "rk/split-independence", f"output steps {sorted(its)}: worst difference {worst:.4g} m", data)
        # a target date is an instant: the same instant carried by a Date of another time scale gives the same state
        for method, hh in (("rk4", 60), ("dopri54", 60), ("euler", 10)):
            for sgn in (1, -1):
                tsec = sgn * (0.37 * T if method == "euler" else 1.3 * T)
                tgt_utc = DATE + timedelta(seconds=tsec)
                base = run(method, hh, tsec)
                for sc in ("TT", "GPS", "TAI", "TDB"):
                    propx = KeplerNum(timedelta(seconds=hh), earth, method=method, tol=1e-3)
                    ox = Orbit(kep, DATE, "keplerian", "EME2000", propx).copy(form="cartesian")
                    gotx = ox.propagate(tgt_utc.change_scale(sc))
                    res["evaluations"] += 1
                    dd = float(np.linalg.norm(np.asarray(gotx, float)[:3] - base[:3]))
                    dtt = abs((gotx.date - tgt_utc).total_seconds())
                    clause("a target date given in another time scale (same instant) gives the same state, dated at that instant (5 cm, 2 us)",
                           dd <= 5e-2 and dtt <= 2e-6, f"rk/target-scale[{sc}]",
                           f"{method} {hh} s, target {tsec:.0f} s in {sc}: {dd:.4g} m from the UTC-dated request, date off by {dtt:.3g} s", data)
        for sgn in (1, -1):
            one = np.asarray(o.propagate(DATE + timedelta(seconds=sgn * 2 * T)), float)
            half = o.propagate(DATE + timedelta(seconds=sgn * T))
            two = np.asarray(Orbit(np.asarray(half), half.date, "cartesian", "EME2000", KeplerNum(timedelta(seconds=60), earth)).propagate(DATE + timedelta(seconds=sgn * 2 * T)), float)
            res["evaluations"] += 1
            clause("forward and backward targets: splitting the request changes the result by interpolation / truncation error only (2 m over 2 orbits)",
                   np.linalg.norm(one[:3] - two[:3]) <= 2.0, "rk/split-composition", f"direction {sgn}: {np.linalg.norm(one[:3] - two[:3]):.4g} m", data)
    # ---- the tolerance configured by the user is the one in force after the orbit is copied / converted, and when a propagation is
    # continued from an orbit that was returned (its own attached propagator).  RKF54 with 90 s nominal steps and tol = 1e-6 m: steps are
    # rejected and shortened under that tolerance, never under the default one (1e-3), and the two differ by 25-90 mm after 60 steps.
    # Allowance 12 mm on top of 20 x tol per nominal step: the target falls inside the LAST interval of the integration table (one-sided
    # Lagrange window: 1-4 mm at 90 s nodes for these orbits) and dates are float MJDs (0.6 us x 7.5 km/s = 4.5 mm).  Measured on the
    # repaired tree: <= 6.9 mm; with the propagator copy losing its tolerance: >= 23.6 mm.
    for kepx in ([7000e3, 0.1, 0.9, 1, 2, 0.5], [8000e3, 0.15, 0.4, 1, 2, 2.5], [6900e3, 0.001, 1.7, 0, 0, 0]) if job.get("tolerance_kept") else ():
        earth = get_body("Earth")
        for sgn in (1, -1):
            hh, tol, n1, n2 = 90, 1e-6, 20, 60
            propc = KeplerNum(timedelta(seconds=hh), earth, method="rkf54", tol=tol)
            oc = Orbit(kepx, DATE, "keplerian", "EME2000", propc).copy(form="cartesian")
            truth = np.asarray(Orbit(kepx, DATE, "keplerian", "EME2000", "Kepler").propagate(DATE + timedelta(seconds=sgn * n2 * hh)).copy(form="cartesian"), float)
            direct = np.asarray(oc.propagate(DATE + timedelta(seconds=sgn * n2 * hh)), float)
            first = oc.propagate(DATE + timedelta(seconds=sgn * n1 * hh))
            second = np.asarray(first.propagate(DATE + timedelta(seconds=sgn * n2 * hh)), float)
            e1, e2 = float(np.linalg.norm(direct[:3] - truth[:3])), float(np.linalg.norm(second[:3] - truth[:3]))
            res["evaluations"] += 1
            bound = 20 * tol * n2 + 12e-3
            clause("the tolerance given to an adaptive propagator stays in force when the orbit is copied / converted and when a propagation is continued "
                   "from a returned orbit (20 x tol per nominal step + 12 mm)", e1 <= bound and e2 <= bound, "rk/tolerance-kept[rkf54]",
                   f"rkf54, 90 s, tol 1e-6, direction {sgn}, orbit {kepx[:3]}: error of the direct request {e1 * 1e3:.1f} mm, of the request split at step {n1} and "
                   f"continued from the returned orbit {e2 * 1e3:.1f} mm (allowed {bound * 1e3:.1f} mm)", {"kep": kepx, "direction": sgn})
    # ---- the integrator may be named in any letter case (the constructor lower-cases it): 'DOPRI54' is dopri54, step control included
    if job.get("tolerance_kept"):
        earth = get_body("Earth")
        kepx = [2.66e7, 0.7, 1.1, 0.3, 4.7, 0.2]
        for low, other in (("rkf54", "RKF54"), ("dopri54", "Dopri54"), ("rk4", "RK4"), ("euler", "Euler")):
            outs = []
            for name in (low, other):
                propc = KeplerNum(timedelta(seconds=120 if low != "euler" else 10), earth, method=name, tol=1e-5)
                oc = Orbit(kepx, DATE, "keplerian", "EME2000", propc).copy(form="cartesian")
                first = oc.propagate(DATE + timedelta(seconds=2400))
                outs.append(np.asarray(first.propagate(DATE + timedelta(seconds=6000)), float))
            dd = float(np.linalg.norm(outs[0][:3] - outs[1][:3]))
            res["evaluations"] += 1
            clause("the integrator named in another letter case is the same integrator (identical result, step control included)", dd <= 1e-9,
                   f"rk/method-spelling[{low}]", f"method='{other}' differs from method='{low}' by {dd:.4g} m (120 s steps, tol 1e-5, eccentric orbit through perigee)",
                   {"kep": kepx, "spellings": [low, other]})
    res["nontrivial"] = sorted(set(res["nontrivial"]))[:300]
    with open(outp, "w") as fh:
        json.dump(res, fh)


if __name__ == "__main__":
    main(sys.argv[1], sys.argv[2])
