"""Replay of Session.tla: behaviours of a user session on the real library; after EVERY action EVERY live object is compared
with what the model says it denotes, against one oracle: the analytical two-body state of its trajectory at its tick."""
import json
import os
import pickle
import sys
from datetime import timedelta

import numpy as np

from beyond.config import config


def main(inp, outp):
    with open(inp) as fh:
        job = json.load(fh)
    config.update({"eop": {"folder": os.path.join(job["repo"], "tests", "data", "pole"), "type": "all", "missing_policy": "pass"}})
    from beyond.dates import Date
    from beyond.orbits import Orbit, StateVector, Ephem
    from beyond.io import ccsds

    EPOCH = Date(2018, 5, 4, 12, 0, 0)
    TICK = timedelta(seconds=30)
    KEP = {1: [7.2e6, 0.02, 0.9, 1.0, 2.0, 0.7], 2: [9.0e6, 0.2, 2.0, 3.0, 1.0, 4.2], 3: [2.66e7, 0.7, 1.1, 0.3, 4.7, 0.4]}
    res = {"evaluations": 0, "traces": 0, "clauses": {}, "violations": [], "samples": [], "nontrivial": []}

    def clause(name, ok, key, what, data):
        c = res["clauses"].setdefault(name, {"checked": 0, "failed": 0})
        c["checked"] += 1
        if not ok:
            c["failed"] += 1
            if sum(1 for v in res["violations"] if v["key"] == key) < 4:
                res["violations"].append({"key": key, "what": what, "data": data})

    truth_cache = {}
    # body states computed in ANOTHER process (no cache of this one can have touched them)
    body_table = {}
    if job.get("body_ticks"):
        import subprocess
        code = ("import json,sys,os\nfrom datetime import timedelta\nfrom beyond.config import config\n"
                "config.update({'eop': {'folder': os.path.join(sys.argv[1], 'tests', 'data', 'pole'), 'type': 'all', 'missing_policy': 'pass'}})\n"
                "from beyond.dates import Date\nfrom beyond.env.solarsystem import get_body\nimport numpy as np\n"
                "E=Date(2018,5,4,12,0,0); out={}\n"
                "for b in ('Sun','Moon'):\n"
                "    for t in json.loads(sys.argv[2]):\n"
                "        o=get_body(b).propagate(E+timedelta(seconds=30*t)); out[b+':'+str(t)]=[o.frame.name]+[float(x) for x in np.asarray(o.copy(form='cartesian'),float)]\n"
                "print(json.dumps(out))\n")
        penv = dict(os.environ)
        outp_ = subprocess.run([sys.executable, "-c", code, job["repo"], json.dumps(job["body_ticks"])], capture_output=True, text=True, env=penv)
        body_table = json.loads(outp_.stdout.strip().splitlines()[-1])
    from beyond.env.solarsystem import get_body
    from beyond.frames.stations import create_station
    from beyond.utils.measures import Range, Azimut, Elevation, Doppler
    stations = {1: create_station("VfSes1", (43.6, 1.44, 172.0)), 2: create_station("VfSes2", (-33.9, 18.4, 50.0))}

    def truth(traj, t):
        if (traj, t) not in truth_cache:
            o = Orbit(KEP[traj], EPOCH, "keplerian", "EME2000", "Kepler").propagate(EPOCH + TICK * t)
            truth_cache[(traj, t)] = np.asarray(o.copy(form="cartesian", frame="EME2000"), float)
        return truth_cache[(traj, t)]

    span_s = job.get("span_ticks", 40) * TICK.total_seconds()
    kinds = set()

    def check_state(sv, m, t, data, label):
        """sv: a real state; m: the model record; t: the tick it must be at"""
        want = truth(m["traj"], t)
        got = np.asarray(sv.copy(form="cartesian", frame="EME2000"), float)
        tol_p = 1e-3 + m["nl"] * (2e-3 + 1.5e-3 * span_s) + m["ni"] * 5e-2        # interpolation: "within centimetres" (C09)
        tol_v = 1e-6 + m["nl"] * 2e-3 + m["ni"] * 2e-4
        dp, dv = float(np.linalg.norm(got[:3] - want[:3])), float(np.linalg.norm(got[3:] - want[3:]))
        dt = abs((sv.date - (EPOCH + TICK * t)).total_seconds())
        ok = dp <= tol_p and dv <= tol_v and dt <= 2e-6
        clause("every object is the state of ITS trajectory at ITS tick (two-body oracle), whatever calls produced it", ok, "session/state",
               f"{label}: {dp:.4g} m, {dv:.4g} m/s from trajectory {m['traj']} at tick {t} (tolerance {tol_p:.3g} m), date off by {dt:.3g} s", data)
        meta = sv.frame.name == m["frame"] and sv.form.name == m["form"] and sv.date.scale.name == m["lab"]
        clause("frame, form and date label are those the calls imply", meta, "session/metadata",
               f"{label}: frame {sv.frame.name} form {sv.form.name} label {sv.date.scale.name}, expected {m['frame']} {m['form']} {m['lab']}", data)
        return ok and meta

    for beh in job["behaviours"]:
        hist, heaps = beh["hist"], beh["heaps"]
        objs = [Orbit(KEP[1], EPOCH, "keplerian", "EME2000", "Kepler")]
        data = {"hist": hist, "how": "harness/session_replay.py: new = Orbit(kep, epoch, 'keplerian', 'EME2000', 'Kepler'); copyconv = o.copy(frame=, form=); "
                                     "setframe/setform = attribute assignment; relabel: o.date = o.date.change_scale(l); propagate(epoch + t*30 s); "
                                     "tabulate = o.ephem(start=o.date, stop=timedelta, step=timedelta); interpolate = e.interpolate(date); "
                                     "ephemconv = e.copy(frame=, form=); dump/load = ccsds.dumps(o, fmt=) / loads; pickle"}
        res["traces"] += 1
        ok_all = True
        for step, (act, heap) in enumerate(zip(hist, heaps)):
            op, i, x, y = act
            try:
                o = objs[i - 1] if op != "new" else None
                if op == "new":
                    objs.append(Orbit(KEP[i], EPOCH, "keplerian", "EME2000", "Kepler"))
                elif op == "copyconv":
                    objs.append(o.copy(frame=x, form=y))
                elif op == "setframe":
                    o.frame = x
                elif op == "setform":
                    o.form = x
                elif op == "relabel":
                    o.date = o.date.change_scale(x)
                elif op == "propagate":
                    d = EPOCH + TICK * x
                    objs.append(o.propagate(d if y == "UTC" else d.change_scale(y)))
                elif op == "asorbit":
                    objs.append(o.as_orbit("Kepler"))
                elif op == "tabulate":
                    objs.append(o.ephem(start=o.date, stop=TICK * x, step=TICK * y))
                elif op == "interpolate":
                    objs.append(o.interpolate(o.start + TICK * x))
                elif op == "ephemconv":
                    objs.append(o.copy(frame=x, form=y))
                elif op == "ephemset":
                    if o.frame.name != x:
                        o.frame = x
                    if o.form.name != y:
                        o.form = y
                elif op == "dump":
                    objs.append(ccsds.dumps(o, fmt=x))
                elif op == "load":
                    objs.append(ccsds.loads(o))
                elif op == "pickle":
                    objs.append(pickle.loads(pickle.dumps(o)))
                elif op == "measure":
                    sta = stations[x]
                    path = (sta, "sat")
                    got_m = [Range(path, o.date, 0).from_orbit(o).value, Azimut(path, o.date, 0).from_orbit(o).value,
                             Elevation(path, o.date, 0).from_orbit(o).value, Doppler(path, o.date, 0).from_orbit(o).value]
                    m_ = heaps[step][i - 1]
                    tru = StateVector(truth(m_["traj"], m_["t"]), EPOCH + TICK * m_["t"], "cartesian", "EME2000").copy(frame=sta, form="spherical")
                    want_m = [float(tru.r), float(tru.theta), float(tru.phi), float(tru.r_dot)]
                    tolr = 1e-3 + m_["nl"] * (2e-3 + 1.5e-3 * span_s) + m_["ni"] * 5e-2
                    okm = abs(got_m[0] - want_m[0]) <= tolr and abs(got_m[3] - want_m[3]) <= 1e-5 + m_["nl"] * 3e-3 + m_["ni"] * 2e-4 and all(
                        abs((got_m[q] - want_m[q] + np.pi) % (2 * np.pi) - np.pi) <= (tolr + 1e-3) / max(want_m[0], 1.0) + 1e-9 for q in (1, 2))
                    clause("measures of an object from a station are the topocentric quantities of what the object denotes, whatever was measured before",
                           okm, "session/measure", f"step {step + 1} {act}: {got_m} expected {want_m}", data)
                elif op == "body":
                    bname, lab_, mut = y
                    d_ = EPOCH + TICK * x
                    st_ = get_body(bname).propagate(d_ if lab_ == "UTC" else d_.change_scale(lab_))
                    ref_ = body_table[f"{bname}:{x}"]
                    got_b = np.asarray(st_.copy(form="cartesian"), float)
                    # labels other than UTC: the instant is the same to the microsecond; the body moves by |v| x 2 us at most
                    tol_b = 1e-9 * np.linalg.norm(ref_[1:4]) + 2e-6 * np.linalg.norm(ref_[4:7]) + 1e-6
                    clause("an analytical body's state at a date does not depend on what was asked, or done to earlier answers, before",
                           st_.frame.name == ref_[0] and np.linalg.norm(got_b[:3] - np.asarray(ref_[1:4])) <= tol_b
                           and np.linalg.norm(got_b[3:] - np.asarray(ref_[4:7])) <= 1e-7 * max(1.0, np.linalg.norm(ref_[4:7])),
                           "session/body", f"step {step + 1} {act}: {bname} differs from the state computed in a fresh process by "
                           f"{np.linalg.norm(got_b[:3] - np.asarray(ref_[1:4])):.4g} m, {np.linalg.norm(got_b[3:] - np.asarray(ref_[4:7])):.4g} m/s", data)
                    if mut == "frame":
                        st_.frame = "ITRF"
                    elif mut == "form":
                        st_.form = "spherical"
                else:
                    raise ValueError(op)
            except Exception as e:
                clause("every call of a session completes", False, f"session/raises[{op}]", f"step {step + 1} {act} raised {type(e).__name__}: {e}", data)
                ok_all = False
                break
            res["evaluations"] += 1
            kinds.add(op)
            if len(objs) != len(heap):
                clause("the heap has the objects the calls created", False, "session/heap", f"{len(objs)} objects, model has {len(heap)}", data)
                ok_all = False
                break
            for k, (obj, m) in enumerate(zip(objs, heap), start=1):
                label = f"after step {step + 1} {act}, object {k}"
                if m["kind"].startswith("text"):
                    clause("a dump is a text", isinstance(obj, str), "session/text", f"{label}: {type(obj).__name__}", data)
                elif m["kind"] in ("orbit", "sv"):
                    is_orbit = isinstance(obj, Orbit)
                    if not isinstance(obj, StateVector) or is_orbit != (m["kind"] == "orbit"):
                        clause("calls return an Orbit (with a propagator) or a bare StateVector as documented", False, "session/kind",
                               f"{label}: {type(obj).__name__}, model says {m['kind']}", data)
                        ok_all = False
                        continue
                    ok_all &= check_state(obj, m, m["t"], data, label)
                else:
                    if not isinstance(obj, Ephem):
                        clause("an ephemeris is an ephemeris", False, "session/kind", f"{label}: {type(obj).__name__}", data)
                        ok_all = False
                        continue
                    nodes = list(obj)
                    same = len(nodes) == len(m["ts"])
                    clause("an ephemeris has the nodes of its range", same, "session/ephem-nodes", f"{label}: {len(nodes)} nodes, expected ticks {m['ts']}", data)
                    if same:
                        for sv, t in list(zip(nodes, m["ts"]))[:: max(1, len(nodes) // 4)]:
                            ok_all &= check_state(sv, m, t, data, label + f" node {t}")
                    else:
                        ok_all = False
            if not ok_all:
                break
        if len(res["samples"]) < 2:
            res["samples"].append({"hist": hist})
    res["nontrivial"] = sorted(kinds)
    with open(outp, "w") as fh:
        json.dump(res, fh)


if __name__ == "__main__":
    main(sys.argv[1], sys.argv[2])
