"""Replay CovFrames.tla behaviours on real Cov / StateVector objects in synthetic exact frames, and law-driven
path-independence walks on the built-in frames (property C14)."""
import json
import sys

import numpy as np

from beyond.config import config

config.set("eop", "missing_policy", "pass")

from beyond.dates import Date  # noqa: E402
from beyond.orbits import StateVector  # noqa: E402
from beyond.orbits.cov import Cov  # noqa: E402
from beyond.frames import frames as fr  # noqa: E402
import synth  # noqa: E402

DATE = Date(2016, 5, 4, 12, 30, 17)


def clause_fn(res):
    def clause(name, ok, key, what, data):
        c = res["clauses"].setdefault(name, {"checked": 0, "failed": 0})
        c["checked"] += 1
        if not ok:
            c["failed"] += 1
            if sum(1 for v in res["violations"] if v["key"] == key) < 4:
                res["violations"].append({"key": key, "what": what, "data": data})
    return clause


def local_mat(name, p, v):
    p = np.asarray(p, float)
    v = np.asarray(v, float)
    w = np.cross(p, v)
    w /= np.linalg.norm(w)
    if name == "QSW":
        q = p / np.linalg.norm(p)
        return np.array([q, np.cross(w, q), w])
    t = v / np.linalg.norm(v)
    return np.array([t, np.cross(w, t), w])


def run_synth(job, res):
    clause = clause_fn(res)
    rot = job["Rot"]
    frames = {1: fr.EME2000}
    for k in range(2, len(rot) + 1):
        frames[k] = synth.synth_frame(f"VfC{k}", rot[k - 1], reverse=(k % 2 == 0))
    c0 = np.array(job["C0"], dtype=float)
    scale = np.abs(c0).max()
    pos = 7.0e6 * np.array(job["Pos"], float)
    vel = 7.5e3 * np.array(job["Vel"], float)
    kinds = set()
    for b in job["behaviours"]:
        sv = StateVector(list(pos) + list(vel), DATE, "cartesian", fr.EME2000).copy(frame=frames[job["Attach"]])
        sv.cov = Cov(sv, c0, frames[job["Attach"]])
        data = {"attach": job["Attach"], "hist": b["hist"], "Rot": rot, "how": "state along Pos/Vel axes in EME2000 expressed in the "
                "attachment frame; sv.cov = Cov(sv, C0, frame); then cov.frame = t / sv.frame = t in sequence"}
        try:
            for kind, t in b["hist"]:
                tgt = t if isinstance(t, str) else frames[t]
                if kind == "cov":
                    sv.cov.frame = tgt
                else:
                    sv.frame = tgt
        except Exception as e:
            clause("frame changes of a covariance complete", False, "cov/raises", f"{type(e).__name__}: {e} after {b['hist']}", data)
            continue
        res["evaluations"] += 1
        res["traces"] += 1
        got = np.asarray(sv.cov, dtype=float)
        want = np.array(b["expected"], dtype=float)
        cur = sv.cov.frame if isinstance(sv.cov.frame, str) else sv.cov.frame.name
        wantf = b["cf"] if isinstance(b["cf"], str) else frames[b["cf"]].name
        nloc = sum(1 for k, t in b["hist"] if isinstance(t, str))
        kinds.add((len(b["hist"]), nloc, any(k == "state" for k, _ in b["hist"])))
        err = float(np.abs(got - want).max())
        ok = err <= 1e-9 * scale and cur == wantf
        single = len(b["hist"]) == 1
        key = "cov/single-hop" if single else ("cov/state-follow" if any(k == "state" for k, _ in b["hist"]) else "cov/path-dependent")
        clause("covariance in the target frame equals J C0 J^T for the rotation J of the target only (exact integers)", ok, key,
               f"after {b['hist']}: max error {err:.3g} (frame {cur}, expected {wantf}); model-says-ok={b['model_ok']}", data)
        clause("result stays symmetric", np.allclose(got, got.T, atol=1e-9 * scale), "cov/asymmetric", f"after {b['hist']}", data)
        ev0 = np.sort(np.linalg.eigvalsh(c0[:3, :3]))
        ev = np.sort(np.linalg.eigvalsh((got[:3, :3] + got[:3, :3].T) / 2))
        clause("eigenvalues of the position block are unchanged", np.allclose(ev, ev0, rtol=1e-9, atol=1e-9 * scale),
               "cov/eigenvalues" if single else key, f"after {b['hist']}: {ev} vs {ev0}", data)
        if len(res["samples"]) < 2 and len(b["hist"]) >= 2:
            res["samples"].append({"hist": b["hist"], "expected_first_row": b["expected"][0], "got_first_row": [float(x) for x in got[0]]})
    res["nontrivial"] += [json.dumps(["synth"] + list(map(int, k))) for k in sorted(kinds)]


def run_builtin(job, res):
    """Law-driven: on the built-in frames the token of a target is the matrix obtained by ONE hop from a fresh object."""
    clause = clause_fn(res)
    rng = np.random.default_rng(job["seed"])
    L = rng.normal(size=(6, 6)) * np.array([30.0, 30, 30, 0.03, 0.03, 0.03])[:, None]
    c0 = L @ L.T
    # near-circular ascending, eccentric descending (r.v < 0: QSW and TNW differ by a sizeable flight-path angle), Molniya-like
    keps = [[7.2e6, 0.02, 0.9, 1.0, 2.0, 0.7], [1.2e7, 0.3, 0.9, 1.0, 2.0, 4.0], [2.66e7, 0.7, 1.1, 0.3, 4.7, 5.4], [9.0e6, 0.2, 2.0, 3.0, 1.0, 2.2]]
    kep = keps[0]
    kinds = set()
    for wi, w in enumerate(job["walks"]):
        start = w["start"]
        kep = keps[wi % len(keps)]

        def fresh():
            sv = StateVector(kep, DATE, "keplerian", "EME2000").copy(frame=start, form="cartesian")
            sv.cov = Cov(sv, c0, fr.get_frame(start))
            return sv
        sv = fresh()
        data = {"start": start, "walk": w["targets"], "kep": kep, "how": "Cov on a cartesian state (keplerian elements kep in EME2000) expressed in "
                "`start`; cov.frame = t for t in walk; compared with one hop from a fresh object"}
        acts = w.get("acts") or [["cov", t] for t in w["targets"]]
        data["acts"] = acts
        try:
            for ai, (kind, t) in enumerate(acts):
                if kind == "cov":
                    # the doors to a covariance frame change, in turn: the setter (frame name / Frame object) and copy(frame=)
                    door = (wi + ai) % 3
                    if door == 0 or (door == 1 and t in ("QSW", "TNW")):
                        sv.cov.frame = t
                    elif door == 1:
                        sv.cov.frame = fr.get_frame(t)
                    else:
                        sv.cov = sv.cov.copy(frame=t)
                else:
                    sv.frame = t          # the state itself changes frame; a covariance in the state's frame follows
        except Exception as e:
            clause("frame changes of a covariance complete", False, "cov/raises", f"{type(e).__name__}: {e} on {w}", data)
            continue
        res["evaluations"] += 1
        res["traces"] += 1
        last = w.get("cf", w["targets"][-1])     # frame the covariance must end in according to the specification
        cur = sv.cov.frame if isinstance(sv.cov.frame, str) else sv.cov.frame.name
        if cur != last:
            clause("the covariance ends in the frame the specification says", False, "cov/state-follow",
                   f"{start} {acts}: covariance in {cur}, expected {last}", data)
            continue
        ref = fresh()
        if last != start:
            ref.cov.frame = last
        got, want = np.asarray(sv.cov, float), np.asarray(ref.cov, float)
        sc = np.sqrt(np.outer(np.diag(want), np.diag(want)))
        err = float((np.abs(got - want) / sc).max())
        loc = [t for t in w["targets"] if t in ("QSW", "TNW")]
        key = "cov/path-dependent" if (last in ("QSW", "TNW") or loc) else "cov/path-dependent-regular"
        if any(k == "state" for k, _t in acts):
            key = "cov/state-follow"
        kinds.add((start, len(w["targets"]), last in ("QSW", "TNW")))
        clause("built-in frames: the covariance depends only on the target frame, not on the frames visited before", err <= 1e-7,
               key, f"walk {start}->{w['targets']}: relative deviation {err:.3g} from the one-hop result", data)
        # single hop judged as J C J^T with J obtained independently of cov.py
        if len(acts) == 1 and acts[0][0] == "cov":
            s0 = fresh()
            if last in ("QSW", "TNW"):
                j3 = local_mat(last, s0[:3], s0[3:])
                J = np.zeros((6, 6))
                J[:3, :3] = j3
                J[3:, 3:] = j3
            else:
                cols = []
                for k in range(6):
                    e = np.zeros(6)
                    e[k] = 1.0
                    a = StateVector(e, DATE, "cartesian", start).copy(frame=last)
                    cols.append(np.asarray(a, float))
                J = np.array(cols).T
            exp = J @ c0 @ J.T
            sc2 = np.sqrt(np.outer(np.diag(exp), np.diag(exp)))
            err2 = float((np.abs(want - exp) / sc2).max())
            clause("built-in frames: one hop equals J C J^T with J the state map of the frame change", err2 <= 1e-7, "cov/single-hop",
                   f"{start}->{last}: relative deviation {err2:.3g}", data)
            back = fresh()
            back.cov.frame = last
            back.cov.frame = start
            err3 = float((np.abs(np.asarray(back.cov, float) - c0) / np.sqrt(np.outer(np.diag(c0), np.diag(c0)))).max())
            clause("converting back restores the original matrix", err3 <= 1e-7, "cov/restore", f"{start}->{last}->{start}: {err3:.3g}", data)
            ev = np.linalg.eigvalsh((want + want.T) / 2)
            clause("result is positive semi-definite", ev.min() >= -1e-9 * ev.max(), "cov/not-psd", f"{start}->{last}: min eig {ev.min()}", data)
            if last not in ("ITRF", "PEF", "TIRF"):
                e0 = np.sort(np.linalg.eigvalsh(c0[:3, :3]))
                e1 = np.sort(np.linalg.eigvalsh((want[:3, :3] + want[:3, :3].T) / 2))
                clause("eigenvalues of the position block are unchanged", np.allclose(e0, e1, rtol=1e-8), "cov/eigenvalues",
                       f"{start}->{last}: {e1} vs {e0}", data)
    # a covariance expressed in its state's frame follows the state
    for start, tgt in job.get("follow", []):
        sv = StateVector(kep, DATE, "keplerian", "EME2000").copy(frame=start, form="cartesian")
        sv.cov = Cov(sv, c0, fr.get_frame(start))
        ref = sv.copy()
        ref.cov.frame = tgt
        sv.frame = tgt
        res["evaluations"] += 1
        want = np.asarray(ref.cov, float)
        got = np.asarray(sv.cov, float)
        okf = (sv.cov.frame if isinstance(sv.cov.frame, str) else sv.cov.frame.name) == tgt
        sc = np.sqrt(np.outer(np.diag(want), np.diag(want)))
        clause("a covariance in its state's frame follows the state's frame change", okf and float((np.abs(got - want) / sc).max()) <= 1e-7,
               "cov/state-follow", f"{start}: state.frame = {tgt}; cov frame {sv.cov.frame}", {"start": start, "target": tgt})
    # a covariance object built with one state and attached (state.cov = cov) to ANOTHER state of the same date and frame - the
    # state after an impulsive burn, a second object at the same epoch: local orbital axes are those of the state it is attached to
    if job.get("follow"):
        for ki, kep_ in enumerate(keps):
            for start in ("EME2000", "GCRF", "TOD"):
                a_ = StateVector(kep_, DATE, "keplerian", "EME2000").copy(frame=start, form="cartesian")
                a_.cov = Cov(a_, c0, fr.get_frame(start))
                b_ = a_.copy()
                del b_.cov
                b_[3:] = np.asarray(b_[3:], float) + np.array([120.0, -340.0, 75.0])          # after a burn
                b_[:3] = np.asarray(b_[:3], float) + np.array([2.0e4, 1.0e4, -3.0e4])
                b_.cov = a_.cov.copy()
                for tgt in ("QSW", "TNW"):
                    fresh = b_.copy()
                    del fresh.cov
                    fresh.cov = Cov(fresh, c0, fr.get_frame(start))
                    fresh.cov.frame = tgt
                    mine = b_.copy()
                    mine.cov.frame = tgt
                    want = np.asarray(fresh.cov, float)
                    got = np.asarray(mine.cov, float)
                    sc = np.sqrt(np.outer(np.diag(want), np.diag(want)))
                    res["evaluations"] += 1
                    clause("a covariance attached to another state of the same date and frame uses THAT state's local orbital axes",
                           float((np.abs(got - want) / sc).max()) <= 1e-9, "cov/attached-to-other-state",
                           f"{start}->{tgt}: relative deviation {float((np.abs(got - want) / sc).max()):.3g} from a covariance built on the state itself",
                           {"start": start, "target": tgt, "kep": kep_})
    # ---- a covariance RE-ATTACHED to its state after the state changed frame (a copy kept as a backup and put back, `sv.cov = sv.cov.copy()`):
    # it is still the covariance of that state, and converts as one that was never detached
    if job.get("follow"):
        for start in ("EME2000", "GCRF", "TOD"):
            for moved in ("ITRF", "MOD", "PEF"):
                for last in ("QSW", "TNW", start, "TEME"):
                    def fresh2():
                        s_ = StateVector(keps[1], DATE, "keplerian", "EME2000").copy(frame=start, form="cartesian")
                        s_.cov = Cov(s_, c0, fr.get_frame(start))
                        return s_
                    ref = fresh2()
                    ref.cov.frame = last
                    want = np.asarray(ref.cov, float)
                    sc = np.sqrt(np.outer(np.diag(want), np.diag(want)))
                    mine = fresh2()
                    mine.frame = moved                 # the covariance follows its state
                    mine.cov = mine.cov.copy()         # detached and put back
                    res["evaluations"] += 1
                    try:
                        mine.cov.frame = last
                        dev = float((np.abs(np.asarray(mine.cov, float) - want) / sc).max())
                        okr, msg = dev <= 1e-7, f"relative deviation {dev:.3g} from the covariance that was never detached"
                    except Exception as e:
                        okr, msg = False, f"{type(e).__name__}: {e}"
                    clause("a covariance put back on its state after the state changed frame converts as one that was never detached", okr, "cov/reattached",
                           f"state {start} -> {moved}, cov = cov.copy(), cov -> {last}: {msg}", {"start": start, "moved": moved, "target": last})
    # ---- ways of SUPPLYING the covariance: the frame by name (the constructor's documented argument type) or as a Frame object, the
    # matrix as a float array, nested lists, an integer-valued array, or another Cov object (which must stay independent)
    if job.get("follow"):
        ci = np.diag([400, 900, 100, 4, 1, 9]) + 3 * np.ones((6, 6), dtype=int)          # integer-valued, symmetric, positive definite
        for start in ("EME2000", "GCRF", "TOD"):
            sv = StateVector(keps[0], DATE, "keplerian", "EME2000").copy(frame=start, form="cartesian")
            for tgt in ("QSW", "TNW", "ITRF", "MOD"):
                refc = Cov(sv, ci.astype(float), fr.get_frame(start))
                refc.frame = tgt
                want = np.asarray(refc, float)
                sc = np.sqrt(np.outer(np.diag(want), np.diag(want)))
                styles = {"frame given by name": lambda: Cov(sv, ci.astype(float), start),
                          "matrix as nested lists of floats": lambda: Cov(sv, ci.astype(float).tolist(), fr.get_frame(start)),
                          "integer-valued array": lambda: Cov(sv, ci, fr.get_frame(start)),
                          "nested lists of integers, frame by name": lambda: Cov(sv, ci.tolist(), start)}
                for how, make in styles.items():
                    res["evaluations"] += 1
                    try:
                        c = make()
                        before = np.asarray(c, float).copy()
                        c.frame = tgt
                        got = np.asarray(c, float)
                        dev = float((np.abs(got - want) / sc).max())
                        okv = float(np.abs(before - ci).max()) <= 1e-9 and dev <= 1e-9
                        msg = f"holds {before[0, 0]!r} for {ci[0, 0]} before conversion; after conversion relative deviation {dev:.3g}"
                    except Exception as e:
                        okv, msg = False, f"{type(e).__name__}: {e}"
                    clause("however the covariance is supplied (frame by name or object, floats / integers, arrays / lists) it is that matrix and converts as R C R^T",
                           okv, "cov/supplied[" + how.split(",")[0] + "]", f"{start}->{tgt}, {how}: {msg}", {"start": start, "target": tgt, "style": how})
                # built from another Cov: the two objects are independent
                res["evaluations"] += 1
                c1 = Cov(sv, ci.astype(float), fr.get_frame(start))
                c2 = Cov(sv, c1, c1.frame)
                c2.frame = tgt
                c2.frame = "ITRF" if tgt != "ITRF" else "TNW"
                untouched = float(np.abs(np.asarray(c1, float) - ci).max()) <= 1e-9 and c1.frame == fr.get_frame(start)
                c1.frame = tgt
                dev = float((np.abs(np.asarray(c1, float) - want) / sc).max())
                clause("a covariance built from another covariance object shares nothing with it", untouched and dev <= 1e-9, "cov/built-from-cov",
                       f"{start}->{tgt}: source {'changed' if not untouched else 'kept'} while the new object was converted; its own conversion deviates by {dev:.3g}",
                       {"start": start, "target": tgt})
    res["nontrivial"] += [json.dumps(["builtin"] + [str(x) for x in k]) for k in sorted(kinds, key=str)]


def main(inp, outp):
    with open(inp) as fh:
        job = json.load(fh)
    res = {"evaluations": 0, "traces": 0, "clauses": {}, "violations": [], "samples": [], "nontrivial": []}
    if "behaviours" in job:
        run_synth(job, res)
    if "walks" in job:
        run_builtin(job, res)
    with open(outp, "w") as fh:
        json.dump(res, fh)


if __name__ == "__main__":
    main(sys.argv[1], sys.argv[2])
