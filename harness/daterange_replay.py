"""Replay DateRange.tla states on the real DateRange; Eop.tla behaviours on the real EopDb."""
import json
import logging
import sys
from datetime import timedelta

from beyond.config import config


def clause(res, name, ok, key, what, data):
    c = res["clauses"].setdefault(name, {"checked": 0, "failed": 0})
    c["checked"] += 1
    if not ok:
        c["failed"] += 1
        if sum(1 for v in res["violations"] if v["key"] == key) < 5:
            res["violations"].append({"key": key, "what": what, "data": data})


def run_ranges(job, res):
    config.set("eop", "missing_policy", "pass")
    from beyond.dates import Date
    from beyond.dates.date import DateRange

    ticks = [timedelta(seconds=1), timedelta(milliseconds=250), timedelta(minutes=7)]
    origins = [Date(2016, 5, 4, 12, 0, 0), Date(2016, 12, 31, 23, 59, 58, scale="TAI"), Date(57000, 43200.5, scale="TT")]
    kinds = set()
    for i, v in enumerate(job["ranges"]):
        tick = ticks[i % len(ticks)]
        t0 = origins[(i // 3) % len(origins)]
        start, stop, step, incl = v["start"], v["stop"], v["step"], v["incl"]
        data = {"start": start, "stop": stop, "step": step, "inclusive": incl, "tick_s": tick.total_seconds(),
                "origin": str(t0), "how": "DateRange(t0+start*tick, t0+stop*tick | timedelta, step*tick, inclusive=incl)"}
        d0 = t0 + start * tick
        d1 = t0 + stop * tick
        stop_arg = (stop - start) * tick if i % 2 else d1
        # the two doors (DateRange(...) / the classmethod Date.range(...)), and a stop date carried under another label than the
        # start's: the same instant, hence the same range
        relabel = [None, "TT", "GPS", "TAI", "UTC", "TDB"][(i // 4) % 6]
        if relabel and not i % 2:
            stop_arg = stop_arg.change_scale(relabel)
        data["door"] = "Date.range" if (i // 2) % 2 else "DateRange"
        data["stop_label"] = relabel if not i % 2 else "timedelta"
        try:
            r = Date.range(d0, stop_arg, step * tick, inclusive=incl) if (i // 2) % 2 else DateRange(d0, stop_arg, step * tick, inclusive=incl)
        except ValueError as e:
            clause(res, "valid (start, stop, step) are accepted", False, "daterange/rejected", f"rejected: {e}", data)
            continue
        res["evaluations"] += 1
        res["traces"] += 1
        kinds.add((step > 0, incl, stop == start, (stop - start) % abs(step) == 0))
        got = [round((d - t0).total_seconds() / tick.total_seconds(), 6) for d in r]
        seqs = [[float(x) for x in v["seq"]]]
        lens = [v["len"]]
        relabelled = bool(relabel) and not i % 2
        if relabelled and (stop - start) % abs(step) == 0:
            # a relabelled stop is the same instant up to the float noise of change_scale (< 1 ns, known findings date/*-float-noise):
            # whether the date ON the boundary belongs to the range is not judged here - everything else is
            alt = [x for x in seqs[0] if x != float(stop)]
            seqs += [alt, alt + [float(stop)]]
            lens += [len(alt), len(alt) + 1]
        clause(res, "iteration yields start, start+step, ... up to stop (inclusive iff asked), none beyond",
               got in seqs, "daterange/iter", f"iterated {got} expected {v['seq']} (door {data['door']}, stop carried as {data['stop_label']})", data)
        try:
            n = len(r)
        except Exception as e:
            n = f"{type(e).__name__}: {e}"
        clause(res, "len() equals the number of iterated dates", n in lens, "daterange/len",
               f"len {n} expected {v['len']} (door {data['door']}, stop carried as {data['stop_label']})", data)
        wrong = []
        for x in range(-job["probe"], job["probe"] + 1):
            if relabelled and x == stop:
                continue
            inside = (t0 + x * tick) in r
            if inside != (x in v["members"]):
                wrong.append(x)
        key = "daterange/contains-negative-step" if step < 0 else "daterange/contains"
        clause(res, "membership agrees with the swept interval" + (" (negative step)" if step < 0 else " (positive step)"),
               not wrong, key, f"membership wrong at ticks {wrong[:8]} (step {step}, start {start}, stop {stop}, incl {incl})", data)
        if len(res["samples"]) < 2 and step < 0:
            res["samples"].append({"range": data, "expected_seq": v["seq"], "expected_len": v["len"]})
    # rejected combinations
    for v in job["invalid"]:
        t0 = origins[0]
        tick = ticks[0]
        try:
            DateRange(t0 + v["start"] * tick, t0 + v["stop"] * tick, v["step"] * tick, inclusive=v["incl"])
            ok = False
        except ValueError:
            ok = True
        res["evaluations"] += 1
        clause(res, "incoherent start/stop/step or null step raises", ok, "daterange/accepts-invalid",
               f"accepted invalid {v}", v)
    res["nontrivial"] += [json.dumps(["range", list(k)]) for k in sorted(kinds)]


class _Capture(logging.Handler):
    def __init__(self):
        super().__init__(level=logging.WARNING)
        self.records = []

    def emit(self, record):
        self.records.append(record)


def run_eop(job, res):
    from beyond.dates.eop import EopDb, Eop
    from beyond.errors import EopError

    cap = _Capture()
    logging.getLogger("beyond.dates.eop").addHandler(cap)
    logging.getLogger("beyond.dates.eop").setLevel(logging.WARNING)
    made = {"n": 0}

    def good():
        class Good:
            def __init__(self):
                made["n"] += 1

            def __getitem__(self, mjd):
                if 50000 <= mjd < 50010:
                    return Eop(x=1, y=2, dx=3, dy=4, deps=5, dpsi=6, lod=7, ut1_utc=0.25, tai_utc=30.0)
                raise KeyError(mjd)
        return Good

    def bad():
        class Bad:
            def __init__(self):
                made["n"] += 1
                raise RuntimeError("cannot load")

            def __getitem__(self, mjd):  # pragma: no cover
                raise AssertionError("unusable")
        return Bad

    # every third behaviour runs on the REAL table-reading database (files of tests/data/pole) instead of the synthetic one
    import os
    from beyond.dates.eop import SimpleEopDatabase
    config.update({"eop": {"folder": os.path.join(job["repo"], "tests", "data", "pole"), "type": "all"}})
    table = job.get("table", {})          # {mjd: [ut1_utc ticks, tai_utc]} read by the independent reader

    def real():
        class Real(SimpleEopDatabase):
            def __init__(self):
                made["n"] += 1
                super().__init__()
        return Real
    covered_days = sorted(int(k) for k in table)
    kinds = set()
    for bi, beh in enumerate(job["eop_behaviours"]):
        hist, init_db = beh["hist"], beh["dbname0"]
        use_real = bool(covered_days) and (bi % 3 == 0 or beh.get("real", False))
        nget = 0
        names = {}

        def nm(n):
            return names.setdefault(n, f"vf{bi}_{n}")
        config.set("eop", "missing_policy", "pass")
        config.set("eop", "dbname", nm(init_db))
        inst_count = {}
        for k, act in enumerate(hist):
            data = {"hist": hist[: k + 1], "dbname0": init_db}
            if act["op"] == "register":
                EopDb.register((real() if use_real else good()) if act["kind"] == "class_ok" else bad(), nm(act["name"]))
            elif act["op"] == "policy":
                config.set("eop", "missing_policy", act["name"])
            elif act["op"] == "dbname":
                config.set("eop", "dbname", nm(act["name"]))
            else:
                cap.records.clear()
                before = made["n"]
                mjd = 50003.5 if act["name"] == "covered" else 51000.25
                want_vals = (0.25, 30.0)
                if use_real:
                    # covered days alternate; the uncovered day is always the same one (1973-01-01 is before the first line of finals.all)
                    nget += 1
                    if act["name"] == "covered":
                        day = covered_days[nget % len(covered_days)]
                        mjd = day + 0.3
                        want_vals = (table[str(day)][0] / 1e7, float(table[str(day)][1]))
                    else:
                        mjd = 41683.0 + 0.1 * nget
                try:
                    e = EopDb.get(mjd)
                    zeros = (e.x, e.y, e.dx, e.dy, e.deps, e.dpsi, e.lod, e.ut1_utc, e.tai_utc) == (0,) * 9
                    vals = abs(e.ut1_utc - want_vals[0]) <= 1e-9 and e.tai_utc == want_vals[1]
                    warned = any(r.levelno >= logging.WARNING for r in cap.records)
                    got = "values" if vals else ("zeros+warn" if zeros and warned else "zeros" if zeros else "other")
                except (EopError, KeyError):
                    got = "raise"
                res["evaluations"] += 1
                kinds.add((act["expect"], act["name"]))
                clause(res, "missing-EOP policy applies as documented (pass / warning / error), values when covered",
                       got == act["expect"], "eop/policy", f"EopDb.get gave {got}, expected {act['expect']} after {hist[:k+1]}", data)
                clause(res, "a database is instantiated at most once (failure cached)", made["n"] - before <= 1 and
                       (made["n"] - before == 1) == act["instantiates"], "eop/instantiation",
                       f"{made['n']-before} instantiations, expected {int(act['instantiates'])} after {hist[:k+1]}", data)
        res["traces"] += 1
    config.set("eop", "dbname", "default")
    config.set("eop", "missing_policy", "pass")
    res["nontrivial"] += [json.dumps(["eop", list(k)]) for k in sorted(kinds)]


def run_real_missing(job, res):
    """Real SimpleEopDatabase: a 2018 date is not covered by finals.all -> policy."""
    import os
    import warnings
    from beyond.dates.eop import EopDb
    from beyond.errors import EopError
    from beyond.dates import Date

    config.update({"eop": {"folder": os.path.join(job["repo"], "tests", "data", "pole"), "type": "all", "dbname": "default"}})
    cap = _Capture()
    logging.getLogger("beyond.dates.eop").addHandler(cap)
    for pol, expect in (("pass", "zeros"), ("warning", "zeros+warn"), ("error", "raise")):
        config.set("eop", "missing_policy", pol)
        cap.records.clear()
        try:
            d = Date(2019, 3, 1, 12, 0, 0)
            tai = d.change_scale("TAI")
            got = "zeros" if (tai._d, tai._s) == (d._d, d._s) and abs((tai.datetime - d.datetime).total_seconds()) == 0 else "values"
            if got == "zeros" and cap.records:
                got = "zeros+warn"
        except (EopError, KeyError):
            got = "raise"
        res["evaluations"] += 1
        clause(res, "real tables: uncovered 2019 date follows the policy", got == expect, "eop/real-missing",
               f"policy {pol}: got {got}", {"policy": pol})
    config.set("eop", "missing_policy", "error")
    d = Date(2016, 5, 4, 12, 0, 0)
    clause(res, "real tables: covered date uses tabulated TAI-UTC", d.eop.tai_utc == 36.0,
           "eop/real-covered", f"eop {d.eop}", {})
    # every Earth-orientation value the library hands to the frame conversions is the one tabulated for that day (pole coordinates,
    # UT1-UTC, length of day, nutation corrections of both theories), read here by an independent reader of the two finals files
    for mjd_s, want in job.get("eopvals", {}).items():
        mjd = int(mjd_s)
        try:
            e = Date(mjd, 43200.0).eop
        except Exception as ex:
            clause(res, "real tables: the Earth-orientation values of a tabulated day are the tabulated ones", False, "eop/real-values",
                   f"MJD {mjd}: {type(ex).__name__}: {ex}", {"mjd": mjd})
            continue
        res["evaluations"] += 1
        got = {"x": e.x, "y": e.y, "ut1_utc": e.ut1_utc, "lod": e.lod, "dpsi": e.dpsi, "deps": e.deps, "dx": e.dx, "dy": e.dy}
        bad = {k: (got[k], w) for k, w in want.items() if w is not None and got[k] != w}
        clause(res, "real tables: the Earth-orientation values of a tabulated day are the tabulated ones", not bad, "eop/real-values",
               f"MJD {mjd}: {bad} (library value, tabulated value)", {"mjd": mjd, "fields": sorted(bad)})


def main(inp, outp):
    with open(inp) as fh:
        job = json.load(fh)
    res = {"evaluations": 0, "traces": 0, "clauses": {}, "violations": [], "samples": [], "nontrivial": []}
    if "ranges" in job:
        run_ranges(job, res)
    if "eop_behaviours" in job:
        run_eop(job, res)
        run_real_missing(job, res)
    with open(outp, "w") as fh:
        json.dump(res, fh)


if __name__ == "__main__":
    main(sys.argv[1], sys.argv[2])
