"""Replay of Jpl.tla: signed sums of SPK segments against the frames / orbits built by beyond.env.jpl (property C18),
velocities of the analytical Sun and Moon against the derivative of their own positions, and their agreement with the kernel."""
import json
import math
import sys
from datetime import timedelta
from pathlib import Path

import numpy as np

from beyond.config import config

config.set("eop", "missing_policy", "pass")


def main(inp, outp):
    with open(inp) as fh:
        job = json.load(fh)
    d = Path(job["repo"]) / "tests" / "data" / "jpl"
    files = [str(d / "de403_2000-2020.bsp")]
    if job.get("pck", True):
        files += [str(d / "pck00010.tpc"), str(d / "gm_de431.tpc")]
    config.set("env", "jpl", "files", files)
    from jplephem.spk import SPK
    from jplephem.names import target_names
    if job.get("observe"):
        k = SPK.open(files[0])
        with open(outp, "w") as fh:
            json.dump({"segments": [[int(s.center), int(s.target)] for s in k.segments]}, fh)
        return
    from beyond.env import jpl
    from beyond.env.solarsystem import get_body
    from beyond.dates import Date
    from beyond.orbits import StateVector

    res = {"evaluations": 0, "traces": 0, "clauses": {}, "violations": [], "samples": [], "nontrivial": []}

    def clause(name, ok, key, what, data):
        c = res["clauses"].setdefault(name, {"checked": 0, "failed": 0})
        c["checked"] += 1
        if not ok:
            c["failed"] += 1
            if sum(1 for v in res["violations"] if v["key"] == key) < 4:
                res["violations"].append({"key": key, "what": what, "data": data})

    jpl.create_frames()
    kernel = SPK.open(files[0])
    segs = {(int(s.center), int(s.target)): s for s in kernel.segments}
    seglist = job["Seg"]

    def fname(i):
        return target_names[i].title().replace(" ", "")

    def formal(plus, minus, jd):
        tot = np.zeros(6)
        for sgn, ids in ((1.0, plus), (-1.0, minus)):
            for k in ids:
                c, t = seglist[k - 1]
                pos, vel = segs[(c, t)].compute_and_differentiate(jd)
                tot += sgn * np.concatenate([np.asarray(pos, float), np.asarray(vel, float) / 86400.0]) * 1000.0
        return tot

    labels = ["UTC", "TDB", "TT", "TAI", "GPS", "UT1"]
    for pi, pr in enumerate(job["pairs"]):
        a, b = pr["a"], pr["b"]
        for di, dspec in enumerate(job["dates"]):
          for twin in (False, True):
            date = Date(*dspec)
            lab = labels[(pi + di) % len(labels)]
            dl = date if lab == "UTC" else date.change_scale(lab)
            if twin:
                # the SAME calendar fields read in another time scale: another instant (19 s .. 69 s away) with the same
                # numeric Julian date in its own scale - converted right after the first one, on the same frames
                lab = labels[(pi + di + 2) % len(labels)]
                if lab == "UTC":
                    continue
                dl = date = Date(*dspec, scale=lab)
            jd = date.change_scale("TDB").jd
            want = formal(pr["plus"], pr["minus"], jd)
            data = {"from": fname(a), "body": fname(b), "date": dspec, "date_label": lab, "same_fields_in_label_scale": twin, "pck": job.get("pck", True),
                    "plus": [seglist[k - 1] for k in pr["plus"]], "minus": [seglist[k - 1] for k in pr["minus"]],
                    "how": "StateVector(origin of body b's frame, date).copy(frame=a) ; jpl.get_orbit(b, date).copy(frame=a)"}
            res["evaluations"] += 1
            res["traces"] += 1
            # history: the states handed out by the kernel's propagators for the bodies of this chain are changed IN PLACE by
            # their user (frame, form, a coordinate) just before the conversion at the same date - nothing a user does to an
            # orbit he was given may alter later results
            for k in list(pr["plus"]) + list(pr["minus"]):
                try:
                    o = jpl.get_orbit(fname(seglist[k - 1][1]), dl)
                    o.frame = "EME2000"
                    o.form = "spherical"
                    o[0] = 1.0
                except Exception:
                    pass
            try:
                got = np.asarray(StateVector([0, 0, 0, 0, 0, 0], dl, "cartesian", fname(b)).copy(frame=fname(a)), float)
                if any(t == b for _c, t in seglist):
                    orb = jpl.get_orbit(fname(b), dl)
                    got2 = np.asarray(orb.copy(frame=fname(a)), float)
                else:
                    got2 = got          # the root of the kernel (solar-system barycentre) is no segment's target: it has a frame, no orbit
            except Exception as e:
                clause("every ordered pair of bodies of the kernel can be converted", False, "jpl/raises", f"{fname(a)}<-{fname(b)}: {type(e).__name__}: {e}", data)
                continue
            sp = max(np.linalg.norm(want[:3]), 1.0)
            sv = max(np.linalg.norm(want[3:]), 1e-3)
            # the TDB Julian date is a float (40 us): allow |v| x 50 us
            tolp = 1e-9 * sp + sv * 5e-5
            ok1 = np.linalg.norm(got[:3] - want[:3]) <= tolp and np.linalg.norm(got[3:] - want[3:]) <= 1e-7 * sv + 1e-9
            ok2 = np.linalg.norm(got2[:3] - want[:3]) <= tolp and np.linalg.norm(got2[3:] - want[3:]) <= 1e-7 * sv + 1e-9
            clause("frames created from the kernel reproduce the chained segments (metres, metres/second, TDB argument), in either direction", ok1,
                   "jpl/frame", f"{fname(b)} seen from {fname(a)} at {dspec} ({lab}): {got.tolist()} expected {want.tolist()}", data)
            clause("orbits obtained from the kernel reproduce the chained segments", ok2, "jpl/orbit",
                   f"get_orbit({fname(b)}) in {fname(a)} at {dspec} ({lab}): {got2.tolist()} expected {want.tolist()}", data)
        res["nontrivial"].append(json.dumps([a, b]))
    # ---- the library's own Earth centre and the kernel's Earth coincide --------------------------------------------------
    for dspec in job["dates"][:3]:
        date = Date(*dspec)
        x = StateVector([7e6, 1e6, -2e6, 100.0, 7000.0, 50.0], date, "cartesian", "EME2000")
        y = np.asarray(x.copy(frame="Earth"), float)
        res["evaluations"] += 1
        clause("the EME2000 frame and the kernel's Earth frame share the same centre and axes", np.linalg.norm(y - np.asarray(x, float)) <= 1e-6, "jpl/earth-link",
               f"{y.tolist()}", {"date": dspec})
    # ---- analytical Sun and Moon -------------------------------------------------------------------------------------------
    if job.get("bodies", True):
        for dspec in job["dates"]:
            date = Date(*dspec)
            jd = date.change_scale("TDB").jd
            for name, ang_tol, dist_tol, tid in (("Sun", 0.02, 1e-4, 10), ("Moon", 0.7, 5e-3, 301)):
                body = get_body(name)
                st = body.propagate(date)
                prop = body.propagator
                cls = prop if isinstance(prop, type) else prop.__class__
                dstep = cls._diff_step
                p0 = np.asarray(cls._propagate(date - dstep), float)[:3]
                p1 = np.asarray(cls._propagate(date + dstep), float)[:3]
                vnum = (p1 - p0) / (2 * dstep.total_seconds())
                res["evaluations"] += 1
                clause("velocities of the analytical Sun / Moon are the time derivative (central difference) of their positions",
                       np.linalg.norm(np.asarray(st, float)[3:] - vnum) <= 1e-9 * max(1.0, np.linalg.norm(vnum)), f"bodies/velocity[{name}]",
                       f"{name} at {dspec}: {np.asarray(st, float)[3:].tolist()} vs {vnum.tolist()}", {"date": dspec, "body": name})
                # history: the state handed out is changed in place by its user (form, frame - as KeplerNum does with the states of
                # its perturbing bodies); states asked for afterwards, at that date and at the dates of its difference stencil,
                # are the same as before
                before = {k: np.asarray(body.propagate(date + dstep * k).copy(form="cartesian"), float) for k in (-1, 0, 1)}
                frame0 = body.propagate(date).frame.name
                for k, (fo, frn) in zip((0, 1, -1), (("spherical", "EME2000"), ("keplerian", None), ("cartesian", "ITRF"))):
                    victim = body.propagate(date + dstep * k)
                    try:
                        if frn:
                            victim.frame = frn
                        victim.form = fo
                    except Exception:
                        pass
                after = {}
                for k in (-1, 0, 1):
                    o_ = body.propagate(date + dstep * k)
                    after[k] = np.asarray(o_.copy(form="cartesian", frame=frame0), float)
                res["evaluations"] += 1
                worst = max(float(np.abs(after[k] - before[k]).max()) for k in before)
                clause("states handed out by the analytical Sun / Moon can be changed in place without altering later results", worst == 0.0,
                       f"bodies/history[{name}]", f"{name} at {dspec}: states asked again after in-place conversions differ by {worst:.4g}", {"date": dspec, "body": name})
                # against the kernel (Earth -> body), both expressed in EME2000
                plus = [k + 1 for k, (c, t) in enumerate(seglist) if (c, t) in ((0, 10), ) ] if name == "Sun" else [k + 1 for k, (c, t) in enumerate(seglist) if (c, t) == (3, 301)]
                minus = [k + 1 for k, (c, t) in enumerate(seglist) if (c, t) in (((0, 3), (3, 399)) if name == "Sun" else ((3, 399),))]
                ref = formal(plus, minus, jd)[:3]
                mine = np.asarray(st.copy(frame="EME2000"), float)[:3]
                ang = math.degrees(math.acos(max(-1.0, min(1.0, float(np.dot(ref, mine) / (np.linalg.norm(ref) * np.linalg.norm(mine)))))))
                dist = abs(np.linalg.norm(mine) / np.linalg.norm(ref) - 1)
                clause("the analytical Sun / Moon agree with the kernel to the accuracy of their series", ang <= ang_tol and dist <= dist_tol,
                       f"bodies/accuracy[{name}]", f"{name} at {dspec}: {ang:.4f} deg, {dist:.2e} in distance (allowed {ang_tol} deg, {dist_tol})", {"date": dspec, "body": name})
    res["nontrivial"] = sorted(set(res["nontrivial"]))
    with open(outp, "w") as fh:
        json.dump(res, fh)


if __name__ == "__main__":
    main(sys.argv[1], sys.argv[2])
