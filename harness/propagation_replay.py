"""Replay Propagation.tla call histories on real orbits / propagators / ephemerides (property C08).

For every history the calls are executed on the SAME objects (orbits sharing one propagator instance, one listener
list); the LAST call's output (prefixes are histories of their own) is compared with the contract: exact list of dates,
each state equal to a direct propagation from a FRESH copy, initial orbit objects untouched."""
import json
import sys
from datetime import timedelta

import numpy as np

from beyond.config import config

config.set("eop", "missing_policy", "pass")

from beyond.dates import Date  # noqa: E402
from beyond.orbits import Orbit, Ephem  # noqa: E402
from beyond.io.tle import Tle  # noqa: E402
from beyond.propagators.keplernum import KeplerNum  # noqa: E402
from beyond.propagators.cw import ClohessyWiltshire  # noqa: E402
from beyond.propagators.listeners import NodeListener, ApsideListener  # noqa: E402
from beyond.env.solarsystem import get_body  # noqa: E402

EPOCH = Date(2018, 5, 4, 13, 20, 47, 362496)
TLE = """ISS (ZARYA)
1 25544U 98067A   18124.55610684  .00001524  00000-0  30197-4 0  9997
2 25544  51.6421 236.2139 0003381  47.8509  47.6767 15.54198229111731"""
KEP = [[7000e3, 0.01, 0.9, 1.0, 2.0, 0.5], [7300e3, 0.02, 1.1, 0.3, 1.0, 2.5]]
HILL = [[-1500.0, 3000.0, 200.0, 0.5, -0.2, 0.1], [800.0, -2500.0, -100.0, -0.1, 0.3, 0.05]]


class Kind:
    def __init__(self, name, job):
        self.name = name
        self.tick = timedelta(seconds=job["tick_s"])
        self.job = job
        self.numerical = name in ("keplernum", "ephem")

    def propagator(self):
        n = self.name
        if n == "keplernum":
            return KeplerNum(self.tick * self.job["H"], get_body("Earth"), method="rk4")
        if n == "cw":
            return ClohessyWiltshire(7000e3)
        return {"kepler": "Kepler", "j2": "J2", "none": "NonePropagator", "sgp4": "Sgp4"}[n]

    def orbit(self, k, propagator=None):
        """k-th orbit object (0-based) with the given propagator instance (or a fresh one)."""
        n = self.name
        p = propagator if propagator is not None else self.propagator()
        if n == "sgp4":
            orb = Tle(TLE).orbit()
            if k == 1:
                orb = orb.copy()
                orb[4] += 0.3  # another argument of perigee: a different object
            if propagator is not None:
                orb.propagator = propagator
            return orb
        if n == "cw":
            return Orbit(HILL[k], EPOCH, "cartesian", "Hill", p)
        if n == "keplernum":
            o = Orbit(KEP[k], EPOCH, "keplerian", "EME2000", p)
            return o.copy(form="cartesian")
        return Orbit(KEP[k], EPOCH, "keplerian", "EME2000", p)

    def epoch(self, orb):
        return orb.date

    def fresh_state(self, k, date):
        if self.name == "ephem":
            return self.fresh_ephem(k).propagate(date)
        return self.orbit(k).propagate(date)

    def fresh_ephem(self, k):
        j = self.job
        base = Orbit(KEP[k], EPOCH, "keplerian", "EME2000", "Kepler")
        dates = [EPOCH + self.tick * x for x in sorted(set(range(j["ELo"], j["EHi"] + 1, j["EN"])) | {x for x in j.get("EExtra", ()) if j["ELo"] < x < j["EHi"]})]
        return Ephem([base.propagate(d) for d in dates])


def snap(orb):
    return (np.array(orb.base, dtype=float).copy(), orb.date, orb.form.name, orb.frame.name, len(orb.maneuvers))


def same_snap(a, b):
    return np.array_equal(a[0], b[0]) and a[1] == b[1] and a[2:] == b[2:]


def cart(sv):
    if sv.frame.name.startswith("Hill"):
        return np.asarray(sv.copy(form="cartesian"), dtype=float)
    return np.asarray(sv.copy(form="cartesian", frame="EME2000" if sv.frame.name != "TEME" else "TEME"), dtype=float)


def run_call(kind, objs, call, listeners, defaults=False):
    """Execute one call on the shared objects; returns list of (tick offset, state, event or None) or raises."""
    tick = kind.tick
    obj = objs[call["o"] - 1]
    ep = EPOCH if kind.name != "sgp4" else objs[0].date if kind.name != "ephem" else EPOCH
    if kind.name == "sgp4":
        ep = Tle(TLE).orbit().date

    def off(d):
        return (d - ep).total_seconds() / tick.total_seconds()
    out = []
    if call["op"] == "propagate":
        if defaults and kind.name not in ("ephem", "none") and call["a"] % 2:
            r = obj.propagate(tick * call["a"])          # the other door: a duration counted from the orbit's own date
        else:
            r = obj.propagate(ep + tick * call["a"])
        out.append((off(r.date), r, None))
        return out, ep
    kw = {}
    if call["op"] == "dates":
        kw["dates"] = [ep + tick * x for x in call["dates"]]
    else:
        kw["start"] = ep + tick * call["a"]
        # stop as Date or as timedelta, alternating on the span parity
        kw["stop"] = (ep + tick * call["b"]) if (call["b"] - call["a"]) % 2 else tick * (call["b"] - call["a"])
        if call["s"] != 0:
            kw["step"] = tick * call["s"]
        if call["op"] == "iter-tolerant":
            kw["strict"] = False
        if defaults:
            # arguments that equal their documented default are left out: start (the orbit's date / the table's first date),
            # stop (the table's last date)
            if kind.name == "ephem":
                if call["a"] == kind.job["ELo"]:
                    del kw["start"]
                    kw["stop"] = ep + tick * call["b"]
                if call["b"] == kind.job["EHi"]:
                    del kw["stop"]
            elif call["a"] == 0:
                del kw["start"]
                kw["stop"] = ep + tick * call["b"] if call["b"] % 2 else tick * call["b"]
    if listeners is not None:
        kw["listeners"] = listeners
    for r in obj.iter(**kw):
        out.append((off(r.date), r, getattr(r, "event", None)))
        if len(out) > 400:
            raise RuntimeError("iteration does not terminate (more than 400 points)")
    return out, ep


def classify(kind, call, order):
    """Root-cause class of a call (used in violation keys so that known findings match precisely)."""
    if call["op"] in ("iter", "iter-tolerant"):
        if call["b"] < call["a"]:
            return "backward-range"
        if kind.name == "keplernum":
            h = kind.job["H"]
            if abs(call["b"] - call["a"]) < (order - 1) * h:
                return "short-span"
            if (call["b"] - call["a"]) % h:
                return "stop-off-grid"
    if call["op"] == "dates" and kind.name == "keplernum":
        return "date-list"
    return "plain"


def main(inp, outp):
    with open(inp) as fh:
        job = json.load(fh)
    kind = Kind(job["kind"], job)
    res = {"evaluations": 0, "traces": 0, "clauses": {}, "violations": [], "samples": [], "nontrivial": [],
           "info": {}}
    seen_classes = set()

    def clause(name, ok, key, what, data):
        c = res["clauses"].setdefault(name, {"checked": 0, "failed": 0})
        c["checked"] += 1
        if not ok:
            c["failed"] += 1
            if sum(1 for v in res["violations"] if v["key"] == key) < 4:
                res["violations"].append({"key": key, "what": what, "data": data})

    model_agree = {"agree": 0, "differ": 0}
    for h in job["histories"]:
        calls = h["calls"]
        with_listeners = h.get("listeners", False)
        # ---- shared objects --------------------------------------------------------------------
        if kind.name == "ephem":
            objs = [kind.fresh_ephem(0), kind.fresh_ephem(1)]
            snaps = None
        else:
            shared = kind.propagator()
            if isinstance(shared, str):
                o1 = kind.orbit(0)
                shared = o1.propagator
                objs = [o1, kind.orbit(1, shared)]
            else:
                objs = [kind.orbit(0, shared), kind.orbit(1, shared)]
            snaps = [snap(o) for o in objs]
        listeners = [NodeListener(), ApsideListener()] if with_listeners and kind.name in ("kepler", "j2", "sgp4", "keplernum", "ephem") else None
        data = {"kind": kind.name, "tick_s": job["tick_s"], "calls": calls, "shared_listeners": bool(listeners),
                "how": "two orbits sharing one propagator instance; epoch tick 0; iter(start=epoch+a*tick, stop=epoch+b*tick "
                       "(or timedelta), step=s*tick) / propagate(epoch+a*tick)"}
        last = calls[-1]
        cls = classify(kind, last, job["Order"])
        exp = h["expected_eph"] if kind.name == "ephem" else h["expected"]
        model = h["kn"] if kind.name == "keplernum" else h["eph"] if kind.name == "ephem" else exp
        got = None
        err = None
        try:
            for c in calls[:-1]:
                try:
                    run_call(kind, objs, c, listeners)
                except Exception:
                    pass  # an earlier call that fails is judged in its own history
            got, ep = run_call(kind, objs, last, listeners, defaults=h.get("defaults", False))
        except Exception as e:
            err = f"{type(e).__name__}: {e}"
        res["evaluations"] += 1
        res["traces"] += 1
        seen_classes.add((kind.name, last["op"], cls, len(calls), bool(listeners)))
        samples = [g for g in (got or []) if g[2] is None]
        got_dates = [round(g[0], 6) for g in samples]
        if exp == ["raise"] and cls == "backward-range" and err is None and got_dates == []:
            # the ephemeris' backward ranges yield nothing at all (known root cause), so the bounds are never looked at either
            clause(f"{kind.name}: yields exactly the dates of the range / list, in order, none beyond stop", False,
                   f"{kind.name}/backward-range", f"{last}: yielded nothing (a refusal was expected: outside the table)", data)
            continue
        if exp == ["raise"]:
            clause(f"{kind.name}: dates outside the table are refused", err is not None and "ValueError" in err,
                   f"{kind.name}/not-refused", f"expected ValueError, got {got_dates if err is None else err}", data)
            continue
        real_view = ["raise"] if err else [int(x) if float(x).is_integer() else x for x in got_dates]
        model_agree["agree" if real_view == model else "differ"] += 1
        if real_view != model and len(model_agree.setdefault("examples", [])) < 3:
            model_agree["examples"].append({"call": last, "real": real_view[:12], "model": model[:12]})
        if err is not None:
            clause(f"{kind.name}: the call completes", False, f"{kind.name}/{cls}" if cls != "plain" else f"{kind.name}/raises",
                   f"{last} raised {err}", data)
            continue
        ok_dates = got_dates == [float(x) for x in exp]
        if not ok_dates:
            lo, hi = min(last["a"], last["b"]), max(last["a"], last["b"])
            beyond = [x for x in got_dates if x < lo - 1e-6 or x > hi + 1e-6] if last["op"] in ("iter", "iter-tolerant") else []
            sub = "dates-beyond-stop" if beyond else "dates"
            clause(f"{kind.name}: yields exactly the dates of the range / list, in order, none beyond stop", False,
                   f"{kind.name}/{cls}" if cls != "plain" else f"{kind.name}/{sub}", f"{last}: yielded {got_dates[:14]} expected {exp[:14]}", data)
        else:
            clause(f"{kind.name}: yields exactly the dates of the range / list, in order, none beyond stop", True, "", "", data)
        # ---- each yielded state equals a direct propagation from a fresh copy --------------------
        k = last["o"] - 1
        worst = 0.0
        worst_at = None
        for offt, st, _ev in samples[:: max(1, len(samples) // 6)]:
            try:
                ref = kind.fresh_state(k, st.date)
            except Exception as e:
                clause(f"{kind.name}: direct propagation to a yielded date works", False, f"{kind.name}/direct-raises",
                       f"fresh propagate({offt}) raised {type(e).__name__}: {e}", data)
                continue
            a, b = cart(st), cart(ref)
            dp = float(np.linalg.norm(a[:3] - b[:3]))
            dv = float(np.linalg.norm(a[3:] - b[3:]))
            if kind.name == "keplernum":
                # iter() and a fresh propagate() integrate along different grids (backwards to the start, then forwards on a grid
                # anchored at the start): they agree to the truncation error of the integrator plus the interpolation error, both
                # negligible at the 20 s step used here (RK4: < 0.5 mm) - with 60 s steps the same comparison measured 11-30 mm
                # What remains is the time resolution of the re-sampling: Ephem interpolates on float MJDs (0.6 us at these
                # dates; measured 8 mm = 1.1 us x 7.5 km/s), hence 2 mm + |v| x 2 us
                tol_p, tol_v = 2e-3 + 2e-6 * float(np.linalg.norm(b[3:])), 5e-5
            elif kind.name == "ephem":
                tol_p, tol_v = 1e-6, 1e-9
            else:
                tol_p = 1e-9 * max(1.0, float(np.linalg.norm(b[:3])))
                tol_v = 1e-9 * max(1e-3, float(np.linalg.norm(b[3:])))
            if dp > tol_p or dv > tol_v:
                if dp > worst:
                    worst, worst_at = dp, offt
            clause(f"{kind.name}: yielded state equals a direct propagation from a fresh copy", dp <= tol_p and dv <= tol_v,
                   f"{kind.name}/state-differs" if len(calls) == 1 else f"{kind.name}/history-dependent",
                   f"{last} at tick {offt}: differs from fresh propagate by {dp:.3e} m, {dv:.3e} m/s after calls {calls[:-1]}", data)
        # ---- the initial orbit objects are never modified ------------------------------------------
        if snaps is not None:
            for o, s0 in zip(objs, snaps):
                clause(f"{kind.name}: the initial orbit object is not modified", same_snap(snap(o), s0),
                       f"{kind.name}/orbit-modified", f"orbit changed after {calls}", data)
        # ---- listeners re-used between calls give the events of a fresh run --------------------------
        if listeners is not None and len(calls) > 1 and last["op"] != "propagate":
            fresh_objs = [kind.fresh_ephem(0), kind.fresh_ephem(1)] if kind.name == "ephem" else [kind.orbit(0), kind.orbit(1)]
            try:
                ref, _ = run_call(kind, fresh_objs, last, [NodeListener(), ApsideListener()])
                ev_a = [(round(g[0], 5), str(g[2])) for g in got if g[2] is not None]
                ev_b = [(round(g[0], 5), str(g[2])) for g in ref if g[2] is not None]
                clause(f"{kind.name}: re-used listener objects give the events of a fresh run", ev_a == ev_b,
                       f"{kind.name}/listener-history", f"events {ev_a[:5]} vs fresh {ev_b[:5]} after {calls[:-1]}", data)
            except Exception:
                pass
        if len(res["samples"]) < 2 and len(calls) > 1:
            res["samples"].append({"kind": kind.name, "calls": calls, "yielded_ticks": got_dates[:10], "expected": exp[:10]})
    res["nontrivial"] = [json.dumps(list(map(str, k))) for k in sorted(seen_classes, key=str)]
    res["info"][f"impl_model_vs_real[{kind.name}]"] = model_agree
    with open(outp, "w") as fh:
        json.dump(res, fh)


if __name__ == "__main__":
    main(sys.argv[1], sys.argv[2])
