"""Replay of Config.tla on a real beyond.config.Config object."""
import json
import sys

from beyond.config import Config
from beyond.errors import ConfigError


def main(inp, outp):
    with open(inp) as fh:
        job = json.load(fh)
    res = {"evaluations": 0, "traces": 0, "clauses": {}, "violations": []}

    def clause(name, ok, key, what, data):
        c = res["clauses"].setdefault(name, {"checked": 0, "failed": 0})
        c["checked"] += 1
        if not ok:
            c["failed"] += 1
            if sum(1 for v in res["violations"] if v["key"] == key) < 6:
                res["violations"].append({"key": key, "what": what, "data": data})

    def section(cfg, path):
        cur = cfg
        for k in path:
            cur = cur[k]
        return cur
    for hist in job["hists"]:
        cfg = Config()
        res["traces"] += 1
        for act in hist:
            data = {"hist": hist}
            if act[0] == "set":
                try:
                    cfg.set(*act[1], act[2])
                except Exception as e:
                    clause("set completes on a path that does not run through a leaf", False, "config/set-raises", f"{act}: {type(e).__name__}: {e}", data)
                continue
            path, fb, want = act[1], (None if act[2] == "none" else act[2]), act[3]
            res["evaluations"] += 1
            try:
                got = cfg.get(*path, fallback=fb)
                out = ["section", path] if isinstance(got, dict) else ["value", got]
                if out[0] == "section" and got is not section(cfg, path):
                    out = ["section", "another dict"]
            except ConfigError:
                out = ["error"]
            except Exception as e:
                out = [f"raised {type(e).__name__}: {e}"]
            w = list(want)
            if w[0] == "value" and w[1] == "none":
                w[1] = None
            key = "config/get-section" if w[0] == "section" else "config/get-through-leaf" if w[0] == "error" else "config/get-value"
            clause("get returns the value at the path, the section itself, the fallback when a key is missing, ConfigError through a leaf",
                   out == w, key, f"get{tuple(path)} fallback={fb!r}: {out}, expected {w} after {hist[:-1] if hist[-1] == act else '...'}", data)
    with open(outp, "w") as fh:
        json.dump(res, fh)


if __name__ == "__main__":
    main(sys.argv[1], sys.argv[2])
