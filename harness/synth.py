"""Synthetic exact reference frames registered in the REAL library next to the built-in ones: integer (octahedral)
rotations relative to a parent orientation, optional integer rotation rate, optional integer centre offset.
Registered exactly like stations / local orbital frames register themselves (a method on Orientation, a Node link)."""
import numpy as np

from beyond.frames import orient, center, frames


class SynthOrientation(orient.Orientation):
    def __init__(self, name, rot_parent_to_self, parent=orient.EME2000, rate=None, reverse=False):
        """rot_parent_to_self: 3x3 matrix R with x_self = R x_parent.
        reverse=False registers  <name>_to_<parent>  (matrix R^T);  reverse=True registers  <parent>_to_<name>  (matrix R),
        exercising the inversion branch of Orientation.convert_to."""
        super().__init__(name)
        self._r = np.array(rot_parent_to_self, dtype=float)
        self._rate = None if rate is None else np.array(rate, dtype=float)
        if reverse:
            setattr(orient.Orientation, f"{parent.name}_to_{name}", self._from_parent)
        else:
            setattr(orient.Orientation, f"{name}_to_{parent.name}", self._to_parent)
        parent + self

    def _to_parent(self, date):
        return self._r.T, self._rate

    def _from_parent(self, date):
        return self._r, self._rate


def synth_frame(name, rot, parent_frame=frames.EME2000, rate=None, reverse=False, offset=None):
    o = SynthOrientation(name, rot, parent=parent_frame.orientation, rate=rate, reverse=reverse)
    if offset is None:
        c = parent_frame.center
    else:
        c = center.Center(name, body=parent_frame.center.body)
        c.add_link(parent_frame.center, parent_frame.orientation, np.array(offset, dtype=float))
    return frames.Frame(name, o, c)
