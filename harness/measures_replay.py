"""Replay of Measures.tla on real beyond.utils.measures.MeasureSet objects."""
import json
import sys

from beyond.dates import Date
from beyond.utils.measures import MeasureSet, Range, Azimut, Doppler, Elevation, X, Y, Vx

CLASSES = {"Range": Range, "Azimut": Azimut, "Doppler": Doppler, "Elevation": Elevation, "X": X, "Y": Y, "Vx": Vx}
T0 = Date(2020, 3, 1)


def main(inp, outp):
    with open(inp) as fh:
        job = json.load(fh)
    res = {"evaluations": 0, "traces": 0, "clauses": {}, "violations": []}

    def clause(name, ok, key, what, data):
        c = res["clauses"].setdefault(name, {"checked": 0, "failed": 0})
        c["checked"] += 1
        if not ok:
            c["failed"] += 1
            if sum(1 for v in res["violations"] if v["key"] == key) < 6:
                res["violations"].append({"key": key, "what": what, "data": data})

    from datetime import timedelta
    for hist in job["hists"]:
        res["traces"] += 1
        sets = [MeasureSet()]
        ident = {}
        data = {"hist": hist}

        def ids(s):
            return [ident[id(m)] for m in s]
        for act in hist:
            op, i, arg, out = act
            s = sets[i - 1]
            if op == "append":
                ty, src, path, t = arg
                date = T0 + timedelta(seconds=60 * t)
                m = CLASSES[ty](tuple(path), date, 1.0 + len(ident)) if path else CLASSES[ty](src, date, 1.0 + len(ident))
                ident[id(m)] = len(ident) + 1
                data.setdefault("keep", []).append(m)
                s.append(m)
            elif op == "sort":
                before = ids(s)
                s.sort()
                after = ids(s)
                want = list(out)
                clause("sort orders the set by date and keeps the order of measures of equal date", after == want, "measures/sort", f"{before} -> {after}, expected {want}", {"hist": hist})
            elif op == "filter":
                res["evaluations"] += 1
                ty, src, path = arg
                kw = {}
                if ty != "-":
                    kw["type"] = ty
                if src != "-":
                    kw["src"] = src
                if list(path) != ["-"]:
                    kw["path"] = tuple(path)
                before = ids(s)
                try:
                    r = s.filter(**kw)
                    got = ["ok", ids(r)]
                except AttributeError as e:
                    r, got = None, ["raise", []]
                except Exception as e:
                    r, got = None, [f"raised {type(e).__name__}: {e}", []]
                impl, contract = [out[0], list(out[1])], [out[2], list(out[3])]
                clause("filter behaves as the implementation-shaped model (if / elif chain)", got == impl, "measures/filter-model",
                       f"filter({kw}) on {before}: {got}, the model says {impl}", {"hist": hist})
                key = "measures/filter-path-raises" if got[0] != "ok" else "measures/filter-union"
                clause("filter returns the measures that match every criterion given, in the receiver's order", got == contract, key,
                       f"filter({kw}) on {before}: {got}, the contract says {contract}", {"hist": hist})
                clause("filter leaves its receiver unchanged", ids(s) == before, "measures/filter-receiver", f"{before} -> {ids(s)}", {"hist": hist})
                if r is not None:
                    clause("filter returns a new MeasureSet", isinstance(r, MeasureSet) and r is not s, "measures/filter-class", f"{type(r).__name__}", {"hist": hist})
                    if impl[0] == "ok" and len(sets) < job["maxsets"]:
                        sets.append(r)
                elif impl[0] == "ok" and len(sets) < job["maxsets"]:
                    break     # the model went on with a set the code did not produce
            elif op == "observe":
                res["evaluations"] += 1
                want = out

                def tick(d):
                    return round((d - T0).total_seconds() / 60)
                got = {"dates": [tick(d) for d in s.dates], "types": list(s.types), "sources": list(s.sources), "paths": [list(p) for p in s.paths],
                       "start": tick(s.start), "stop": tick(s.stop), "ids": ids(s)}
                w = {"dates": list(want["dates"]), "types": list(want["types"]), "sources": list(want["sources"]), "paths": [list(p) for p in want["paths"]],
                     "start": want["start"], "stop": want["stop"], "ids": list(want["ids"])}
                clause("dates / types / sources / paths list each value once in order of first appearance; start / stop are the first / last date",
                       got == w, "measures/observe", f"{got}, expected {w}", {"hist": hist})
    for v in res["violations"]:
        v["data"].pop("keep", None)
    with open(outp, "w") as fh:
        json.dump(res, fh)


if __name__ == "__main__":
    main(sys.argv[1], sys.argv[2])
