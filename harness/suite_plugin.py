"""pytest plugin: record abstract-state traces from the repository's OWN test-suite (binding B2 on executions nobody in
/verif designed).  Nothing in /repo is modified: the plugin is loaded with ``-p suite_plugin`` (PYTHONPATH=/verif/harness)
before any beyond module is imported and wraps, at their linearization points (the public call's return):

  Node.__add__                 -> "link"   pre / post projection (neighbour order, route tables) of the joined component
  Date.__init__                -> "date"   input clock reading, label, EOP attached, resulting TAI instant
  Date.change_scale            -> "scale"  instant and label before / after
  Date.__add__ (timedelta)     -> "plus"   reading before, timedelta, reading after
  Date.__sub__ (Date)          -> "minus"  the two instants and the timedelta returned
  AnalyticalPropagator.iter, NumericalPropagator.iter, Ephem.iter
                               -> "iter"   the request (start, stop, step / dates) and the stream of (date, event) yielded

Events go to the JSON-lines file named by VERIF_SUITE_TRACE; they are validated by spec/SuiteTrace.tla (and RoutingTrace.tla
for the links).  Recording never raises into the test: failures of the recorder are counted in a final "meta" record."""
import json
import os
from datetime import datetime, timedelta

OUT = os.environ.get("VERIF_SUITE_TRACE")
PER_TEST = int(os.environ.get("VERIF_SUITE_PER_TEST", "60"))      # events of each kind kept per test, then 1 in 40
MAXN = int(os.environ.get("VERIF_SUITE_MAXN", "24"))

import traceback


def _err():
    _state["errors"] += 1
    if os.environ.get("VERIF_SUITE_DEBUG"):
        with open(OUT + ".err", "a") as fh:
            fh.write(_state["test"] + "\n" + traceback.format_exc() + "\n")


_state = {"test": "<import>", "counts": {}, "errors": 0, "skipped": {}, "fh": None, "depth": 0, "total": {}}
TPS = 10 ** 7
MJD_T0 = datetime(1858, 11, 17)


def _emit(kind, rec, always=False):
    key = (_state["test"], kind)
    n = _state["counts"].get(key, 0) + 1
    _state["counts"][key] = n
    _state["total"][kind] = _state["total"].get(kind, 0) + 1
    if not always and n > PER_TEST and n % 40:
        return
    rec["k"] = kind
    rec["test"] = _state["test"]
    if _state["fh"] is None:
        _state["fh"] = open(OUT, "a")
    _state["fh"].write(json.dumps(rec) + "\n")


def _skip(why):
    _state["skipped"][why] = _state["skipped"].get(why, 0) + 1


def _limb(sec):
    """float seconds (any sign) -> [s, tick] with 0 <= tick < 1e7 (floor semantics, as TLA+ \\div and %)"""
    tot = int(round(float(sec) * TPS))
    return [tot // TPS, tot % TPS]


def _inst(date):
    s, t = _limb(date._s)
    return [int(date._d), s, t]


# ---------------------------------------------------------------------------------------------------------------------------
def _component(nodes):
    seen, todo = [], list(nodes)
    while todo:
        x = todo.pop(0)
        if any(x is y for y in seen):
            continue
        seen.append(x)
        todo.extend(x.neighbors.keys())
    return seen


def _project(comp, index):
    nb, rt = [], []
    for x in comp:
        nb.append([index[id(n)] for n in x.neighbors.keys()])
        row = []
        for y in comp:
            r = x.routes.get(y.name) if y is not x else None
            if r is None:
                row.append([0, 0])
            else:
                row.append([index.get(id(r.direction), -1), int(r.steps)])
        rt.append(row)
    return {"nb": nb, "rt": rt}


def _wrap_node():
    from beyond.utils.node import Node
    orig = Node.__add__

    def __add__(self, other):
        pre = None
        try:
            if isinstance(other, Node):
                comp = _component([self, other])
                names = [x.name for x in comp]
                if len(comp) > MAXN:
                    _skip("component larger than VERIF_SUITE_MAXN")
                elif len(set(names)) != len(names):
                    _skip("two nodes of one component share a name (routing is by name)")
                else:
                    index = {id(x): i + 1 for i, x in enumerate(comp)}
                    pre = (comp, index, names, _project(comp, index))
        except Exception:
            _err()
        ret = orig(self, other)
        if pre is not None:
            try:
                comp, index, names, before = pre
                _emit("link", {"names": [str(n) for n in names], "a": index[id(self)], "b": index[id(other)], "pre": before,
                               "post": _project(comp, index)}, always=True)
            except Exception:
                _err()
        return ret

    Node.__add__ = __add__


# ---------------------------------------------------------------------------------------------------------------------------
def _reading_of_args(args, kwargs):
    """the clock reading the caller handed to Date(...), computed without the library: [d, s, tick] or None"""
    if len(args) == 1:
        a = args[0]
        if isinstance(a, datetime):
            if a.tzinfo is not None:
                a = (a - a.utcoffset()).replace(tzinfo=None)
            dt = a - MJD_T0
            return [dt.days, dt.seconds, dt.microseconds * 10], "datetime"
        if isinstance(a, bool):
            return None, "other"
        if isinstance(a, int):
            return [a, 0, 0], "mjd"
        if isinstance(a, float):
            return None, "mjd-float"       # float days: 1 us resolution at best, not judged
        return None, "other"
    if len(args) == 2 and isinstance(args[0], int) and isinstance(args[1], (int, float)):
        s, t = _limb(args[1])
        return [args[0] + s // 86400, s % 86400, t], "ds"
    if 3 <= len(args) <= 7 and all(type(a) is int for a in args):
        dt = datetime(*args, **{k: v for k, v in kwargs.items() if k != "scale"}) - MJD_T0
        return [dt.days, dt.seconds, dt.microseconds * 10], "fields"
    return None, "other"


def _wrap_date():
    from beyond.dates.date import Date
    init, change_scale, add, sub = Date.__init__, Date.change_scale, Date.__add__, Date.__sub__

    def _eop(d):
        e = d.eop
        return {"tai_utc": int(round(float(e.tai_utc))), "ut1_utc": int(round(float(e.ut1_utc) * TPS))}

    def __init__(self, *args, **kwargs):
        init(self, *args, **kwargs)
        if _state["depth"]:
            return
        try:
            rd, form = _reading_of_args(args, kwargs)
            if rd is None:
                return
            rec = {"form": form, "lab": self.scale.name, "rd": rd, "inst": _inst(self), "eop": _eop(self),
                   "off": _limb(self._offset)}
            _emit("date", rec)
        except Exception:
            _err()

    def _cs(self, new_scale):
        _state["depth"] += 1
        try:
            out = change_scale(self, new_scale)
        finally:
            _state["depth"] -= 1
        if not _state["depth"]:
            try:
                _emit("scale", {"lab": self.scale.name, "inst": _inst(self), "new": out.scale.name, "inst2": _inst(out),
                                "asked": str(new_scale), "same_eop": _eop(self) == _eop(out)})
            except Exception:
                _err()
        return out

    def __add__(self, other):
        _state["depth"] += 1
        try:
            out = add(self, other)
        finally:
            _state["depth"] -= 1
        if not _state["depth"] and isinstance(other, timedelta):
            try:
                _emit("plus", {"lab": self.scale.name, "inst": _inst(self), "off": _limb(self._offset),
                               "dt": [other.days, other.seconds, other.microseconds * 10],
                               "lab2": out.scale.name, "inst2": _inst(out), "off2": _limb(out._offset),
                               "same_eop": _eop(self) == _eop(out)})
            except Exception:
                _err()
        return out

    def __sub__(self, other):
        _state["depth"] += 1
        try:
            out = sub(self, other)
        finally:
            _state["depth"] -= 1
        if not _state["depth"] and isinstance(other, Date) and isinstance(out, timedelta):
            try:
                _emit("minus", {"inst": _inst(self), "inst2": _inst(other), "td": [out.days, out.seconds, out.microseconds * 10]})
            except Exception:
                _err()
        return out

    Date.__init__ = __init__
    Date.change_scale = _cs
    Date.__add__ = __add__
    Date.__sub__ = __sub__


# ---------------------------------------------------------------------------------------------------------------------------
def _wrap_iter():
    from beyond.dates.date import Date
    from beyond.propagators.base import AnalyticalPropagator, NumericalPropagator
    from beyond.orbits.ephem import Ephem

    def wrap(cls, kind):
        orig = cls.iter

        def iter(self, **kwargs):
            # the request as the caller made it (normalised by the rules of the doc-string, independently of the library)
            req = None
            try:
                if not _state["depth"]:
                    _state["depth"] += 1          # the recorder's own date arithmetic is not an event of the test
                    try:
                        req = _request(self, dict(kwargs), kind)
                    finally:
                        _state["depth"] -= 1
            except Exception:
                _err()
            gen = orig(self, **kwargs)
            if req is None:
                yield from gen
                return
            out = []
            status = "complete"
            try:
                for orb in gen:
                    try:
                        if len(out) < 4000:
                            ev = getattr(orb, "event", None)
                            out.append([_inst(orb.date), "" if ev is None else (str(getattr(ev, "info", ev)) or "event")])
                    except Exception:
                        _err()
                    yield orb
            except GeneratorExit:
                status = "closed"
                raise
            except BaseException as e:
                status = "raised:" + type(e).__name__
                raise
            finally:
                try:
                    req["out"] = out
                    req["status"] = status if len(out) < 4000 else "truncated"
                    _emit("iter", req)
                except Exception:
                    _err()

        cls.iter = iter

    def _request(self, kwargs, kind):
        zero = [0, 0, 0]
        req = {"kind": kind, "cls": type(self).__name__, "listeners": _nlisten(kwargs.get("listeners")), "mode": "range",
               "start": zero, "stop": zero, "step": zero, "hasstep": True, "inclusive": True, "dates": [],
               "lo": zero, "hi": zero, "strict": False}
        dates = kwargs.get("dates")
        if dates is not None and not (kind == "ephem" and not dates):
            if isinstance(dates, (list, tuple)):
                req["mode"] = "list"
                req["dates"] = [_inst(d) for d in dates][:4000]
            elif all(hasattr(dates, a) for a in ("start", "stop", "step", "inclusive")):
                req.update({"start": _inst(dates.start), "stop": _inst(dates.stop), "step": _td(dates.step),
                            "inclusive": bool(dates.inclusive)})
            else:
                return None        # a one-shot generator: consuming it here would change the test
            return req
        if kind == "ephem":
            start, stop, step = kwargs.get("start"), kwargs.get("stop"), kwargs.get("step")
            req.update({"lo": _inst(self.start), "hi": _inst(self.stop), "strict": bool(kwargs.get("strict", True))})
            if start is None:
                start = self.start
            if stop is None:
                stop = self.stop
            elif isinstance(stop, timedelta):
                stop = start + stop
            req["start"], req["stop"] = _inst(start), _inst(stop)
            if step is None:
                req["hasstep"] = False
            else:
                req["step"] = _td(step)
            return req
        start = kwargs.get("start")
        if start is None:
            start = self.orbit.date
        stop = kwargs.get("stop")
        step = kwargs.get("step")
        if step is None:
            step = getattr(self, "step", None)
        if stop is None or step is None:
            return None
        if isinstance(stop, timedelta):
            stop = start + stop
        if not isinstance(stop, Date) or not isinstance(start, Date):
            return None
        req["start"], req["stop"], req["step"] = _inst(start), _inst(stop), _td(step)
        return req

    def _td(td):
        return [td.days, td.seconds, td.microseconds * 10]

    def _nlisten(x):
        if x is None:
            return 0
        return len(x) if isinstance(x, (list, tuple)) else 1

    wrap(AnalyticalPropagator, "analytical")
    wrap(NumericalPropagator, "numerical")
    wrap(Ephem, "ephem")


# ---------------------------------------------------------------------------------------------------------------------------
def _wrap_tle():
    import math
    from beyond.io.tle import Tle
    init = Tle.__init__
    seen = set()

    def __init__(self, text, *args, **kwargs):
        init(self, text, *args, **kwargs)
        try:
            lines = [ln for ln in (text.splitlines() if isinstance(text, str) else list(text)) if str(ln).strip()]
            l1, l2 = lines[-2].strip(), lines[-1].strip()
            if (l1, l2) in seen or len(l1) != 69 or len(l2) != 69:
                return
            seen.add((l1, l2))

            def sgn(x):
                return -1 if x < 0 else 1
            rec = {"l1": list(l1), "l2": list(l2), "norad": int(self.norad_id), "elnb": int(self.element_nb), "rev": int(self.revolutions),
                   "nd": int(round(abs(self.ndot) / 2 * 1e8)), "ndsgn": sgn(self.ndot),
                   "incl": int(round(math.degrees(self.i) * 1e4)), "raan": int(round(math.degrees(self.Ω) * 1e4)), "ecc": int(round(self.e * 1e7)),
                   "argp": int(round(math.degrees(self.ω) * 1e4)), "ma": int(round(math.degrees(self.M) * 1e4)),
                   "mm": int(round(self.n * 86400 / (2 * math.pi) * 1e8)),
                   "epoch": [self.epoch.datetime.year % 100, self.epoch.datetime.timetuple().tm_yday,
                             int(round(((self.epoch.datetime - self.epoch.datetime.replace(hour=0, minute=0, second=0, microsecond=0)).total_seconds()) / 86400 * 1e8))]}
            _emit("tle", rec, always=True)
        except Exception:
            _err()

    Tle.__init__ = __init__


if OUT:
    _wrap_node()          # before any graph of the library is built


def pytest_configure(config):
    if OUT:
        _state["depth"] += 1
        try:
            _wrap_date()
            _wrap_iter()
            _wrap_tle()
        finally:
            _state["depth"] -= 1


def pytest_runtest_setup(item):
    _state["test"] = item.nodeid


def pytest_sessionfinish(session, exitstatus):
    if OUT:
        _state["test"] = "<end>"
        _emit("meta", {"errors": _state["errors"], "skipped": _state["skipped"], "total": _state["total"],
                       "exitstatus": int(exitstatus)}, always=True)
        if _state["fh"] is not None:
            _state["fh"].close()
