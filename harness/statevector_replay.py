"""Replay StateVector.tla action sequences on real StateVector / Orbit objects and compare the projection of every live
handle with the reference model after every action (property C15)."""
import json
import pickle
import signal
import sys

import numpy as np

from beyond.config import config

config.set("eop", "missing_policy", "pass")

from beyond.dates import Date  # noqa: E402
from beyond.orbits import Orbit, StateVector  # noqa: E402
from beyond.orbits.cov import Cov  # noqa: E402
from beyond.orbits.man import ImpulsiveMan  # noqa: E402
from beyond.frames import frames as fr, orient, center  # noqa: E402
from beyond.errors import UnknownFormError, UnknownFrameError  # noqa: E402

DATE = Date(2016, 5, 4, 12, 30, 17)
KEP = [7.2e6, 0.02, 0.9, 1.0, 2.0, 0.7]
BASECOV = np.diag([100.0, 400.0, 900.0, 0.01, 0.04, 0.09]) + 1.0
NAMES = {"cartesian": ["x", "y", "z", "vx", "vy", "vz"], "keplerian": ["a", "e", "i", "Ω", "ω", "ν"],
         "keplerian_mean": ["a", "e", "i", "Ω", "ω", "M"], "spherical": ["r", "θ", "φ", "r_dot", "θ_dot", "φ_dot"]}
ALIAS = {"cartesian": ["x", "y", "z", "x_dot", "y_dot", "z_dot"], "keplerian": ["a", "e", "i", "raan", "omega", "nu"],
         "keplerian_mean": ["a", "e", "i", "Omega", "omega", "M"], "spherical": ["r", "theta", "phi", "r_dot", "theta_dot", "phi_dot"]}
FOREIGN = {"cartesian": "a", "keplerian": "x", "keplerian_mean": "r", "spherical": "vx"}

# a frame that is registered but linked to nothing: conversions to it must fail and leave the object untouched
_lonely = fr.Frame("VfLonely", orient.Orientation("VfLonelyOrient"), center.Earth)
# a frame whose axes are ordinary but whose centre is linked to nothing: the rotation part of a conversion to it works (a covariance
# could follow), the translation part fails - and then nothing at all may have changed
from beyond.constants import Earth as _EarthBody  # noqa: E402
_nocentre = fr.Frame("VfNoCentre", orient.TOD, center.Center("VfIsolatedCentre", body=_EarthBody))


def fingerprint(o):
    c = np.asarray(o.copy(form="cartesian", frame="EME2000"), dtype=float)
    return c


def project(o):
    cov = o.cov
    return {
        "kind": "orbit" if isinstance(o, Orbit) else "statevector",
        "form": o.form.name, "frame": o.frame.name, "fp": fingerprint(o),
        "nmans": len(o.maneuvers), "lst": len(o.notes), "scal": o.counter,
        "cov": None if cov is None else {"fr": cov.frame if isinstance(cov.frame, str) else cov.frame.name,
                                          "tr": float(np.trace(np.asarray(cov, float)[:3, :3]))},
        "date": o.date, "name": o.name,
        # the derived quantities reported for THIS handle (read on every live handle after every action, so that any copy made
        # later comes from an object whose `infos` has been consulted)
        "r_infos": float(o.infos.r), "v_infos": float(o.infos.v),
        "r_own": float(np.linalg.norm(np.asarray(o.copy(form="cartesian"), dtype=float)[:3])),
        "v_own": float(np.linalg.norm(np.asarray(o.copy(form="cartesian"), dtype=float)[3:])),
    }


class Hang(Exception):
    pass


def _alarm(signum, frame):
    raise Hang()


def main(inp, outp):
    signal.signal(signal.SIGALRM, _alarm)
    with open(inp) as fh:
        job = json.load(fh)
    res = {"evaluations": 0, "traces": 0, "clauses": {}, "violations": [], "samples": [], "nontrivial": []}
    kinds = set()

    def clause(name, ok, key, what, data):
        c = res["clauses"].setdefault(name, {"checked": 0, "failed": 0})
        c["checked"] += 1
        if not ok:
            c["failed"] += 1
            if sum(1 for v in res["violations"] if v["key"] == key) < 4:
                res["violations"].append({"key": key, "what": what, "data": data})

    for bi, beh in enumerate(job["behaviours"]):
        signal.alarm(30)
        try:
            one(beh, res, clause, kinds, bi)
        except Hang:
            clause("every behaviour completes (no conversion runs away)", False, "sv/hang",
                   f"behaviour did not complete within 30 s: {beh['hist']}", {"hist": beh["hist"]})
        finally:
            signal.alarm(0)
    res["nontrivial"] = sorted(kinds)
    with open(outp, "w") as fh:
        json.dump(res, fh, default=str)


def one(beh, res, clause, kinds, bi=0):
    if True:
        hist = beh["hist"]
        o0 = Orbit(KEP, DATE, "keplerian", "EME2000", "Kepler", name="sat", notes=["a", "b"], counter=0)
        o0.maneuvers = [ImpulsiveMan(DATE, [1.0, 0, 0], frame="TNW")]
        o0.cov = Cov(o0, BASECOV * 2, fr.EME2000)
        objs = [o0]
        fps = {1: fingerprint(o0)}            # token -> fingerprint
        link = {1: 1}                         # handle -> alias group: as_orbit / as_statevector share mutable metadata
                                              # with their source (isolation is not demanded there, only values/metadata)
        covtr = {2: float(np.trace(BASECOV[:3, :3] * 2))}
        res["traces"] += 1
        ok_all = True
        for step, (act, model) in enumerate(zip(hist, beh["states"]), start=1):
            a = objs[act["a"] - 1]
            op = act["op"]
            opk = {"copy-kw": "copy", "copy-same": "copy", "copyconv-same": "copyconv"}.get(op, op)      # the contract does not tell the doors apart
            data = {"hist": hist[:step], "how": "harness/statevector_replay.py replays the actions on real objects"}
            raised = None
            try:
                # the doors of copy() are part of the behaviour (StateVector.tla CopyDoors / CopyConvDoors)
                if op == "copy":
                    objs.append(a.copy())
                elif op == "copy-kw":
                    objs.append(a.copy(form=a.form.name, frame=a.frame.name))
                elif op == "copy-same":
                    objs.append(a.copy(same=StateVector(np.asarray(a, float), DATE, a.form, a.frame)))
                elif op == "copyconv":
                    objs.append(a.copy(form=act["x"], frame=act["y"]))
                elif op == "copyconv-same":
                    objs.append(a.copy(same=StateVector(KEP, DATE, "keplerian", "EME2000").copy(form=act["x"], frame=act["y"])))
                elif op == "setform":
                    a.form = act["x"]
                elif op == "setframe":
                    a.frame = act["x"]
                elif op == "failform":
                    a.form = "no_such_form"
                elif op == "failframe":
                    a.frame = {"unknown": "NoSuchFrame", "Hill": "Hill", "unconnected": "VfLonely", "nocentre": "VfNoCentre"}[act["x"]]
                elif op == "assign":
                    i = act["y"] - 1
                    before = np.asarray(a, float).copy()
                    newv = before[i] * (1.0 + 1e-3 * (step + 1)) + (1e-4 if before[i] == 0 else 0.0)
                    if act["x"] == "index":
                        a[i] = newv
                    elif act["x"] == "name":
                        setattr(a, NAMES[a.form.name][i], newv)
                    else:
                        a[ALIAS[a.form.name][i]] = newv
                    after = np.asarray(a, float)
                    expect = before.copy()
                    expect[i] = newv
                    clause("assignment by index / name / alias sets exactly that element of the current form",
                           np.array_equal(after, expect), "sv/assign", f"{act}: array {after} expected {expect}", data)
                    nm, al = NAMES[a.form.name][i], ALIAS[a.form.name][i]
                    clause("element access by name, alias and index agree", getattr(a, nm) == a[i] == a[al] == getattr(a, al),
                           "sv/access", f"{nm}/{al}/[{i}] disagree on {a.form.name}", data)
                    fps[model["h"][act["a"] - 1]["val"]] = fingerprint(a)
                elif op == "wrongname":
                    getattr(a, FOREIGN[a.form.name])
                elif op == "setscalar":
                    a.counter = a.counter + 1
                elif op == "mutlist":
                    a.notes.append("x")
                elif op == "appendman":
                    a.maneuvers.append(ImpulsiveMan(DATE, [0, 1.0, 0], frame="QSW"))
                elif op == "replacemans":
                    a.maneuvers = []
                elif op == "setcov":
                    k = model["h"][act["a"] - 1]["cov"]["ver"]
                    a.cov = Cov(a, BASECOV * k, a.frame)
                    covtr[k] = float(np.trace(BASECOV[:3, :3] * k))
                elif op == "mutcov":
                    k = model["h"][act["a"] - 1]["cov"]["ver"]
                    old = float(np.trace(np.asarray(a.cov, float)[:3, :3]))
                    a.cov[:, :] = np.asarray(a.cov, float) * 1.5
                    covtr[k] = old * 1.5
                elif op == "covframe":
                    a.cov.frame = act["x"]
                elif op == "pickle":
                    b = pickle.loads(pickle.dumps(a))
                    objs.append(b)
                    # metadata preserved: form and frame of the unpickled object compare equal to the source's (the library
                    # compares them by identity, e.g. "orbit.form != TLE", "cov.frame == old_frame")
                    same_meta = b.form == a.form and b.frame == a.frame and (a.cov is None or b.cov.frame == a.cov.frame)
                    clause("pickling preserves form and frame (they compare equal to the source's)", bool(same_meta), "sv/pickle-metadata",
                           f"{act}: unpickled form/frame compare unequal to the source's ({b.form} {b.frame})", data)
                elif op == "asorbit":
                    before_prop = getattr(a, "propagator", None) if isinstance(a, Orbit) else None
                    before_keys = sorted(a._data.keys())
                    objs.append(a.as_orbit("Kepler"))
                    # the receiver of a conversion that returns a new object is left as it was: no propagator slipped into a bare
                    # state vector's metadata, an orbit keeps its own propagator object
                    same = sorted(a._data.keys()) == before_keys and (not isinstance(a, Orbit) or a.propagator is before_prop)
                    clause("as_orbit leaves its receiver unchanged (metadata keys, own propagator)", same, "sv/asorbit-receiver",
                           f"{act}: receiver metadata keys {sorted(a._data.keys())} (were {before_keys}); propagator kept: "
                           f"{(not isinstance(a, Orbit)) or a.propagator is before_prop}", data)
                elif op == "assv":
                    objs.append(a.as_statevector())
            except (UnknownFormError, UnknownFrameError, ValueError, AttributeError, KeyError, RuntimeError) as e:
                raised = f"{type(e).__name__}: {e}"
            res["evaluations"] += 1
            kinds.add(op)
            want_raise = model["last"] == "raise"
            clause("operations succeed / fail as the contract says", (raised is not None) == want_raise, f"sv/outcome[{opk}]",
                   f"{act}: raised={raised}, expected raise={want_raise}", data)
            if (raised is not None) != want_raise:
                ok_all = False
                break
            # ---- projection of EVERY live handle equals the model ----------------------------------------------
            for k, (o, m) in enumerate(zip(objs, model["h"]), start=1):
                p = project(o)
                ref = fps[m["val"]]
                scale_p = np.linalg.norm(ref[:3])
                scale_v = np.linalg.norm(ref[3:])
                same_val = np.linalg.norm(p["fp"][:3] - ref[:3]) <= 1e-9 * scale_p and np.linalg.norm(p["fp"][3:] - ref[3:]) <= 1e-9 * scale_v
                mcov = m["cov"]
                cov_ok = (p["cov"] is None) == (not mcov["present"])
                if cov_ok and mcov["present"]:
                    cov_ok = p["cov"]["fr"] == mcov["fr"] and abs(p["cov"]["tr"] - covtr[mcov["ver"]]) <= 1e-8 * covtr[mcov["ver"]]
                acted = k == act["a"] or k == len(objs) and opk in ("copy", "copyconv", "pickle", "asorbit", "assv")
                if want_raise:
                    key = "sv/failed-change-not-atomic" if k == act["a"] else "sv/interference"
                else:
                    key = f"sv/effect[{opk}]" if acted else "sv/interference"
                checks = [("kind", p["kind"] == m["kind"]), ("form", p["form"] == m["form"]), ("frame", p["frame"] == m["frame"]),
                          ("values", bool(same_val)), ("maneuvers", p["nmans"] == m["nmans"]), ("list metadata", p["lst"] == m["lst"]),
                          ("scalar metadata", p["scal"] == m["scal"]), ("covariance", bool(cov_ok)),
                          ("date/name", p["date"] == DATE and p["name"] == "sat"),
                          ("derived quantities (infos) are those of the handle's own coordinates",
                           abs(p["r_infos"] - p["r_own"]) <= 1e-9 * p["r_own"] and abs(p["v_infos"] - p["v_own"]) <= 1e-9 * p["v_own"])]
                bad = [n for n, okk in checks if not okk]
                clause("after every action every live handle shows exactly the state of the value-semantics model", not bad, key,
                       f"handle {k} after {act}: {bad} differ (real form={p['form']} frame={p['frame']} mans={p['nmans']} list={p['lst']} "
                       f"scal={p['scal']} cov={p['cov']}; model {m})", data)
                if bad:
                    ok_all = False
            if not ok_all:
                break
        if len(res["samples"]) < 2 and len(hist) >= 3:
            res["samples"].append({"hist": hist})


if __name__ == "__main__":
    main(sys.argv[1], sys.argv[2])
