"""Record output streams of real iterations with the PHYSICAL listeners (property C10) for trace validation.

For every scenario (orbit, propagator, step, listener set) the real iterator is run twice with the SAME listener
objects.  For every sample the sign of each listener's own function and its visibility guard are logged; for every
event the listener, the label and the sign of the listener's function 8 microseconds before and after the event date
(two-body Taylor shift of the event state itself, so no propagator is involved in judging sharpness)."""
import json
import sys
from datetime import timedelta

import numpy as np

from beyond.config import config

config.set("eop", "missing_policy", "pass")

from beyond.dates import Date  # noqa: E402
from beyond.orbits import Orbit  # noqa: E402
from beyond.io.tle import Tle  # noqa: E402
from beyond.frames.stations import create_station  # noqa: E402
from beyond.propagators.keplernum import KeplerNum  # noqa: E402
from beyond.env.solarsystem import get_body  # noqa: E402
from beyond.propagators import listeners as L  # noqa: E402

ISS = """ISS (ZARYA)
1 25544U 98067A   18124.55610684  .00001524  00000-0  30197-4 0  9997
2 25544  51.6421 236.2139 0003381  47.8509  47.6767 15.54198229111731"""
MOLNIYA = """MOLNIYA 1-90
1 24960U 97054A   18123.22759647  .00000163  00000-0  24467-3 0  9999
2 24960  62.6812 182.7824 6470982 294.8616  12.8538  3.18684355160009"""
DT = 4e-6


def shifted(orb, dt):
    """The event state moved by dt seconds along its own (two-body) trajectory, same frame/form/date+dt."""
    c = orb.copy(form="cartesian")
    mu = c.frame.center.body.mu
    r = np.array(c[:3], dtype=float)
    v = np.array(c[3:], dtype=float)
    a = -mu * r / np.linalg.norm(r) ** 3
    new = c.copy()
    new[:3] = r + v * dt + 0.5 * a * dt * dt
    new[3:] = v + a * dt
    new.date = c.date + timedelta(microseconds=round(dt * 1e6))
    return new


def sgn(x):
    return int(np.sign(x))


def guard(lis, cls, orb):
    if cls == "anomaly":
        return bool(abs(lis._diff(orb)) < 2)
    if cls == "mask":
        return bool(orb.copy(frame=lis.station, form="spherical").phi > 0)
    if cls == "max":
        o = orb.copy(frame=lis.station, form="spherical")
        return bool(o.phi > 0 and not o.phi_dot > 0)
    if cls == "radial":
        return bool(not lis.sight or orb.copy(frame=lis.frame, form="spherical").phi > 0)
    return True


def build_listeners(names, station, mstation, stations=None):
    out = []
    default = station
    for n in names:
        station = default
        if "@" in n:
            n, _, where = n.partition("@")
            station = stations[where]
        if n == "node":
            out.append((L.NodeListener(), "node"))
        elif n == "apside":
            out.append((L.ApsideListener(), "apside"))
        elif n.startswith("anomaly"):
            _, kind, val = n.split(":")
            out.append((L.AnomalyListener(float(val), kind), "anomaly"))
        elif n == "umbra":
            out.append((L.LightListener("umbra"), "umbra"))
        elif n == "penumbra":
            out.append((L.LightListener("penumbra"), "penumbra"))
        elif n == "terminator":
            out.append((L.TerminatorListener(), "terminator"))
        elif n == "signal":
            out.append((L.StationSignalListener(station), "signal"))
        elif n == "signal10":
            out.append((L.StationSignalListener(station, np.radians(10)), "signal"))
        elif n == "max":
            out.append((L.StationMaxListener(station), "max"))
        elif n == "mask":
            out.append((L.StationMaskListener(station if station is not default else mstation), "mask"))
        elif n == "radial":
            out.append((L.RadialVelocityListener(station, sight=True), "radial"))
        else:
            raise ValueError(n)
    return out


def source(sc):
    if sc["orbit"] == "iss":
        orb = Tle(ISS).orbit()
    elif sc["orbit"] == "molniya":
        orb = Tle(MOLNIYA).orbit()
    else:
        a, e, i = sc["kep"]
        orb = Orbit([a, e, i, 1.0, 2.0, 0.5], Date(2018, 5, 4, 13, 20, 47), "keplerian", "EME2000", "Kepler")
    p = sc["propagator"]
    if p == "kepler" and sc["orbit"] in ("iss", "molniya"):
        orb = orb.copy(form="keplerian", frame="EME2000")
        orb.propagator = "Kepler"
    elif p == "keplernum":
        orb = orb.copy(form="cartesian", frame="EME2000")
        orb.propagator = KeplerNum(timedelta(seconds=sc["step"]), get_body("Earth"))
    return orb


def main(inp, outp):
    with open(inp) as fh:
        job = json.load(fh)
    station = create_station("VfTls", (43.604482, 1.443962, 172.0))
    az = np.radians([0, 60, 120, 180, 240, 300, 360])
    el = np.radians([2.0, 5.0, 1.0, 8.0, 3.0, 0.5, 2.0])
    # documented convention: azimuths counterclockwise strictly increasing, last one 2 pi
    mstation = create_station("VfMask", (43.604482, 1.443962, 172.0), mask=[list(2 * np.pi - az[::-1]), list(el[::-1])])
    # a second site from which a Molniya orbit shows two elevation maxima with an in-view minimum between them
    stations = {"asia": create_station("VfAsia", (35.0, 80.0, 1000.0)), "south": create_station("VfSouth", (-33.9, 18.4, 50.0))}
    # a skyline: eight obstacles 25 degrees high with steep flanks on a 3-degree horizon - a satellite that is still climbing
    # disappears behind a flank, one that is already descending reappears on the far side
    sky_az, sky_el = [], []
    for k in range(8):
        for da, e in ((0, 3), (10, 3), (15, 25), (30, 25), (35, 3)):
            sky_az.append(45 * k + da)
            sky_el.append(e)
    sky_az.append(360)
    sky_el.append(3)
    stations["skyline"] = create_station("VfSkyline", (43.604482, 1.443962, 172.0), mask=[list(np.radians(sky_az)), list(np.radians(sky_el))])
    traces = []
    notes = []
    for sc in job["scenarios"]:
        lis = build_listeners(sc["listeners"], station, mstation, stations)
        objs = [x[0] for x in lis]
        classes = [x[1] for x in lis]
        orb = source(sc)
        start = orb.date + timedelta(seconds=sc.get("offset", 0))
        step = timedelta(seconds=sc["step"])
        stop = timedelta(seconds=sc["duration"])
        if sc["propagator"] == "ephem":
            src = orb.ephem(start=start, stop=stop + step * 8, step=step)
            kw = {"start": start, "stop": stop, "step": timedelta(seconds=sc["ephem_step"])} if sc.get("ephem_step") else {"stop": start + stop}
        elif sc["propagator"] == "keplernum":
            src = orb
            start = orb.date
            kw = {"stop": stop, "step": orb.propagator.step}
        else:
            src = orb
            kw = {"start": start, "stop": stop, "step": step}
        for p in range(sc.get("passes", 2)):
            items = []
            t0 = start
            for o in src.iter(listeners=objs, **kw):
                dt = o.date - t0
                s = dt.days * 86400 + dt.seconds
                us = dt.microseconds
                ev = getattr(o, "event", None)
                if ev is None:
                    sg, gd = [], []
                    for lo, c in lis:
                        sg.append(sgn(lo(o)))
                        gd.append(guard(lo, c, o))
                    items.append({"k": "S", "s": s, "us": us, "sg": sg, "gd": gd})
                else:
                    idx = objs.index(ev.listener)
                    lo, c = lis[idx]
                    # sign of the listener's own function a few microseconds before / after the event date, on states given
                    # by the SAME propagation function the bisection used (the frame chain quantises time at ~40 us
                    # through float Julian dates, so a Taylor-shifted copy of the event state would not see the step).
                    # The numerical propagator's propagate() re-integrates and differs by millimetres from the table the
                    # events were bisected on: sharpness is left undecided there (0, 0).
                    if sc["propagator"] == "keplernum":
                        before = after = 0
                    else:
                        before = sgn(lo(src.propagate(o.date - timedelta(microseconds=4))))
                        after = sgn(lo(src.propagate(o.date + timedelta(microseconds=4))))
                        if before == after:
                            # a slowly varying quantity (Molniya elevation against a mask: 4e-10 rad in 4 us) is dominated at this
                            # scale by the time quantisation of the frame chain and may flip more than once around its zero:
                            # "changes sign within a few microseconds" = some sign change inside [-8 us, +8 us]
                            around = [sgn(lo(src.propagate(o.date + timedelta(microseconds=k)))) for k in (-8, -2, -1, 0, 1, 2, 8)]
                            if any(x != before for x in around):
                                before, after = -1, 1
                    lab = ev.info
                    if c == "anomaly":
                        want = np.degrees(lo.value) % 360
                        try:
                            got = float(lab.split("=")[1]) % 360
                            lab = "ok" if min(abs(got - want), 360 - abs(got - want)) < 0.011 else f"bad:{lab}"
                        except Exception:
                            lab = f"bad:{lab}"
                    items.append({"k": "E", "s": s, "us": us, "l": idx + 1, "lab": lab, "before": before, "after": after})
            traces.append({"id": f"{sc['name']}#pass{p + 1}", "classes": classes, "items": items,
                           "scenario": sc})
            notes.append({"id": traces[-1]["id"], "samples": sum(1 for x in items if x["k"] == "S"),
                          "events": [f"{classes[x['l'] - 1]}:{x['lab']}" for x in items if x["k"] == "E"]})
    # ---- closed-form Keplerian event times: on a two-body orbit the apsides, node crossings and anomaly crossings happen at
    #      M = 0 / pi, nu = -omega / pi - omega, and at the requested anomaly; t = epoch + (M_target - M_0 + 2 k pi) / n
    kep_law = {"checked": 0, "failed": 0, "examples": []}

    def mean_of(kind, val, e, w):
        val = float(val)
        if kind == "mean":
            return val
        if kind == "eccentric":
            E = val
        else:
            nu = val - w if kind == "aol" else val
            E = 2 * np.arctan2(np.sqrt(1 - e) * np.sin(nu / 2), np.sqrt(1 + e) * np.cos(nu / 2))
        return E - e * np.sin(E)
    for tr_ in traces:
        sc = tr_["scenario"]
        if sc["propagator"] != "kepler" or not tr_["id"].endswith("#pass1"):
            continue
        o0 = source(sc)
        k0 = o0.copy(form="keplerian", frame="EME2000")
        a_, e_, w_, nu0 = float(k0[0]), float(k0[1]), float(k0[4]), float(k0[5])
        n_ = np.sqrt(o0.frame.center.body.mu / a_ ** 3)
        M0 = mean_of("true", nu0, e_, w_)
        names = [x.partition("@")[0] for x in sc["listeners"]]
        for it in tr_["items"]:
            if it["k"] != "E":
                continue
            nm = names[it["l"] - 1]
            if nm == "apside":
                Mt = 0.0 if it["lab"] == "Periapsis" else np.pi
            elif nm == "node":
                Mt = mean_of("true", (-w_ if it["lab"] == "Asc Node" else np.pi - w_), e_, w_)
            elif nm.startswith("anomaly"):
                _, kind, val = nm.split(":")
                Mt = mean_of(kind, val, e_, w_)
            else:
                continue
            t_ev = sc.get("offset", 0) + it["s"] + it["us"] * 1e-6
            phase = ((Mt - M0 - n_ * t_ev + np.pi) % (2 * np.pi)) - np.pi         # how far (in mean anomaly) the event is from where it must be
            dt = abs(phase) / n_
            kep_law["checked"] += 1
            if dt > 1e-3:
                kep_law["failed"] += 1
                if len(kep_law["examples"]) < 4:
                    kep_law["examples"].append({"scenario": sc["name"], "listener": nm, "label": it["lab"], "t_s": t_ev, "off_by_s": float(dt)})
    # ---- laws of the light listener: (a) illumination is a geometric fact - the frame it is asked to compute in does not matter;
    #      (b) away from the shadow boundaries it agrees with an independent conical-shadow computation
    from beyond.propagators.listeners import LightListener
    laws = {"frame": {"checked": 0, "failed": 0, "examples": []}, "cone": {"checked": 0, "failed": 0, "examples": []}}
    sun_body = get_body("Sun")
    r_e = get_body("Earth").r
    for sc in job["scenarios"]:
        if not any(x in ("umbra", "penumbra") for x in sc["listeners"]) or sc["propagator"] in ("keplernum", "ephem"):
            continue
        orb = source(sc)
        for k in range(0, 60):
            o = orb.propagate(orb.date + timedelta(seconds=sc.get("offset", 0) + k * sc["duration"] / 60.0))
            for typ in ("umbra", "penumbra"):
                ref = LightListener(typ)(o)
                for fname in ("EME2000", "TEME", "ITRF", "MOD", "TOD"):
                    val = LightListener(typ, frame=fname)(o)
                    laws["frame"]["checked"] += 1
                    if np.sign(val) != np.sign(ref):
                        laws["frame"]["failed"] += 1
                        if len(laws["frame"]["examples"]) < 3:
                            laws["frame"]["examples"].append({"scenario": sc["name"], "t_s": k * sc["duration"] / 60.0, "type": typ, "frame": fname,
                                                              "value": float(val), "value_default_frame": float(ref)})
                # independent cone: Sun and satellite in EME2000, shadow axis opposite to the Sun
                xs = np.asarray(sun_body.propagate(o.date).copy(frame="EME2000", form="cartesian"), float)[:3]
                xo = np.asarray(o.copy(frame="EME2000", form="cartesian"), float)[:3]
                ds = np.linalg.norm(xs)
                along = -float(xo @ xs) / ds                 # distance behind the Earth along the shadow axis
                across = float(np.linalg.norm(xo + along * xs / ds))
                if typ == "umbra":
                    radius = r_e - along * (sun_body.r - r_e) / ds          # the umbra cone narrows
                else:
                    radius = r_e + along * (sun_body.r - r_e) / ds          # the library's penumbra opens with the same half-angle
                margin = across - radius if along > 0 else 1e9
                if abs(margin) > 3000.0:                     # 3 km from the boundary: 0.4 s of motion at most
                    laws["cone"]["checked"] += 1
                    lit = margin > 0
                    if lit != (ref > 0):
                        laws["cone"]["failed"] += 1
                        if len(laws["cone"]["examples"]) < 3:
                            laws["cone"]["examples"].append({"scenario": sc["name"], "t_s": k * sc["duration"] / 60.0, "type": typ, "margin_m": margin,
                                                             "listener": float(ref)})
    with open(outp, "w") as fh:
        laws["kepler"] = kep_law
        json.dump({"traces": traces, "notes": notes, "laws": laws}, fh)


if __name__ == "__main__":
    main(sys.argv[1], sys.argv[2])
