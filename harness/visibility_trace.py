"""Records calls of TopocentricFrame.visibility (every accepted style of passing listeners, repeated calls re-using the caller's
objects) together with an independent evaluation of the sampling grid; judged by VisibilityTrace.tla."""
import json
import sys
from datetime import timedelta

import numpy as np

from beyond.config import config

config.set("eop", "missing_policy", "pass")

from beyond.dates import Date  # noqa: E402
from beyond.orbits import Orbit  # noqa: E402
from beyond.io.tle import Tle  # noqa: E402
from beyond.frames.stations import create_station  # noqa: E402
from beyond.propagators import listeners as L  # noqa: E402
from beyond.propagators.keplernum import KeplerNum  # noqa: E402
from beyond.env.solarsystem import get_body  # noqa: E402

START = Date(2020, 3, 4, 5, 6, 7)


def sgn(x, eps):
    return 0 if abs(x) < eps else (1 if x > 0 else -1)


def tsplit(d):
    us = round((d - START).total_seconds() * 1e6)
    return {"s": int(us // 1000000), "us": int(us % 1000000)}


def main(inp, outp):
    with open(inp) as fh:
        job = json.load(fh)
    stations = {"plain": create_station("VfVis", (43.604482, 1.443962, 172.0)),
                "south": create_station("VfVisS", (-33.9, 18.4, 50.0)),
                "masked": create_station("VfVisM", (43.604482, 1.443962, 172.0),
                                         mask=[list(np.radians([0, 90, 180, 270, 360])), list(np.radians([2.0, 6.0, 1.0, 4.0, 2.0]))])}
    traces = []
    for sc in job["scenarios"]:
        kep = sc["kep"]
        if sc["propagator"] == "keplernum":
            orb = Orbit(kep, START, "keplerian", "EME2000", KeplerNum(timedelta(seconds=60), get_body("Earth"))).copy(form="cartesian")
        else:
            orb = Orbit(kep, START, "keplerian", "EME2000", "Kepler")
        if sc["propagator"] == "ephem":
            orb = orb.ephem(start=START - timedelta(seconds=600), stop=timedelta(seconds=sc["duration"] + 1200), step=timedelta(seconds=45))
        station = stations[sc["station"]]
        step = timedelta(seconds=sc["step"])
        stop = timedelta(seconds=sc["duration"])
        # independent evaluation of the grid (analytical two-body state of the same elements)
        ref = Orbit(kep, START, "keplerian", "EME2000", "Kepler")
        grid = []
        for d in Date.range(START, stop, step, inclusive=True):
            p = ref.propagate(d).copy(frame=station, form="spherical")
            g = tsplit(d)
            g.update(up=sgn(float(p.phi), 1e-7), rise=sgn(float(p.phi_dot), 1e-9))
            grid.append(g)
        # the caller's objects, re-used over the repeated calls
        user = L.NodeListener()
        lst = [user]
        style = sc["style"]
        for rep in range(sc["repeats"]):
            kw = {"start": START, "stop": stop, "step": step}
            if style == "events-true":
                kw["events"] = True
            elif style == "events-true+listeners":
                kw.update(events=True, listeners=lst)
            elif style == "events-list":
                kw["events"] = lst
            elif style == "events-listener":
                kw["events"] = user
            elif style == "events-listener+listeners":
                kw.update(events=user, listeners=lst)
            elif style == "events-signal10":
                # the caller adds a listener of the SAME TYPE as one of the station's own: AOS / LOS at 10 degrees come on top of, not
                # instead of, the horizon ones
                kw["events"] = L.StationSignalListener(station, np.radians(10))
            elif style == "events-own-types":
                kw["events"] = [L.StationSignalListener(station, np.radians(5)), L.StationMaxListener(stations["south"])]
            stream = []
            err = None
            try:
                for p in station.visibility(orb, **kw):
                    it = tsplit(p.date)
                    ev = p.event
                    if ev is None:
                        it.update(k="S", cls="-", lab="-", z=0, info="-")
                    else:
                        cname = type(ev).__name__
                        cls = {"SignalEvent": "signal", "MaxEvent": "max", "MaskEvent": "mask"}.get(cname, "other")
                        if cls != "other" and getattr(getattr(ev, "listener", None), "station", station) is not station:
                            cls = "other-station"   # an AOS / LOS / MAX about ANOTHER station: the library lets it through by its class
                        if cls == "signal" and float(getattr(ev, "elev", 0) or 0) != 0.0:
                            cls = "other"          # AOS / LOS at another threshold than the horizon: a listener of the caller's
                        lab = str(ev.info).split()[0] if cls != "other" else "other"
                        zval = abs(float(p.phi)) if cls == "signal" else abs(float(p.phi_dot)) if cls == "max" else 0.0
                        it.update(k="E", cls=cls, lab=lab, z=int(min(round(zval * 1e9), 2000000000)), info=str(ev.info))
                    it["up"] = sgn(float(p.phi), 1e-7) if it["k"] == "S" or it["cls"] in ("other", "other-station") else 0
                    stream.append(it)
                    if len(stream) > 20000:
                        raise RuntimeError("more than 20000 items")
            except Exception as e:
                err = f"{type(e).__name__}: {e}"
            # selections of the stream by the library's helpers, each on a further identical call (only for the first recorded call)
            picks, filtered, flt = [], [], []
            if rep == 0 and err is None:
                infos = sorted({x["info"] for x in stream if x["k"] == "E"})
                fresh_kw = lambda: dict(kw, listeners=list(kw["listeners"])) if "listeners" in kw else dict(kw)      # noqa: E731
                for info in infos[:3] + ["NO SUCH EVENT"]:
                    nmatch = sum(1 for x in stream if x["k"] == "E" and x["info"] == info)
                    for off in sorted({0, max(nmatch - 1, 0), nmatch}):
                        try:
                            r_ = L.find_event(station.visibility(orb, **fresh_kw()), info, offset=off)
                            pk = tsplit(r_.date)
                            pk.update(info=info, offset=off, found=True)
                        except RuntimeError:
                            pk = {"s": 0, "us": 0, "info": info, "offset": off, "found": False}
                        picks.append(pk)
                flt = infos[:2] if len(infos) >= 2 and sc["step"] % 120 == 0 else []
                filtered = [tsplit(x.date) for x in L.events_iterator(station.visibility(orb, **fresh_kw()), *flt)]
            traces.append({"scenario": sc["name"], "style": style, "rep": rep, "grid": grid, "stream": stream, "error": err,
                           "caller_list_len": len(lst), "picks": picks, "filtered": filtered if rep == 0 and err is None else None, "filter": flt})
    with open(outp, "w") as fh:
        json.dump({"traces": traces}, fh)


if __name__ == "__main__":
    main(sys.argv[1], sys.argv[2])
