"""Replay Frames.tla configurations on the real library: synthetic exact frames are registered (in a forked child per
configuration, the registries being process-global) and StateVector.copy(frame=...) must return the specification's
integers (property C02, exact clause)."""
import json
import os
import sys

import numpy as np

from beyond.config import config

config.set("eop", "missing_policy", "pass")

from beyond.dates import Date  # noqa: E402
from beyond.orbits import StateVector  # noqa: E402
from beyond.frames import frames as fr  # noqa: E402
import synth  # noqa: E402

DATE = Date(2016, 5, 4, 12, 30, 17)


def attrs(job, k, v):
    pal, rates, offs = job["Palette"], job["Rates"], job["Offsets"]
    return (pal[(k + v) % len(pal)], rates[(k + 2 * v) % len(rates)], (k + v) % 2 == 0, offs[(k * 2 + v) % len(offs)])


def run_config(job, cfg, tag):
    par, v = cfg["par"], cfg["var"]
    frames = {0: fr.EME2000}
    for k in range(1, job["NF"] + 1):
        rot, rate, rev, off = attrs(job, k, v)
        frames[k] = synth.synth_frame(f"{tag}S{k}", rot, parent_frame=frames[par[k - 1]],
                                      rate=None if not any(rate) else rate, reverse=rev,
                                      offset=None if not any(off) else off)
    out = []
    x = np.array(job["State"], dtype=float)
    for vec in cfg["vectors"]:
        a, b, m = vec["src"], vec["dst"], vec["mid"]
        sv = StateVector(x, DATE, "cartesian", frames[a])
        try:
            direct = np.asarray(sv.copy(frame=frames[b]), dtype=float)
            via = np.asarray(sv.copy(frame=frames[m]).copy(frame=frames[b]), dtype=float)
            back = np.asarray(sv.copy(frame=frames[b]).copy(frame=frames[a]), dtype=float)
            out.append({"direct": list(direct), "via": list(via), "back": list(back)})
        except Exception as e:
            out.append({"error": f"{type(e).__name__}: {e}"})
    return out


def main(inp, outp):
    with open(inp) as fh:
        job = json.load(fh)
    res = {"evaluations": 0, "traces": 0, "clauses": {}, "violations": [], "samples": [], "nontrivial": []}

    def clause(name, ok, key, what, data):
        c = res["clauses"].setdefault(name, {"checked": 0, "failed": 0})
        c["checked"] += 1
        if not ok:
            c["failed"] += 1
            if sum(1 for v in res["violations"] if v["key"] == key) < 4:
                res["violations"].append({"key": key, "what": what, "data": data})

    x0 = np.array(job["State"], dtype=float)
    for ci, cfg in enumerate(job["configs"]):
        r, w = os.pipe()
        pid = os.fork()
        if pid == 0:
            os.close(r)
            try:
                got = run_config(job, cfg, f"c{ci}")
            except Exception:
                import traceback
                got = {"crash": traceback.format_exc()}
            with os.fdopen(w, "w") as fh:
                json.dump(got, fh)
            os._exit(0)
        os.close(w)
        with os.fdopen(r) as fh:
            got = json.load(fh)
        os.waitpid(pid, 0)
        if isinstance(got, dict):
            print(got["crash"], file=sys.stderr)
            sys.exit(3)
        res["traces"] += 1
        for vec, g in zip(cfg["vectors"], got):
            res["evaluations"] += 1
            data = {"par": cfg["par"], "var": cfg["var"], "src": vec["src"], "dst": vec["dst"], "mid": vec["mid"],
                    "attributes": [attrs(job, k, cfg["var"]) for k in range(1, job["NF"] + 1)],
                    "how": "harness/frames_replay.py registers synthetic frames S1..SNF (rotation, rate, direction, centre offset) and "
                           "converts State with StateVector.copy(frame=)"}
            if "error" in g:
                clause("conversion between connected frames succeeds", False, "frames/raises", g["error"], data)
                continue
            want = np.array(vec["out"], dtype=float)
            sc_p = max(np.linalg.norm(want[:3]), np.linalg.norm(x0[:3]), 1.0)
            sc_v = max(np.linalg.norm(want[3:]), np.linalg.norm(x0[3:]), 1.0)

            def close(u, t):
                u = np.array(u)
                return np.linalg.norm(u[:3] - t[:3]) <= 1e-9 * sc_p and np.linalg.norm(u[3:] - t[3:]) <= 1e-9 * sc_v
            clause("A->B gives the exact state of the kinematic contract (rotation, rate coupling, centre offsets)",
                   close(g["direct"], want), "frames/exact", f"{vec['src']}->{vec['dst']}: got {g['direct']} expected {vec['out']}", data)
            clause("A->B->C equals A->C", close(g["via"], want), "frames/path", f"{vec['src']}->{vec['mid']}->{vec['dst']}: got {g['via']} expected {vec['out']}", data)
            clause("A->B->A is the identity", close(g["back"], x0), "frames/inverse", f"{vec['src']}->{vec['dst']}->{vec['src']}: got {g['back']}", data)
        if len(res["samples"]) < 2:
            res["samples"].append({"par": cfg["par"], "var": cfg["var"], "vector": cfg["vectors"][0]})
        res["nontrivial"].append(json.dumps([cfg["par"], cfg["var"]]))
    with open(outp, "w") as fh:
        json.dump(res, fh)


if __name__ == "__main__":
    main(sys.argv[1], sys.argv[2])
