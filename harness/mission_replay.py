"""Replay of Mission.tla (LTAN, Walker) and the laws tying the mission-design helpers to the dynamics (property C19)."""
import json
import math
import sys
from datetime import timedelta

import numpy as np

from beyond.config import config

config.set("eop", "missing_policy", "pass")

from beyond.dates import Date  # noqa: E402
from beyond.orbits import Orbit, StateVector  # noqa: E402
from beyond.constants import Earth  # noqa: E402
from beyond.utils.ltan import raan2ltan, ltan2raan, _true_sun_raan, _mean_sun_raan  # noqa: E402
from beyond.utils.constellation import WalkerStar, WalkerDelta  # noqa: E402
from beyond.utils.leo import sso  # noqa: E402
from beyond.utils.lambert import lambert  # noqa: E402
from beyond.utils.interplanetary import bplane  # noqa: E402
from beyond.utils.beta import beta  # noqa: E402

TWO_PI = 2 * math.pi


def angdiff(a, b):
    d = (a - b) % TWO_PI
    return min(d, TWO_PI - d)


def main(inp, outp):
    with open(inp) as fh:
        job = json.load(fh)
    res = {"evaluations": 0, "traces": 0, "clauses": {}, "violations": [], "samples": [], "nontrivial": []}

    def clause(name, ok, key, what, data):
        c = res["clauses"].setdefault(name, {"checked": 0, "failed": 0})
        c["checked"] += 1
        if not ok:
            c["failed"] += 1
            if sum(1 for v in res["violations"] if v["key"] == key) < 4:
                res["violations"].append({"key": key, "what": what, "data": data})

    rng = np.random.default_rng(job.get("seed", 0))
    # ---- LTAN -----------------------------------------------------------------------------------------------------------
    for v in job.get("ltan", []):
        date = Date(*v["date"])
        if v["label"] != "UTC":
            date = date.change_scale(v["label"])
        for typ in ("mean", "true"):
            sun = (_true_sun_raan(date) if typ == "true" else _mean_sun_raan(date)) % TWO_PI
            for r_s in v["raans"]:
                raan = r_s * TWO_PI / 86400.0
                lt = raan2ltan(date, raan, typ)
                back = ltan2raan(date, lt, typ)
                want = (43200 + (raan - sun) * 43200 / math.pi) % 86400
                d = abs(lt - want)
                res["evaluations"] += 1
                clause("LTAN and RAAN are exact inverses of each other, affine around the Sun's right ascension (noon when the node points at the Sun)",
                       angdiff(back, raan) <= 1e-9 and min(d, 86400 - d) <= 1e-6 and 0 <= lt < 86400, f"ltan/{typ}",
                       f"{typ} at {v['date']} ({v['label']}): raan {raan} -> ltan {lt} (expected {want}) -> raan {back}", {"date": v["date"], "raan_s": r_s, "type": typ})
            noon = raan2ltan(date, sun, typ)
            clause("a node pointing at the Sun has local time 12 h", min(abs(noon - 43200), 86400 - abs(noon - 43200)) <= 1e-6, f"ltan/noon[{typ}]", f"{noon}", {"date": v["date"]})
    # ---- Walker ---------------------------------------------------------------------------------------------------------
    for v in job.get("walker", []):
        t, p, f = v["t"], v["p"], v["f"]
        for cls, span in ((WalkerDelta, TWO_PI), (WalkerStar, math.pi)):
            raan0 = 0.37
            w = cls(t, p, f, raan0=raan0)
            fleet = list(w.iter_fleet())
            ok = len(fleet) == t
            k = 0
            for i in range(p):
                for j in range(t // p):
                    if k < len(fleet):
                        raan, nu = fleet[k]
                        ok = ok and angdiff(raan, raan0 + i * span / p) <= 1e-9 and angdiff(nu, TWO_PI * v["fleet"][i][j] / t) <= 1e-9
                        ok = ok and abs(w.raan(i) - raan) <= 1e-12 and abs(w.nu(i, j) - nu) <= 1e-12
                    k += 1
            res["evaluations"] += 1
            clause("Walker constellations contain the stated number of satellites, evenly spaced planes and the stated inter-plane phasing", ok,
                   f"walker/{cls.__name__}", f"{cls.__name__} {t}/{p}/{f}: fleet {fleet[:4]}...", {"t": t, "p": p, "f": f})
        res["nontrivial"].append(json.dumps([t, p, f]))
    # ---- sun-synchronous solver: inverse triple and J2 node drift = mean solar rate ------------------------------------------
    w_sun = TWO_PI / (365.256363004 * 86400.0)
    for _ in range(job.get("nsso", 0)):
        a = float(rng.uniform(6.6e6, 7.9e6))
        e = float(rng.uniform(0.0, 0.2))
        try:
            i = float(sso(a=a, e=e))
        except Exception as ex:
            clause("sso solver returns a value", False, "sso/raises", f"{type(ex).__name__}: {ex}", {"a": a, "e": e})
            continue
        if not math.isfinite(i):
            continue
        a2 = float(sso(e=e, i=i))
        e2 = float(sso(a=a, i=i))
        # first-order secular J2 node rate (the formula verified against the J2 propagator by C05 / Kepler.tla)
        n = math.sqrt(Earth.mu / a ** 3)
        pp = a * (1 - e * e)
        rate = -1.5 * n * Earth.J2 * (Earth.r / pp) ** 2 * math.cos(i)
        res["evaluations"] += 1
        clause("the sun-synchronous solver is self-inverse and makes the J2 node drift equal the mean solar rate",
               abs(a2 - a) <= 1e-6 * a and abs(e2 - e) <= 1e-7 + 1e-6 * e and abs(rate - w_sun) <= 1e-9 * w_sun, "sso/triple",
               f"a={a} e={e}: i={i}, a back {a2}, e back {e2}, node rate {rate} vs {w_sun}", {"a": a, "e": e})
        # and the J2 propagator itself drifts the node at that rate
        o = Orbit([a, e, i, 1.0, 0.5, 0.2], Date(2020, 1, 1), "keplerian_mean", "EME2000", "J2")
        dt = 86400.0 * 3
        o2 = o.propagate(o.date + timedelta(seconds=dt)).copy(form="keplerian_mean")
        drift = ((float(o2[3]) - 1.0 + math.pi) % TWO_PI - math.pi) / dt
        clause("the J2 propagator drifts the node of a sun-synchronous orbit at the mean solar rate", abs(drift - w_sun) <= 1e-6 * w_sun, "sso/j2-propagator",
               f"measured {drift} vs {w_sun}", {"a": a, "e": e, "i": i})
    # ---- Lambert: the returned velocities are those of the two-body orbit joining the two positions ----------------------------
    # the attracting body is the one of the states' frame: the Earth, or the Sun (the ordinary use of a Lambert solver and of a B-plane),
    # or the Moon - lengths scaled accordingly, tolerances relative
    fframe, fmu, fscale, fvs = "EME2000", Earth.mu, 1.0, 1.0
    if job.get("body") in ("sun", "moon"):
        from beyond.constants import Moon, Sun
        from beyond.frames import frames as fr, orient, center
        body = Sun if job["body"] == "sun" else Moon
        fframe = fr.Frame("VfM" + job["body"], orient.EME2000, center.Center("VfM" + job["body"] + "C", body=body))
        fmu, fscale = body.mu, (1.0e4 if job["body"] == "sun" else 0.3)
        fvs = math.sqrt(fmu / (1.5e7 * fscale)) / math.sqrt(Earth.mu / 1.5e7)        # typical speed relative to the Earth case
    for _ in range(job.get("nlambert", 0)):
        a = float(rng.uniform(7.0e6, 3.0e7)) * fscale
        e = float(rng.uniform(0.0, 0.6))
        inc = float(rng.uniform(0.05, 3.09))
        kep = [a, e, inc, float(rng.uniform(0, TWO_PI)), float(rng.uniform(0, TWO_PI)), float(rng.uniform(0, TWO_PI))]
        T = TWO_PI * math.sqrt(a ** 3 / fmu)
        frac = float(rng.uniform(0.05, 0.9)) if _ % 2 else float(rng.uniform(0.02, 0.12))      # every other transfer is a short arc
        o0 = Orbit(kep, Date(2020, 1, 1), "keplerian", fframe, "Kepler")
        if _ % 5 == 4:
            # nearly opposed positions (swept angle pi -/+ delta): "not collinear", but the plane is defined by a small cross product
            delta = [1e-2, -1e-3, 1e-4, -1e-5, 3e-6][(_ // 5) % 5]
            tgt = Orbit(kep[:5] + [kep[5] + math.pi - delta], o0.date, "keplerian", fframe, "Kepler")
            m0, m1 = float(o0.copy(form="keplerian_mean")[5]), float(tgt.copy(form="keplerian_mean")[5])
            frac = ((m1 - m0) % TWO_PI) / TWO_PI
        o1 = o0.propagate(o0.date + timedelta(seconds=frac * T))
        c0, c1 = np.asarray(o0.copy(form="cartesian"), float), np.asarray(o1.copy(form="cartesian"), float)
        hz = np.cross(c0[:3], c0[3:])[2]
        data = {"kep": kep, "fraction_of_period": frac, "prograde": bool(hz > 0), "central_body": job.get("body", "earth")}
        try:
            s0, s1 = lambert(o0.copy(form="cartesian"), o1.copy(form="cartesian"), prograde=bool(hz > 0))
        except Exception as ex:
            clause("the Lambert solver returns a solution for an elliptic transfer of less than one revolution", False, "lambert/raises", f"{type(ex).__name__}: {ex}", data)
            continue
        res["evaluations"] += 1
        arr = Orbit(np.asarray(s0), o0.date, "cartesian", fframe, "Kepler").propagate(o1.date)
        miss = float(np.linalg.norm(np.asarray(arr.copy(form="cartesian"), float)[:3] - c1[:3]))
        dv0 = float(np.linalg.norm(np.asarray(s0, float)[3:] - c0[3:]))
        dv1 = float(np.linalg.norm(np.asarray(s1, float)[3:] - c1[3:]))
        clause("the Lambert velocities, propagated with two-body dynamics for the transfer time, arrive at the target position within metres",
               miss <= 10.0 * max(1.0, fscale / 7.0) and dv0 <= 1e-2 * fvs and dv1 <= 1e-2 * fvs, "lambert/miss", f"miss distance {miss:.3f} m, velocity errors {dv0:.2e} {dv1:.2e} m/s for {kep} frac {frac:.3f}", data)
    # ---- B-plane of hyperbolic approaches --------------------------------------------------------------------------------------
    for _ in range(job.get("nbplane", 0)):
        e = float(rng.uniform(1.05, 10))
        rp = float(rng.uniform(7e6, 5e7)) * fscale
        a = rp / (1 - e)
        nuinf = math.acos(-1 / e)
        nu = float(rng.uniform(-0.9, 0.9)) * nuinf
        kep = [a, e, float(rng.uniform(0.05, 3.0)), float(rng.uniform(0, TWO_PI)), float(rng.uniform(0, TWO_PI)), nu % TWO_PI]
        o = StateVector(kep, Date(2020, 1, 1), "keplerian", fframe)
        bp = bplane(o)
        S, T, R, B, h = (np.asarray(x, float) for x in (bp.S, bp.T, bp.R, bp.B, bp.h))
        far = list(kep)
        far[5] = (-0.9999999 * nuinf) % TWO_PI
        vfar = np.asarray(StateVector(far, Date(2020, 1, 1), "keplerian", fframe).copy(form="cartesian"), float)[3:]
        vhat = vfar / np.linalg.norm(vfar)
        hh = h / np.linalg.norm(h)
        res["evaluations"] += 1
        ok = abs(np.linalg.norm(S) - 1) <= 1e-9 and abs(S @ T) <= 1e-9 and abs(S @ R) <= 1e-9 and abs(T @ R) <= 1e-9 and abs(np.linalg.norm(T) - 1) <= 1e-9 \
            and abs(np.linalg.norm(R) - 1) <= 1e-9 and abs(B @ S) <= 1e-6 * np.linalg.norm(B) and abs(B @ hh) <= 1e-6 * np.linalg.norm(B) \
            and abs(np.linalg.norm(B) - abs(a) * math.sqrt(e * e - 1)) <= 1e-9 * np.linalg.norm(B) and (S @ vhat) >= 1 - 1e-5
        clause("B-plane: S along the incoming asymptote, (S, T, R) orthonormal, B perpendicular to S and h with the length of the impact parameter", ok,
               "bplane", f"e={e} nu={nu}: S.v_far={S @ vhat}, |B|={np.linalg.norm(B)} vs {abs(a) * math.sqrt(e * e - 1)}, S.T={S @ T}", {"kep": kep})
    # ---- beta angle ------------------------------------------------------------------------------------------------------------
    for _ in range(job.get("nbeta", 0)):
        kep = [7.2e6, 0.01, float(rng.uniform(0.05, 3.0)), float(rng.uniform(0, TWO_PI)), 1.0, float(rng.uniform(0, TWO_PI))]
        o = Orbit(kep, Date(2020, 1, 1) + timedelta(days=float(rng.uniform(0, 360))), "keplerian", "EME2000", "Kepler")
        lon, lat = float(rng.uniform(0, TWO_PI)), float(rng.uniform(-1.5, 1.5))
        u = np.array([math.cos(lat) * math.cos(lon), math.cos(lat) * math.sin(lon), math.sin(lat)])
        ref = Orbit(list(u * 1.0e9) + [0, 0, 0], o.date, "cartesian", "EME2000", "NonePropagator")
        b = float(beta(o, ref))
        c = np.asarray(o.copy(form="cartesian"), float)
        wv = np.cross(c[:3], c[3:])
        want = math.asin(float(wv @ u) / np.linalg.norm(wv))
        bs = float(beta(o))
        res["evaluations"] += 1
        clause("the beta angle lies in [-90, 90] deg and equals the elevation of the body above the orbit plane", abs(b - want) <= 1e-9 and -math.pi / 2 <= bs <= math.pi / 2,
               "beta", f"beta {b} expected {want}; beta(Sun) {bs}", {"kep": kep})
    res["nontrivial"] = sorted(set(res["nontrivial"]))[:400]
    with open(outp, "w") as fh:
        json.dump(res, fh)


if __name__ == "__main__":
    main(sys.argv[1], sys.argv[2])
