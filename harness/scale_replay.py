"""Law-driven replay for property C04: every date-consuming operation is run with the same instants carried by Dates of
different time-scale labels (argument date label la, object epoch label le) and compared with the UTC/UTC run.
Real IERS tables are configured so that the scales really differ (TAI-UTC = 36 s in May 2016)."""
import json
import os
import sys
from datetime import timedelta

import numpy as np

from beyond.config import config


def main(inp, outp):
    with open(inp) as fh:
        job = json.load(fh)
    config.update({"eop": {"folder": os.path.join(job["repo"], "tests", "data", "pole"), "type": "all", "missing_policy": "pass"}})   # CREATION_DATE = now is not covered
    from beyond.dates import Date
    from beyond.orbits import Orbit, StateVector, Ephem
    from beyond.io.tle import Tle
    from beyond.io import ccsds
    from beyond.propagators.keplernum import KeplerNum
    from beyond.propagators.cw import ClohessyWiltshire
    from beyond.propagators.listeners import NodeListener
    from beyond.propagators.sgp4beta import Sgp4Beta
    from beyond.env.solarsystem import get_body
    from beyond.frames.stations import create_station

    TLE = """ISS (ZARYA)
1 25544U 98067A   16125.55610684  .00001524  00000-0  30197-4 0  9997
2 25544  51.6421 236.2139 0003381  47.8509  47.6767 15.54198229111731"""
    # fix the checksums of the edited epoch
    lines = TLE.splitlines()
    l1 = lines[1][:68]
    l1 += str(Tle._checksum(l1))
    TLE = "\n".join([lines[0], l1, lines[2]])
    EPOCH = Date(2016, 5, 4, 13, 20, 47, 362496)     # more than 2 minutes from any day boundary in every scale
    ARG = EPOCH + timedelta(hours=5, minutes=17, seconds=3.25)
    KEP = [7.2e6, 0.02, 0.9, 1.0, 2.0, 0.7]
    station = create_station("VfScSta", (43.604482, 1.443962, 172.0))

    res = {"evaluations": 0, "traces": 0, "clauses": {}, "violations": [], "samples": [], "nontrivial": []}

    def clause(name, ok, key, what, data):
        c = res["clauses"].setdefault(name, {"checked": 0, "failed": 0})
        c["checked"] += 1
        if not ok:
            c["failed"] += 1
            if sum(1 for v in res["violations"] if v["key"] == key) < 3:
                res["violations"].append({"key": key, "what": what, "data": data})

    def lab(d, s):
        return d if s == "UTC" else d.change_scale(s)

    def cart(sv, frame="EME2000"):
        return np.asarray(sv.copy(form="cartesian", frame=frame), float)

    def instant(d):
        return (d._d, d._s)

    def kep_orbit(le, prop):
        return Orbit(KEP, lab(EPOCH, le), "keplerian", "EME2000", prop)

    def run(op, la, le):
        """returns (kind, payload): 'state' -> 6-vector ; 'text' -> string ; 'dates' -> list of instants"""
        arg = lab(ARG, la)
        if op == "sgp4":
            orb = Tle(TLE).orbit()
            orb.date = lab(orb.date, le)
            return "state", np.asarray(orb.propagate(lab(orb.date + timedelta(hours=5, seconds=11.5), la) if False else lab(Tle(TLE).orbit().date + timedelta(hours=5, seconds=11.5), la)), float)
        if op == "sgp4beta":
            orb = Tle(TLE).orbit()
            orb.date = lab(orb.date, le)
            p = Sgp4Beta()
            p.orbit = orb
            return "state", np.asarray(p.propagate(lab(Tle(TLE).orbit().date + timedelta(hours=5, seconds=11.5), la)), float)
        if op == "kepler":
            return "state", cart(kep_orbit(le, "Kepler").propagate(arg))
        if op == "j2":
            return "state", cart(kep_orbit(le, "J2").propagate(arg))
        if op == "none":
            r = kep_orbit(le, "NonePropagator").propagate(arg)
            return "state+date", (cart(r), instant(r.date))
        if op == "keplernum":
            o = kep_orbit(le, KeplerNum(timedelta(seconds=60), get_body("Earth"))).copy(form="cartesian")
            ou = kep_orbit("UTC", KeplerNum(timedelta(seconds=60), get_body("Earth"))).copy(form="cartesian")
            coincide = Date(lab(EPOCH + timedelta(minutes=13), le).datetime, scale=la)    # reading = reading of a grid point
            outs, refs = [], []
            for a in (lab(EPOCH + timedelta(minutes=47), la), coincide):
                outs.append(cart(o.propagate(a)))
                refs.append(cart(ou.propagate(a.change_scale("UTC"))))
            return "pairs", (outs, refs)
        if op == "cw":
            o = Orbit([-600.0, -1500.0, 200.0, 0.3, 1.1, -0.2], lab(EPOCH, le), "cartesian", "Hill", ClohessyWiltshire(7.0e6))
            return "state", np.asarray(o.propagate(arg), float)
        if op == "sun":
            return "state", cart(get_body("Sun").propagate(arg))
        if op == "moon":
            return "state", cart(get_body("Moon").propagate(arg))
        if op in ("sun-coincide", "moon-coincide"):
            # history + coincidence: the body is first asked at a UTC date, then at the date with the SAME CLOCK READING in the
            # label scale (another instant, 19 s .. 69 s away, unless the label is UTC): the answer is the state of that instant
            body = get_body("Sun" if op.startswith("sun") else "Moon")
            body.propagate(ARG)
            coin = Date(ARG.datetime, scale=la)
            got = cart(body.propagate(coin))
            ref = cart(body.propagate(coin.change_scale("UTC") if la != "UTC" else coin))
            return "pairs", ([got], [ref])
        if op == "frame":
            sv = StateVector([6524834.0, 686297.0, 2650000.0, -4901.0, 5533.0, -1976.0], arg, "cartesian", "EME2000")
            a = np.asarray(sv.copy(frame="ITRF"), float)
            b = np.asarray(sv.copy(frame=station, form="spherical"), float)
            c = np.asarray(sv.copy(frame="GCRF"), float)
            return "state", np.concatenate([a, b * np.array([1, 1e6, 1e6, 1, 1e6, 1e6]), c])
        if op == "ephem":
            base = kep_orbit("UTC", "Kepler")
            nodes = [EPOCH + timedelta(seconds=60 * k) for k in range(-6, 400)]
            eph = Ephem([base.propagate(lab(d, le)) for d in nodes])
            ephu = Ephem([base.propagate(d) for d in nodes])
            # besides the generic date: a date whose CLOCK READING in its own scale equals the clock reading of a tabulated
            # point in the table's scale (a different instant unless the labels agree) - and the tabulated instant itself
            coincide = Date(lab(nodes[200], le).datetime, scale=la)
            outs, refs = [], []
            for a in (arg, coincide, lab(nodes[100], la)):
                if not (nodes[0] <= a <= nodes[-1]):
                    continue
                outs.append(cart(eph.interpolate(a)))
                refs.append(cart(ephu.interpolate(a.change_scale("UTC"))))
            return "pairs", (outs, refs)
        if op == "events":
            o = kep_orbit(le, "Kepler")
            out = []
            for p in o.iter(start=lab(EPOCH + timedelta(minutes=3), la), stop=timedelta(hours=3), step=timedelta(minutes=4), listeners=[NodeListener()]):
                if p.event is not None:
                    out.append((p.event.info, instant(p.date)))
            return "events", out
        if op == "tle":
            orb = Tle(TLE).orbit()
            orb.date = lab(orb.date, le)
            return "text", str(Tle.from_orbit(orb))
        if op in ("tle-newyear", "sgp4-newyear"):
            # an epoch a few seconds before the UTC new year: in TAI / TT / GPS its calendar date is already in the next year
            # (2015-12-31T23:59:50 UTC; no leap second at the end of 2015)
            l1 = "1 25544U 98067A   15365.99988426  .00001524  00000-0  30197-4 0  999"
            l1 += str(Tle._checksum(l1))
            orb = Tle("\n".join([lines[0], l1, lines[2]])).orbit()
            utc_epoch = orb.date
            orb.date = lab(orb.date, le)
            if op == "tle-newyear":
                return "text", str(Tle.from_orbit(orb))
            return "state", np.asarray(orb.propagate(lab(utc_epoch + timedelta(hours=5, seconds=11.5), la)), float)
        if op in ("opm", "oem"):
            o = kep_orbit(le, "Kepler").copy(form="cartesian")
            if op == "opm":
                txt = ccsds.dumps(o)
                back = ccsds.loads(txt)
                return "ccsds", ([cart(back)], [instant(back.date)], [back.date.scale.name])
            eph = o.ephem(start=lab(EPOCH, la), stop=timedelta(minutes=20), step=timedelta(minutes=5))
            txt = ccsds.dumps(eph)
            back = ccsds.loads(txt)
            return "ccsds", ([cart(x) for x in back], [instant(x.date) for x in back], [x.date.scale.name for x in back])
        if op == "maneuver":
            # maneuver dates carried under the argument label, orbit epoch under the epoch label: numerical propagation through an
            # impulse and a continuous burn
            from beyond.orbits.man import ImpulsiveMan, ContinuousMan
            outs = []
            for (l_e, l_a) in ((le, la), ("UTC", "UTC")):
                o = kep_orbit(l_e, KeplerNum(timedelta(seconds=60), get_body("Earth"))).copy(form="cartesian")
                o.maneuvers = [ImpulsiveMan(lab(EPOCH + timedelta(minutes=10, seconds=7), l_a), [1.5, 0.0, -0.5], frame="TNW"),
                               ContinuousMan(lab(EPOCH + timedelta(minutes=25), l_a), timedelta(minutes=6), dv=[0.0, 2.0, 0.0], frame="QSW")]
                outs.append(cart(o.propagate(lab(EPOCH + timedelta(minutes=47), l_a))))
            return "pairs", ([outs[0]], [outs[1]])
        if op == "visibility":
            o = kep_orbit(le, "Kepler")
            out = []
            for p in station.visibility(o, start=lab(EPOCH + timedelta(minutes=3), la), stop=timedelta(hours=14), step=timedelta(minutes=2), events=True):
                if p.event is not None:
                    out.append((p.event.info, instant(p.date)))
            return "events", out
        if op == "measure":
            from beyond.utils.measures import Range, Azimut, Elevation, Doppler
            orb = kep_orbit(le, "Kepler").propagate(arg)
            ms = [cls([station, "sat", station], orb.date, 0.0).from_orbit(orb) for cls in (Range, Azimut, Elevation, Doppler)]
            v = np.array([ms[0].value, ms[1].value * 1e6, ms[2].value * 1e6, ms[3].value, 0.0, 0.0])
            return "state+date", (v, instant(ms[0].date))
        if op == "lambert":
            from beyond.utils.lambert import lambert
            o0 = kep_orbit(le, "Kepler")
            o1 = o0.propagate(lab(EPOCH + timedelta(minutes=31, seconds=3.25), la))
            s0, s1 = lambert(o0.copy(form="cartesian"), o1.copy(form="cartesian"))
            return "state", np.concatenate([np.asarray(s0, float)[3:], np.asarray(s1, float)[3:]])
        if op == "ltan":
            from beyond.utils.ltan import orb2ltan
            o = kep_orbit(le, "Kepler").propagate(arg)
            return "state", np.array([float(orb2ltan(o)), float(orb2ltan(o, "true")), 0.0, 1.0, 0.0, 0.0])
        if op == "beta":
            from beyond.utils.beta import beta
            o = kep_orbit(le, "Kepler").propagate(arg)
            return "state", np.array([float(beta(o)) * 1e3, float(beta(o, "Moon")) * 1e3, 0.0, 1.0, 0.0, 0.0])      # milliradians: tolerance 5e-8 rad, a mishandled label moves the Sun by 4e-6 rad
        raise ValueError(op)

    def dt_inst(a, b):
        return (a[0] - b[0]) * 86400.0 + (a[1] - b[1])

    base = {}
    kinds = set()
    for case in job["cases"]:
        op, la, le = case["op"], case["la"], case["le"]
        if op.endswith("-newyear") and ({la, le} & {"UT1", "TDB"}):
            continue        # at a day boundary UT1 / TDB readings are outside the quantifier (per-day tables, microsecond roundings)
        data = {"op": op, "arg_label": la, "epoch_label": le, "how": "harness/scale_replay.py: same instants, Dates relabelled with change_scale"}
        try:
            if op not in base:
                base[op] = run(op, "UTC", "UTC")
            kind, got = run(op, la, le)
        except Exception as e:
            clause(f"{op}: runs under every label", False, f"scale/{op}-raises", f"{op} with la={la} le={le}: {type(e).__name__}: {e}", data)
            continue
        res["evaluations"] += 1
        res["traces"] += 1
        kinds.add((op, la != "UTC", le != "UTC"))
        _, ref = base[op]
        if kind == "state":
            vmag = max(np.linalg.norm(ref[3:6]), 1.0)
            # dates built in different scales differ by rounding at the microsecond level; operations going through float
            # Julian dates (frame chains, Sun/Moon series) resolve time to ~40 us only (the library's time resolution)
            tol = vmag * (50e-6 if op in ("sun", "moon", "frame", "sgp4", "sgp4beta", "sgp4-newyear", "beta", "ltan") else 3e-6) + 1e-6
            err = float(np.abs(got - ref).max())
            clause(f"{op}: same physical result whatever the labels (|v| x 3 us)", err <= tol, f"scale/{op}",
                   f"{op} la={la} le={le}: differs from the UTC/UTC result by {err:.6g} (tolerance {tol:.3g})", data)
        elif kind == "pairs":
            outs, refs = got
            err = max(float(np.abs(a - b).max()) for a, b in zip(outs, refs))
            vmag = max(np.linalg.norm(refs[0][3:6]), 1.0)
            clause(f"{op}: same physical result whatever the labels (|v| x 3 us + 5 mm)", err <= vmag * (50e-6 if op.endswith("-coincide") and op[:3] in ("sun", "moo") else 3e-6) + 5e-3, f"scale/{op}",
                   f"{op} la={la} le={le}: differs from the all-UTC computation at the same instant by {err:.6g}", data)
        elif kind == "state+date":
            err = float(np.abs(got[0] - ref[0]).max())
            clause(f"{op}: same physical result whatever the labels", err <= (0.4 if op == "measure" else 1e-6) and abs(dt_inst(got[1], ref[1])) <= 3e-6, f"scale/{op}",
                   f"{op} la={la} le={le}: state differs by {err:.3g}, date by {dt_inst(got[1], ref[1]):.3g} s", data)
        elif kind == "events":
            same = len(got) == len(ref) and all(a[0] == b[0] and abs(dt_inst(a[1], b[1])) <= 1e-4 for a, b in zip(got, ref))
            clause(f"{op}: same events at the same instants whatever the labels", same, f"scale/{op}",
                   f"{op} la={la} le={le}: events {got[:3]} vs {ref[:3]}", data)
        elif kind == "text":
            clause(f"{op}: the written TLE is the same text whatever the label of the epoch", got == ref, f"scale/{op}",
                   f"{op} le={le}: wrote\n{got}\ninstead of\n{ref}", data)
        else:
            sts, ins, scs = got
            rsts, rins, _ = ref
            ok = len(sts) == len(rsts) and all(np.abs(a - b).max() <= 2e-3 + np.linalg.norm(b[3:]) * 3e-6 for a, b in zip(sts, rsts)) \
                and all(abs(dt_inst(a, b)) <= 2e-6 for a, b in zip(ins, rins)) and all(s == (la if op == "oem" else le) for s in scs)
            clause(f"{op}: CCSDS round trip restores the same instants and states, label preserved", ok, f"scale/{op}",
                   f"{op} la={la} le={le}: scales {scs[:2]}, instants off by {[round(dt_inst(a, b), 6) for a, b in zip(ins, rins)][:3]}", data)
    res["nontrivial"] = [json.dumps(list(map(str, k))) for k in sorted(kinds)]
    with open(outp, "w") as fh:
        json.dump(res, fh)


if __name__ == "__main__":
    main(sys.argv[1], sys.argv[2])
