"""Replay of Local.tla (QSW/TNW axes, maneuver projection, orbit-attached frames) and NumMan.tla (maneuvers applied exactly
once by the numerical propagator, gravity-free) on the real library (property C17)."""
import json
import sys
from datetime import timedelta

import numpy as np

from beyond.config import config

config.set("eop", "missing_policy", "pass")

from beyond.dates import Date  # noqa: E402
from beyond.orbits import Orbit, StateVector  # noqa: E402
from beyond.orbits.man import ImpulsiveMan, ContinuousMan, KeplerianImpulsiveMan, dkep2dv, dkep2aol  # noqa: E402
from beyond.frames.local import to_qsw, to_tnw, to_local  # noqa: E402
from beyond.frames import frames as fr  # noqa: E402
from beyond.propagators.keplernum import KeplerNum  # noqa: E402

DATE = Date(2019, 3, 2, 10, 0, 0)
LS, VS = 1.0e6, 1.0e3


def rows_of(spec_rows):
    return np.array([np.array(n, float) / d for n, d in spec_rows])


def main(inp, outp):
    with open(inp) as fh:
        job = json.load(fh)
    res = {"evaluations": 0, "traces": 0, "clauses": {}, "violations": [], "samples": [], "nontrivial": []}

    def clause(name, ok, key, what, data):
        c = res["clauses"].setdefault(name, {"checked": 0, "failed": 0})
        c["checked"] += 1
        if not ok:
            c["failed"] += 1
            if sum(1 for v in res["violations"] if v["key"] == key) < 4:
                res["violations"].append({"key": key, "what": what, "data": data})

    for vi, v in enumerate(job.get("local", [])):
        r = np.array(v["st"][0], float) * LS
        vel = np.array(v["st"][1], float) * VS
        pv = np.concatenate([r, vel])
        data = {"r": v["st"][0], "v": v["st"][1], "dv": v["dv"], "other": v["other"], "how": "to_qsw/to_tnw/to_local on r*1e6, v*1e3"}
        res["evaluations"] += 1
        res["traces"] += 1
        for name, fn, rows in (("QSW", to_qsw, v["qsw"]), ("TNW", to_tnw, v["tnw"])):
            want = rows_of(rows)
            got = fn(pv)
            got2 = to_local(name, pv, expanded=False)
            got6 = to_local(name.lower(), pv)
            e6 = np.zeros((6, 6))
            e6[:3, :3] = want
            e6[3:, 3:] = want
            clause(f"{name} matrix rows are the radial/velocity, completion and angular-momentum directions (1e-12)",
                   np.abs(got - want).max() <= 1e-12 and np.abs(got2 - want).max() <= 1e-12 and np.abs(got6 - e6).max() <= 1e-12,
                   f"local/{name.lower()}-axes", f"{name} of r={v['st'][0]} v={v['st'][1]}: {got.tolist()} expected {want.tolist()}", data)
        sv = StateVector(pv, DATE, "cartesian", "EME2000")
        dv = np.array(v["dv"], float)
        for tag, proj in (("QSW", v["pq"]), ("TNW", v["pt"]), (None, None)):
            want = dv if proj is None else np.array(proj[0], float) / proj[1]
            got = ImpulsiveMan(DATE, dv, frame=tag).dv(sv)
            # the delta-v is a value: written with Python ints (as the library's own examples do), as a tuple or an integer array
            if all(float(x).is_integer() for x in v["dv"]):
                for how, given in (("list of ints", [int(x) for x in v["dv"]]), ("tuple of ints", tuple(int(x) for x in v["dv"])),
                                   ("integer array", np.array([int(x) for x in v["dv"]]))):
                    g2 = np.asarray(ImpulsiveMan(DATE, given, frame=tag).dv(sv), float)
                    g3 = np.asarray(ContinuousMan(DATE, timedelta(seconds=100), dv=given, frame=tag).accel(sv), float) * 100
                    clause("a delta-v written with integers (list, tuple, integer array) is the same maneuver as with floats",
                           np.abs(g2 - want).max() <= 1e-12 * max(np.linalg.norm(dv), 1) and np.abs(g3 - want).max() <= 1e-12 * max(np.linalg.norm(dv), 1),
                           "local/man-integer-dv", f"tag {tag} dv {given!r} ({how}): {g2.tolist()} expected {want.tolist()}", data)
            gotc = ContinuousMan(DATE, timedelta(seconds=100), accel=dv * 1e-3, frame=tag).accel(sv)
            gotd = ContinuousMan(DATE, timedelta(seconds=100), dv=dv, frame=tag.lower() if tag else None).accel(sv) * 100
            nrm = np.linalg.norm(dv)
            # the burn may last a fraction of a second or several days: acceleration x duration is the stated delta-v
            for dur in (timedelta(seconds=0.25), timedelta(seconds=90, microseconds=500000), timedelta(days=1, seconds=600), timedelta(days=3), timedelta(days=2, seconds=0.5)):
                ds = dur.total_seconds()
                ga = np.asarray(ContinuousMan(DATE, dur, dv=dv, frame=tag).accel(sv), float) * ds
                mb = ContinuousMan(DATE, dur, accel=dv / ds, frame=tag)
                gb = np.asarray(mb.accel(sv), float) * ds
                clause("a continuous burn of any duration (sub-second to several days) has acceleration x duration = its delta-v",
                       np.all(np.isfinite(ga)) and np.abs(ga - want).max() <= 1e-9 * max(nrm, 1) and np.abs(gb - want).max() <= 1e-9 * max(nrm, 1)
                       and np.abs(np.asarray(mb._dv, float) - dv).max() <= 1e-9 * max(nrm, 1),
                       "local/man-duration", f"tag {tag} dv {v['dv']} duration {dur}: accel*duration {ga.tolist()} / {gb.tolist()} expected {want.tolist()}", data)
            # the three dates of a burn (start, median, stop) are consistent with the date it was described by
            for pos in ("start", "median", "stop"):
                dur = timedelta(seconds=240.5)
                mm = ContinuousMan(DATE, dur, dv=dv, frame=tag, date_pos=pos)
                st_ = {"start": DATE, "median": DATE - dur / 2, "stop": DATE - dur}[pos]
                okd = abs((mm.start - st_).total_seconds()) <= 2e-6 and abs((mm.stop - (st_ + dur)).total_seconds()) <= 2e-6 \
                    and abs((mm.median - (st_ + dur / 2)).total_seconds()) <= 2e-6 and abs(mm.duration.total_seconds() - 240.5) <= 1e-9
                clause("a continuous burn described by its start, middle or end has start / median / stop where they belong", okd, "local/man-dates",
                       f"date_pos={pos}: start {mm.start}, median {mm.median}, stop {mm.stop} for a {dur} burn anchored at {DATE}", data)
            clause("a maneuver given in QSW/TNW/inertial axes contributes M^T dv with exactly its magnitude",
                   np.abs(got - want).max() <= 1e-12 * max(nrm, 1) and np.abs(gotc - want * 1e-3).max() <= 1e-15 * max(nrm, 1)
                   and np.abs(gotd - want).max() <= 1e-12 * max(nrm, 1) and abs(np.linalg.norm(got) - nrm) <= 1e-12 * max(nrm, 1),
                   "local/man-projection", f"tag {tag} dv {v['dv']}: {got.tolist()} expected {want.tolist()}", data)
        # orbit-attached frames: the reference at the origin, a second state at exact relative coordinates, and back
        o2 = np.concatenate([np.array(v["other"][0], float) * LS, np.array(v["other"][1], float) * VS])
        for tag, rel in (("QSW", v["relq"]), ("TNW", v["relt"]), (None, None)):
            f = fr.orbit2frame(f"VfL{vi}{tag}", sv, tag, exists_warning=False)
            zero = np.asarray(sv.copy(frame=f), float)
            sv2 = StateVector(o2, DATE, "cartesian", "EME2000")
            got = np.asarray(sv2.copy(frame=f), float)
            if rel is None:
                want = o2 - pv
            else:
                want = np.concatenate([np.array(rel[0][0], float) / rel[0][1] * LS, np.array(rel[1][0], float) / rel[1][1] * VS])
            back = np.asarray(sv2.copy(frame=f).copy(frame="EME2000"), float)
            sp, sv_ = np.linalg.norm(o2[:3]) + np.linalg.norm(pv[:3]), np.linalg.norm(o2[3:]) + np.linalg.norm(pv[3:])
            clause("a frame attached to an orbit places it at its origin and converts other states to exact relative coordinates and back",
                   np.linalg.norm(zero[:3]) <= 1e-9 * sp and np.linalg.norm(zero[3:]) <= 1e-9 * sv_
                   and np.linalg.norm(got[:3] - want[:3]) <= 1e-9 * sp and np.linalg.norm(got[3:] - want[3:]) <= 1e-9 * sv_
                   and np.linalg.norm(back[:3] - o2[:3]) <= 1e-9 * sp and np.linalg.norm(back[3:] - o2[3:]) <= 1e-9 * sv_,
                   "local/orbit-frame", f"orientation {tag}: origin {zero.tolist()} rel {got.tolist()} expected {want.tolist()}", data)
        if len(res["samples"]) < 2:
            res["samples"].append({"r": v["st"][0], "v": v["st"][1], "qsw_rows": v["qsw"]})
        res["nontrivial"].append(json.dumps([v["st"][0], v["st"][1]]))
    # ---- maneuvers in the numerical propagator, gravity free -------------------------------------------------------
    VECS = [np.array([3.0, -1.0, 2.0]), np.array([-2.0, 4.0, 1.0]), np.array([1.0, 1.0, -5.0])]
    r0 = np.array([7.0e6, -2.0e5, 3.0e5])
    v0 = np.array([-100.0, 7400.0, 250.0])
    for tl in job.get("numman", []):
        H, N = tl["H"], tl["N"]
        T = H * N
        for method in tl["methods"]:
            prop = KeplerNum(timedelta(seconds=H), [], method=method)
            orb = Orbit(np.concatenate([r0, v0]), DATE, "cartesian", "EME2000", prop)
            mans = []
            for m in tl["mans"]:
                d = DATE + timedelta(seconds=m["t"])
                if m["kind"] == "imp":
                    mans.append(ImpulsiveMan(d, VECS[m["v"] - 1]))
                else:
                    # the same burn described by its start, its middle or its end (date_pos), in turn
                    pos = ("start", "median", "stop")[(len(mans) + len(method)) % 3]
                    dur = timedelta(seconds=m["dur"])
                    anchor = {"start": d, "median": d + dur / 2, "stop": d + dur}[pos]
                    mans.append(ContinuousMan(anchor, dur, accel=VECS[m["v"] - 1] * 1e-2, date_pos=pos))
            orb.maneuvers = mans
            data = {"timeline": tl, "method": method, "how": "KeplerNum(step=H s, bodies=[], method); orbit.maneuvers = [...]; propagate(epoch + N*H s)"}
            try:
                fin = np.asarray(orb.propagate(DATE + timedelta(seconds=T)), float)
            except Exception as e:
                clause("numerical propagation through maneuvers completes", False, "numman/raises", f"{type(e).__name__}: {e}", data)
                continue
            res["evaluations"] += 1
            res["traces"] += 1
            scale = [1.0 if m["kind"] == "imp" else 1e-2 for m in tl["mans"]]
            wantv = v0.copy()
            lo = r0 + v0 * T
            hi = lo.copy()
            impl = lo.copy()
            for k in range(3):
                kind_scale = 1.0
                # coefficients are doubled in the specification; impulses in m/s, burns in 1e-2 m/s^2
                ci = sum((2 if m["kind"] == "imp" else 0) for m in tl["mans"] if m["v"] == k + 1)
                cb = sum((2 * m["dur"] if m["kind"] == "burn" else 0) for m in tl["mans"] if m["v"] == k + 1)
                wantv += VECS[k] * (ci / 2.0 + cb / 2.0 * 1e-2)
            # positions: each impulse is applied at some instant s in [t, t + H] (independently of the others) and contributes
            # dv * (T - s); aligned burns contribute a*dur*(T - start) - a*dur^2/2.  Interval arithmetic per component.
            lo = r0 + v0 * T
            hi = lo.copy()
            for m in tl["mans"]:
                vec = VECS[m["v"] - 1]
                if m["kind"] == "imp":
                    c0, c1 = vec * (T - m["t"]), vec * (T - m["t"] - H)
                    lo = lo + np.minimum(c0, c1)
                    hi = hi + np.maximum(c0, c1)
                else:
                    c = vec * 1e-2 * (m["dur"] * (T - m["t"]) - m["dur"] ** 2 / 2.0)
                    lo = lo + c
                    hi = hi + c
            clause("every maneuver takes effect exactly once: final velocity = v0 + sum of delta-v (impulses, a*duration for burns)",
                   np.linalg.norm(fin[3:] - wantv) <= 1e-9 * np.linalg.norm(wantv), "numman/velocity",
                   f"{method} {tl['mans']}: final velocity {fin[3:].tolist()} expected {wantv.tolist()}", data)
            # a burn's thrust is sampled at the Runge-Kutta stages: its delta-v is exact but its timing may be off by up to
            # one step, i.e. |a| * duration * H of position (the property only asks for the delta-v)
            slack = 1e-6 + sum(np.abs(VECS[m["v"] - 1]) * 1e-2 * m["dur"] * H for m in tl["mans"] if m["kind"] == "burn")
            slack = slack if np.ndim(slack) else np.full(3, slack)
            inside = all(min(lo[k], hi[k]) - slack[k] <= fin[k] <= max(lo[k], hi[k]) + slack[k] for k in range(3))
            if method == "rk4" or all(m["kind"] == "imp" for m in tl["mans"]):
                clause("an impulse is applied no later than one integration step after its date (final position inside the window)", inside,
                       "numman/position-window", f"{method} {tl['mans']}: final position {fin[:3].tolist()} outside [{lo.tolist()}, {hi.tolist()}]", data)
            res["nontrivial"].append(json.dumps([method, [m["kind"] for m in tl["mans"]], [m["t"] % H == 0 for m in tl["mans"]]]))
    # ---- with gravity (adaptive and fixed-step methods): the run with the maneuver must agree with the manual split
    #      "propagate to the maneuver date, add the delta-v by hand, propagate on" of the same integrator ------------------
    from beyond.env.solarsystem import get_body
    for case in job.get("gravman", []):
        method, tman, hstep = case["method"], case["t"], case["H"]
        kep = [7.0e6, 0.02, 0.9, 1.0, 2.0, 0.5]

        def mk():
            return Orbit(kep, DATE, "keplerian", "EME2000", KeplerNum(timedelta(seconds=hstep), get_body("Earth"), method=method)).copy(form="cartesian")
        dv = np.array(case["dv"], float)
        tend = DATE + timedelta(seconds=tman + 6 * hstep + 17)
        data = {"method": method, "maneuver_at_s": tman, "step_s": hstep, "dv": case["dv"], "frame": case["frame"]}
        try:
            o1 = mk()
            o1.maneuvers = [ImpulsiveMan(DATE + timedelta(seconds=tman), dv, frame=case["frame"])]
            with_man = np.asarray(o1.propagate(tend), float)
            o2 = mk()
            at = o2.propagate(DATE + timedelta(seconds=tman))
            kick = ImpulsiveMan(at.date, dv, frame=case["frame"]).dv(at)
            st = np.asarray(at, float).copy()
            st[3:] += kick
            o3 = Orbit(st, at.date, "cartesian", "EME2000", KeplerNum(timedelta(seconds=hstep), get_body("Earth"), method=method))
            manual = np.asarray(o3.propagate(tend), float)
        except Exception as e:
            clause("numerical propagation through maneuvers completes", False, "numman/raises", f"{type(e).__name__}: {e}", data)
            continue
        res["evaluations"] += 1
        res["traces"] += 1
        nd = np.linalg.norm(dv)
        dvel = np.linalg.norm(with_man[3:] - manual[3:])
        dpos = np.linalg.norm(with_man[:3] - manual[:3])
        clause("with gravity: an impulse is applied exactly once, no later than one step after its date (agrees with the manual split)",
               dvel <= 0.25 * nd and dpos <= nd * (hstep + 0.25 * (6 * hstep + 17)), "numman/gravity-once",
               f"{method} step {hstep}s impulse at {tman}s: differs from the manual split by {dpos:.3f} m, {dvel:.4f} m/s for |dv| = {nd}", data)
        res["nontrivial"].append(json.dumps(["grav", method, tman % hstep == 0]))
    # off-grid burns: full delta-v within one step's worth
    for (start, dur, H) in job.get("offgrid", []):
        for method in ("rk4", "euler"):
            prop = KeplerNum(timedelta(seconds=H), [], method=method)
            orb = Orbit(np.concatenate([r0, v0]), DATE, "cartesian", "EME2000", prop)
            a = VECS[0] * 1e-2
            orb.maneuvers = [ContinuousMan(DATE + timedelta(seconds=start), timedelta(seconds=dur), accel=a)]
            fin = np.asarray(orb.propagate(DATE + timedelta(seconds=H * 12)), float)
            got = fin[3:] - v0
            res["evaluations"] += 1
            clause("a continuous burn off the integration grid delivers its delta-v within one step's worth", np.linalg.norm(got - a * dur) <= np.linalg.norm(a) * H + 1e-9,
                   "numman/offgrid-burn", f"{method} burn start {start} dur {dur} step {H}: delivered {got.tolist()} expected {(a * dur).tolist()}",
                   {"start": start, "dur": dur, "H": H, "method": method})
    # ---- increments of keplerian elements realised to first order --------------------------------------------------
    for case in job.get("dkep", []):
        a0, e0, i0 = case["kep"]
        for nu in case["nus"]:
            orb = Orbit([a0, e0, i0, 0.7, 1.1, nu], DATE, "keplerian", "EME2000", "Kepler")
            for da in case["das"]:
                dvt = dkep2dv(orb, da=da)
                ok_fin = bool(np.all(np.isfinite(dvt)))
                cart = orb.copy(form="cartesian")
                new = cart.copy()
                new[3:] = np.asarray(cart[3:]) + to_tnw(cart).T @ dvt
                anew = new.copy(form="keplerian").a
                res["evaluations"] += 1
                clause("a semi-major-axis increment gives a finite delta-v realising it to first order",
                       ok_fin and abs((anew - a0) - da) <= 12.0 * da * da / a0 + 1e-6, "dkep/da",
                       f"a={a0} e={e0} nu={nu} da={da}: realised {anew - a0}", {"kep": case["kep"], "nu": nu, "da": da})
        for (u, di, dO) in case["angles"]:
            orb = Orbit([a0, 0.001, i0, 0.7, 0.0, u], DATE, "keplerian", "EME2000", "Kepler")
            dvt = dkep2dv(orb, di=di, dOmega=dO)
            res["evaluations"] += 1
            clause("inclination / node increments give a finite delta-v", bool(np.all(np.isfinite(dvt))), "dkep/finite",
                   f"u={u} di={di} dOmega={dO}: {dvt}", {"kep": case["kep"], "u": u, "di": di, "dOmega": dO})
            man = KeplerianImpulsiveMan(DATE, di=di, dOmega=dO)
            cart = orb.copy(form="cartesian")
            full = man.dv(cart)
            clause("the keplerian impulsive maneuver returns a finite inertial delta-v of the same magnitude",
                   bool(np.all(np.isfinite(full))) and abs(np.linalg.norm(full) - np.linalg.norm(dvt)) <= 1e-9 * max(1e-9, np.linalg.norm(dvt)),
                   "dkep/man", f"{full} vs {dvt}", {"u": u, "di": di, "dOmega": dO})
            if abs(u) < 1e-9 and dO == 0 and di != 0:
                for sgn in (1.0, -1.0):
                    new = cart.copy()
                    w = dvt.copy()
                    w[2] *= sgn
                    new[3:] = np.asarray(cart[3:]) + to_tnw(cart).T @ w
                    inew = new.copy(form="keplerian").i
                    if abs(abs(inew - i0) - abs(di)) <= 12.0 * di * di + 1e-10:
                        break
                clause("an inclination increment applied at the node is realised to first order (either out-of-plane sign)",
                       abs(abs(inew - i0) - abs(di)) <= 12.0 * di * di + 1e-10, "dkep/di", f"di={di}: realised {inew - i0}", {"di": di})
    # ---- inclination AND node increments together: applied at the argument of latitude the library's own helper (dkep2aol) gives,
    # the out-of-plane impulse turns the orbital plane about the radius vector by theta, which changes i by theta cos(u) and the node
    # by theta sin(u) / sin(i) (spherical triangle node - satellite - new node): both requested increments, to first order
    for case in job.get("dkep", [])[:1]:
        a0, _e0, _i0 = case["kep"]
        for i0 in (0.4, 0.9, 1.7, 2.6):
            for (di, dO) in ((0.0, 2e-4), (3e-4, 0.0), (2e-4, 3e-4), (-2e-4, 5e-4), (1e-3, -2e-3), (-4e-5, -1e-4)):
                probe = Orbit([a0, 0.0005, i0, 0.7, 0.0, 0.3], DATE, "keplerian", "EME2000", "Kepler")
                u = float(dkep2aol(probe, di, dO))
                orb = Orbit([a0, 0.0005, i0, 0.7, 0.0, u % (2 * np.pi)], DATE, "keplerian", "EME2000", "Kepler")
                dvt = np.asarray(dkep2dv(orb, di=di, dOmega=dO), float)
                cart = orb.copy(form="cartesian")
                best = None
                for sgn in (1.0, -1.0):
                    new = cart.copy()
                    w = dvt.copy()
                    w[2] *= sgn
                    new[3:] = np.asarray(cart[3:]) + to_tnw(cart).T @ w
                    k2 = new.copy(form="keplerian")
                    d_i = float(k2.i - i0)
                    d_o = float((k2.raan - 0.7 + np.pi) % (2 * np.pi) - np.pi)
                    err = max(abs(d_i - di), abs(d_o - dO) * np.sin(i0))
                    if best is None or err < best[0]:
                        best = (err, d_i, d_o)
                theta = float(np.sqrt(di ** 2 + (dO * np.sin(i0)) ** 2))
                res["evaluations"] += 1
                clause("inclination and node increments requested together are both realised to first order at the argument of latitude the library gives",
                       best[0] <= 20.0 * theta * theta + 2e-9, "dkep/di-dOmega",
                       f"i={i0} di={di} dOmega={dO} applied at u={u:.6f}: realised di={best[1]:.3e} dOmega={best[2]:.3e}", {"i": i0, "di": di, "dOmega": dO, "u": u})
    res["nontrivial"] = sorted(set(res["nontrivial"]))[:400]
    with open(outp, "w") as fh:
        json.dump(res, fh)


if __name__ == "__main__":
    main(sys.argv[1], sys.argv[2])
