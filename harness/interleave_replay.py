"""Replay of Interleave.tla (property C08): live generators of two independent orbit objects used in any interleaving."""
import json
import sys
from datetime import timedelta

import numpy as np

from beyond.config import config

config.set("eop", "missing_policy", "pass")

from beyond.dates import Date  # noqa: E402
from beyond.orbits import Orbit  # noqa: E402
from beyond.io.tle import Tle  # noqa: E402
from beyond.propagators.kepler import Kepler  # noqa: E402
from beyond.propagators.j2 import J2  # noqa: E402

EPOCH = Date(2018, 5, 4, 13, 20, 47, 362496)
TLES = ["""ISS (ZARYA)
1 25544U 98067A   18124.55610684  .00001524  00000-0  30197-4 0  9997
2 25544  51.6421 236.2139 0003381  47.8509  47.6767 15.54198229111731""",
        """MOLNIYA 1-90
1 24960U 97054A   18123.22759647  .00000163  00000-0  24467-3 0  9999
2 24960  62.6812 182.7824 6470982 294.8616  12.8538  3.18684355160009"""]
KEP = [[7000e3, 0.01, 0.9, 1.0, 2.0, 0.5], [7300e3, 0.02, 1.1, 0.3, 1.0, 2.5]]
TICK = timedelta(seconds=20)


def build(kind, k):
    """k-th orbit of the kind; `how` says how the propagator was given: by name, or an own instance"""
    if kind == "sgp4":
        return Tle(TLES[k]).orbit()                       # propagator "Sgp4" attached by name by the library itself
    if kind == "kepler-name":
        return Orbit(KEP[k], EPOCH, "keplerian", "EME2000", "Kepler")
    if kind == "j2-name":
        return Orbit(KEP[k], EPOCH, "keplerian_mean", "EME2000", "J2")
    if kind == "none-name":
        return Orbit(KEP[k], EPOCH, "keplerian", "EME2000", "NonePropagator")
    if kind == "kepler-own":
        return Orbit(KEP[k], EPOCH, "keplerian", "EME2000", Kepler())
    if kind == "j2-own":
        return Orbit(KEP[k], EPOCH, "keplerian_mean", "EME2000", J2())
    raise ValueError(kind)


def cart(o):
    return np.asarray(o.copy(form="cartesian"), float)


def main(inp, outp):
    with open(inp) as fh:
        job = json.load(fh)
    res = {"evaluations": 0, "traces": 0, "clauses": {}, "violations": [], "samples": [], "nontrivial": []}

    def clause(name, ok, key, what, data):
        c = res["clauses"].setdefault(name, {"checked": 0, "failed": 0})
        c["checked"] += 1
        if not ok:
            c["failed"] += 1
            if sum(1 for v in res["violations"] if v["key"] == key) < 4:
                res["violations"].append({"key": key, "what": what, "data": data})

    for kind in job["kinds"]:
        for hist in job["hists"]:
            objs = [build(kind, 0), build(kind, 1)]
            eps = [o.date for o in objs]
            gens = [None, None]
            data = {"kind": kind, "hist": hist, "tick_s": TICK.total_seconds(),
                    "how": "two independent orbit objects; open: g = orb.iter(start, stop, step); next: next(g); prop: orb.propagate(date); "
                           "each result compared with a fresh orbit's propagate(date)"}
            res["traces"] += 1
            for act in hist:
                o = act[1] - 1
                ep = eps[o]
                try:
                    if act[0] == "open":
                        gens[o] = objs[o].iter(start=ep + TICK * act[2], stop=ep + TICK * act[3], step=TICK * act[4])
                        continue
                    if act[0] == "next":
                        got = next(gens[o])
                        want_date = ep + TICK * act[2]
                    else:
                        want_date = ep + TICK * act[2]
                        got = objs[o].propagate(want_date)
                except StopIteration:
                    clause("a live generator yields the dates of its own range, whatever the other orbit does in between", False,
                           f"interleave/dates[{kind}]", f"{act}: generator exhausted early after {hist}", data)
                    break
                except Exception as e:
                    clause("interleaved use of two independent orbits completes", False, f"interleave/raises[{kind}]",
                           f"{act} raised {type(e).__name__}: {e}", data)
                    break
                res["evaluations"] += 1
                ok_date = abs((got.date - want_date).total_seconds()) <= 1e-6
                clause("a live generator yields the dates of its own range, whatever the other orbit does in between", ok_date,
                       f"interleave/dates[{kind}]", f"{act}: yielded {got.date}, expected {want_date}", data)
                ref = cart(build(kind, o).propagate(want_date))
                g = cart(got)
                dp, dv = float(np.linalg.norm(g[:3] - ref[:3])), float(np.linalg.norm(g[3:] - ref[3:]))
                clause("every state obtained in an interleaving is the orbit's own state at that date (fresh propagation)",
                       dp <= 1e-6 * max(1.0, float(np.linalg.norm(ref[:3]))) * 1e-3 + 1e-6 and dv <= 1e-9 * max(1.0, float(np.linalg.norm(ref[3:]))) + 1e-9,
                       f"interleave/state[{kind}]", f"{act} in {hist}: differs from the orbit's own state by {dp:.4g} m, {dv:.4g} m/s", data)
            res["nontrivial"].append(json.dumps([kind, [a[0] + str(a[1]) for a in hist]]))
    res["nontrivial"] = sorted(set(res["nontrivial"]))[:400]
    with open(outp, "w") as fh:
        json.dump(res, fh)


if __name__ == "__main__":
    main(sys.argv[1], sys.argv[2])
