"""Replay of Forms.tla (exact lattice orbits, all quantities as residues modulo three primes) and of form walks on the
real StateVector / Form / Infos code (property C01)."""
import json
import math
import sys
from fractions import Fraction

import numpy as np

from beyond.config import config

config.set("eop", "missing_policy", "pass")

from beyond.dates import Date  # noqa: E402
from beyond.orbits import StateVector  # noqa: E402
from beyond.constants import Earth  # noqa: E402

DATE = Date(2020, 3, 4, 5, 6, 7)
L0 = 7.0e6
MU = Earth.mu
V0 = math.sqrt(MU / L0)
T0 = L0 / V0
TWO_PI = 2 * math.pi
FRAME = "EME2000"


def set_body(which):
    """The central body is the one of the state's frame: 'any central body mu' of the property.  The lattice is in canonical units
    (mu = 1, unit length L0), so another body only changes the scales - and every place where the code takes mu from."""
    global MU, V0, T0, L0, FRAME
    if which in (None, "earth"):
        return
    from beyond.constants import Moon, Body
    from beyond.frames import frames as fr, orient, center
    body = Moon if which == "moon" else Body("VfHeavy", mass=3.0e29, equatorial_radius=4.0e8)
    L0 = 2.5e6 if which == "moon" else 9.0e9
    MU = body.mu
    V0 = math.sqrt(MU / L0)
    T0 = L0 / V0
    FRAME = fr.Frame("Vf" + which.capitalize(), orient.EME2000, center.Center("Vf" + which.capitalize() + "C", body=body))

FORMS = ["cartesian", "keplerian", "keplerian_eccentric", "keplerian_mean", "keplerian_circular", "keplerian_mean_circular",
         "equinoctial", "tle", "spherical", "cylindrical"]
# kind of every element: L length, V velocity, A angle, N pure number, R angular rate, M mean motion, H hyperbolic-or-angle anomaly
KINDS = {"cartesian": "LLLVVV", "keplerian": "LNAAAA", "keplerian_eccentric": "LNAAAH", "keplerian_mean": "LNAAAH",
         "keplerian_circular": "LNNAAA", "keplerian_mean_circular": "LNNAAA", "equinoctial": "LNNNNA", "tle": "AANAAM",
         "spherical": "LAAVRR", "cylindrical": "LALVRV"}
ELLIPTIC_ONLY = {"tle", "keplerian_mean_circular"}
MEANISH = {"keplerian_mean", "keplerian_mean_circular", "tle"}


def crt_rational(res, primes):
    """exact rational from its residues: CRT then rational reconstruction (Wang); verified against every residue."""
    M = 1
    x = 0
    for r, p in zip(res, primes):
        inv = pow(M % p, -1, p)
        x = x + M * (((r - x) * inv) % p)
        M *= p
    x %= M
    bound = math.isqrt(M // 2)
    r0, r1 = M, x
    s0, s1 = 0, 1
    while r1 > bound:
        qq = r0 // r1
        r0, r1 = r1, r0 - qq * r1
        s0, s1 = s1, s0 - qq * s1
    if s1 == 0 or abs(s1) > bound:
        raise ValueError("rational reconstruction failed")
    f = Fraction(r1, s1)
    for r, p in zip(res, primes):
        if (f.numerator * pow(f.denominator % p, -1, p) - r) % p:
            raise ValueError("reconstructed rational does not reproduce a residue")
    return f


def ang(c, s):
    return math.atan2(s, c) % TWO_PI


def expected_forms(v, primes):
    q = {k: float(crt_rational([m[k] for m in v["q"]], primes)) for k in v["q"][0]}
    hyp = v["ecc"][0] > v["ecc"][1]
    e = q["e"]
    i = ang(v["inc"][0] / v["inc"][2], v["inc"][1] / v["inc"][2])
    O = ang(v["node"][0] / v["node"][2], v["node"][1] / v["node"][2])
    w = ang(v["peri"][0] / v["peri"][2], v["peri"][1] / v["peri"][2])
    nu = ang(v["nu"][0] / v["nu"][2], v["nu"][1] / v["nu"][2])
    a = q["a"] * L0
    if hyp:
        E = math.atanh(q["sE"] / q["cE"])
        M = e * math.sinh(E) - E
    else:
        E = ang(q["cE"], q["sE"])
        M = E - e * math.sin(E)
    rho = math.sqrt(q["rho2"])
    theta = math.atan2(q["y"], q["x"])
    polar_axis = rho < 1e-12          # on the z axis longitude and its rate are undefined: spherical / cylindrical skipped
    if polar_axis:
        rho = float("nan")
    out = {
        "cartesian": [q["x"] * L0, q["y"] * L0, q["z"] * L0, q["vx"] * V0, q["vy"] * V0, q["vz"] * V0],
        "keplerian": [a, e, i, O, w, nu],
        "keplerian_eccentric": [a, e, i, O, w, E],
        "keplerian_mean": [a, e, i, O, w, M],
        "keplerian_circular": [a, q["ex"], q["ey"], i, O, ang(q["cu"], q["su"])],
        "equinoctial": [a, q["qex"], q["qey"], q["ix"], q["iy"], ang(q["cl"], q["sl"])],
        "spherical": [q["r"] * L0, theta, math.asin(q["sinphi"]), q["rdot"] * V0, q["thetadot"] / T0,
                      q["phinum"] / (q["r"] ** 2 * rho) / T0],
        "cylindrical": [rho * L0, theta, q["z"] * L0, q["cylrr"] / rho * V0, q["thetadot"] / T0, q["vz"] * V0],
    }
    if polar_axis:
        del out["spherical"], out["cylindrical"]
    if not hyp:
        out["keplerian_mean_circular"] = [a, q["ex"], q["ey"], i, O, (w + M) % TWO_PI]
        out["tle"] = [i, O, e, w, M, math.sqrt(MU / a ** 3)]
    return q, out, hyp


def angdiff(a, b):
    d = (a - b) % TWO_PI
    return min(d, TWO_PI - d)


def compare(form, got, want, hyp, loose):
    """max normalised error between two element arrays of a form"""
    worst = 0.0
    tol_a = 2e-7 if loose else 1e-9
    for k, (g, w_, kind) in enumerate(zip(got, want, KINDS[form])):
        if kind == "A" or (kind == "H" and not hyp):
            err = angdiff(g, w_) / tol_a
        elif kind == "H":
            err = abs(g - w_) / (tol_a * max(1.0, abs(w_)))
        elif kind == "L":
            err = abs(g - w_) / ((2e-7 if loose else 1e-9) * max(abs(w_), L0))
        elif kind == "V":
            err = abs(g - w_) / ((2e-7 if loose else 1e-9) * max(abs(w_), V0))
        elif kind == "R":
            err = abs(g - w_) / ((2e-7 if loose else 1e-9) * max(abs(w_), 1.0 / T0))
        elif kind == "M":
            err = abs(g - w_) / (1e-9 * abs(w_))
        else:
            err = abs(g - w_) / ((2e-7 if loose else 1e-9) * max(abs(w_), 1.0))
        worst = max(worst, err)
    return worst


def main(inp, outp):
    with open(inp) as fh:
        job = json.load(fh)
    res = {"evaluations": 0, "traces": 0, "clauses": {}, "violations": [], "samples": [], "nontrivial": []}
    set_body(job.get("body"))
    btag = "" if job.get("body") in (None, "earth") else f" [central body: {job['body']}, mu = {MU:.6g}]"

    def clause(name, ok, key, what, data):
        c = res["clauses"].setdefault(name, {"checked": 0, "failed": 0})
        c["checked"] += 1
        if not ok:
            c["failed"] += 1
            if sum(1 for v in res["violations"] if v["key"] == key) < 4:
                res["violations"].append({"key": key, "what": what + btag, "data": dict(data, body=job.get("body", "earth")) if isinstance(data, dict) else data})

    primes = job.get("primes")
    prev = None
    for v in job.get("vectors", []):
        q, exp, hyp = expected_forms(v, primes)
        # history: the derived quantities are read, the SAME object is then given another state, and they are read again
        if prev is not None:
            pq, pexp = prev
            sv = StateVector(pexp["cartesian"], DATE, "cartesian", FRAME)
            _ = (sv.infos.v, sv.infos.energy, sv.infos.rp, sv.infos.r)
            sv[:] = exp["cartesian"]
            inf2 = sv.infos
            okh = abs(inf2.r - q["r"] * L0) <= 1e-9 * q["r"] * L0 and abs(inf2.energy - q["energy"] * V0 ** 2) <= 1e-9 * abs(q["energy"]) * V0 ** 2 \
                and abs(inf2.rp - q["rp"] * L0) <= 1e-9 * abs(q["rp"]) * L0 and abs(inf2.v - math.sqrt(q["v2"]) * V0) <= 1e-9 * math.sqrt(q["v2"]) * V0
            cp = sv.copy(form="keplerian")
            okc = abs(cp.infos.rp - q["rp"] * L0) <= 1e-9 * abs(q["rp"]) * L0
            clause("derived quantities describe the CURRENT state of an object (also after it was changed in place, and on its copies)", okh and okc,
                   "infos/stale", f"after in-place change: r={inf2.r} (expected {q['r'] * L0}), energy={inf2.energy} (expected {q['energy'] * V0 ** 2}), rp={inf2.rp}",
                   {"previous": pexp["cartesian"], "current": exp["cartesian"]})
        prev = (q, exp)
        data = {"ecc": v["ecc"], "h": v["hh"], "inc": v["inc"], "node": v["node"], "peri": v["peri"], "nu": v["nu"],
                "units": {"L0": L0, "mu": MU}, "how": "StateVector(expected elements of the source form, date, source, EME2000).copy(form=target)"}
        res["traces"] += 1
        for src in exp:
            sv = StateVector(exp[src], DATE, src, FRAME)
            for dst in exp:
                if dst == src:
                    continue
                res["evaluations"] += 1
                try:
                    # the doors to a form change, in turn: copy(form=name), copy(form=Form object), the in-place setter on a copy,
                    # copy(same=<state in that form>)
                    door = (res["evaluations"] + len(src)) % 4
                    if door == 0:
                        got = [float(x) for x in sv.copy(form=dst)]
                    elif door == 1:
                        from beyond.orbits.forms import get_form
                        got = [float(x) for x in sv.copy(form=get_form(dst))]
                    elif door == 2:
                        tmp = sv.copy()
                        tmp.form = dst
                        got = [float(x) for x in tmp]
                    else:
                        got = [float(x) for x in sv.copy(same=StateVector(exp[dst], DATE, dst, FRAME))]
                except Exception as e:
                    clause("conversion between two defined forms succeeds", False, f"forms/raises[{src}->{dst}]", f"{src}->{dst}: {type(e).__name__}: {e}", data)
                    continue
                loose = src in MEANISH and dst not in MEANISH
                err = compare(dst, got, exp[dst], hyp, loose)
                clause("every form's six numbers equal their textbook definitions, from every source form", err <= 1.0,
                       f"forms/definition[{src}->{dst}]", f"{src}->{dst} ({'hyperbolic' if hyp else 'elliptic'}): got {got} expected {exp[dst]} (error {err:.3g} x tolerance)", data)
        # Kepler's equation for equivalent mean anomalies (M < 0, M > pi, shifted by a turn)
        kep = StateVector(exp["keplerian_eccentric"], DATE, "keplerian_eccentric", FRAME)
        Eref = exp["keplerian_eccentric"][5]
        Mref = exp["keplerian_mean"][5]
        for shift in ((0.0, -TWO_PI, TWO_PI) if not hyp else (0.0,)):
            arr = list(exp["keplerian_mean"])
            arr[5] = Mref + shift
            E = float(StateVector(arr, DATE, "keplerian_mean", FRAME).copy(form="keplerian_eccentric")[5])
            e = q["e"]
            resid = (E - e * math.sin(E) - arr[5]) if not hyp else (e * math.sinh(E) - E - arr[5])
            okk = abs(resid) <= 1e-7 and (angdiff(E, Eref) <= 1e-6 if not hyp else abs(E - Eref) <= 1e-6 * max(1, abs(Eref)))
            res["evaluations"] += 1
            clause("the anomaly returned for a mean anomaly solves Kepler's equation (also for M < 0 and M > pi)", okk, "forms/kepler-equation",
                   f"e={e} M={arr[5]}: E={E}, residual {resid:.3g}, expected E={Eref}", data)
        # derived orbit quantities
        inf = StateVector(exp["cartesian"], DATE, "cartesian", FRAME).infos
        checks = [("speed (vis-viva)", inf.v, math.sqrt(q["v2"]) * V0), ("energy", inf.energy, q["energy"] * V0 ** 2),
                  ("pericenter", inf.rp, q["rp"] * L0), ("radius", inf.r, q["r"] * L0), ("mean motion", inf.n, math.sqrt(abs(q["n2"])) / T0)]
        if not hyp:
            checks += [("apocenter", inf.ra, q["ra"] * L0), ("period", inf.period.total_seconds(), TWO_PI / (math.sqrt(abs(q["n2"])) / T0))]
        else:
            checks += [("vinf", inf.vinf, math.sqrt(1 / abs(q["a"])) * V0), ("dinf", inf.dinf, abs(q["dinf"]) * L0)]
        # speeds at the apsides (vis-viva at rp, ra), apsis altitudes above the frame's body, light time to the centre, and the two
        # components of the flight-path angle: v cos(fpa) = h / r
        rp_, e_ = q["rp"] * L0, q["e"]
        body_r = inf.orb.frame.center.body.r
        h_ = float(np.linalg.norm(np.cross(np.asarray(exp["cartesian"][:3], float), np.asarray(exp["cartesian"][3:], float))))
        checks += [("pericenter-speed", inf.vp, math.sqrt(MU * (1 + e_) / rp_)), ("pericenter-altitude", inf.zp + body_r, rp_),
                   ("light-delay", inf.delay.total_seconds() + 1.0, q["r"] * L0 / 299792458.0 + 1.0),
                   ("cos-fpa", inf.cos_fpa, h_ / (q["r"] * L0 * math.sqrt(q["v2"]) * V0)), ("fpa-norm", inf.cos_fpa ** 2 + inf.sin_fpa ** 2, 1.0)]
        if not hyp:
            ra_ = q["ra"] * L0
            checks += [("apocenter-speed", inf.va, math.sqrt(MU * (1 - e_) / ra_)), ("apocenter-altitude", inf.za + body_r, ra_)]
        for nm, got, want in checks:
            tol = 2e-6 if nm in ("period", "light-delay") else 1e-9
            clause("derived orbit quantities obey their defining relations", abs(got - want) <= tol * abs(want), f"infos/{nm.split()[0]}",
                   f"{nm}: {got} expected {want}", data)
        try:
            fpa = float(inf.fpa)
        except Exception as e:
            fpa = float("nan")
        want_fpa = math.atan(q["tanfpa"])
        clause("flight-path angle: tan(fpa) = e sin(nu) / (1 + e cos(nu))", math.isfinite(fpa) and abs(fpa - want_fpa) <= 1e-9,
               "infos/fpa", f"fpa {fpa} expected {want_fpa} (nu = {data['nu']})", data)
        res["nontrivial"].append(json.dumps([v["ecc"], v["inc"], v["nu"]]))
        if len(res["samples"]) < 2:
            res["samples"].append({"lattice": data, "expected_keplerian": exp["keplerian"], "expected_cartesian": exp["cartesian"]})
    # ---- walks: any path through the form graph returns the same position and velocity --------------------------------
    rng = np.random.default_rng(job.get("seed", 0))
    states = []
    from beyond.frames import frames as fr  # noqa
    for _ in range(job.get("nstates", 0)):
        hypo = rng.random() < 0.35
        e = float(10 ** rng.uniform(math.log10(1.001), math.log10(20))) if hypo else float(10 ** rng.uniform(-4, math.log10(0.99)))
        rp = float(rng.uniform(0.94, 5.7)) * L0
        a = rp / (1 - e)
        i = float(rng.uniform(0.01, math.pi - 0.01))
        numax = math.acos(-1 / e) * 0.95 if hypo else math.pi
        nu = float(rng.uniform(-numax, numax)) % TWO_PI
        states.append(([a, e, i, float(rng.uniform(0, TWO_PI)), float(rng.uniform(0, TWO_PI)), nu], hypo))
    # corner of the elliptic domain: high eccentricity, argument of perigee in (pi, 2 pi), small mean anomaly (the mean forms then
    # carry anomalies beyond 2 pi through the circular forms, where Kepler's equation is hardest for Newton's method)
    if job.get("nstates", 0):
        for e_ in (0.85, 0.93, 0.97, 0.985):
            for w_ in (3.3, 5.9):
                for m_ in (0.02, 0.1, 0.17, 0.3, 0.6, 1.0, 2.0, 3.0):
                    k_ = StateVector([3.8 * L0, e_, 1.1, 0.3, w_, m_], DATE, "keplerian_mean", FRAME).copy(form="keplerian")
                    states.append(([float(x) for x in k_], False))
    for wk in job.get("walks", []):
        for kep, hypo in states:
            if hypo and any(f in ELLIPTIC_ONLY for f in wk):
                continue
            base = StateVector(kep, DATE, "keplerian", FRAME)
            ref = np.asarray(base.copy(form="cartesian"), float)
            try:
                cur = base.copy(form=wk[0])
                for f in wk[1:]:
                    cur = cur.copy(form=f)
                end = np.asarray(cur.copy(form="cartesian"), float)
            except Exception as e:
                clause("walks through defined forms succeed", False, "forms/walk-raises", f"{wk} on {kep}: {type(e).__name__}: {e}", {"walk": wk, "kep": kep})
                continue
            res["evaluations"] += 1
            tol = 1e-7 if kep[1] < 1e-3 or any(f in MEANISH for f in wk) else 1e-9
            dp = np.linalg.norm(end[:3] - ref[:3]) / np.linalg.norm(ref[:3])
            dv = np.linalg.norm(end[3:] - ref[3:]) / np.linalg.norm(ref[3:])
            clause("converting through any chain of forms and back to cartesian returns the same position and velocity", dp <= tol and dv <= tol,
                   "forms/walk", f"walk {wk} on keplerian {kep}: position off by {dp:.3g}, velocity by {dv:.3g} (relative)", {"walk": wk, "kep": kep})
        res["traces"] += 1
    res["nontrivial"] = sorted(set(res["nontrivial"]))[:500]
    with open(outp, "w") as fh:
        json.dump(res, fh)


if __name__ == "__main__":
    main(sys.argv[1], sys.argv[2])
