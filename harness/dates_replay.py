"""Replay Dates.tla behaviours on real beyond Date objects with the real IERS tables configured.

Every vector = (lab0, rd0, hist, expected instant in TAI, expected clock reading, final label), all integers from
the specification (tick = 0.1 microsecond).  The real Date is built from rd0 in scale lab0, the actions are applied
(change_scale / + timedelta) and after the LAST action (prefixes are vectors of their own) compared."""
import json
import os
import sys
from datetime import datetime, timedelta

from beyond.config import config

TPS = 10_000_000
EXACT = {"UTC", "TAI", "TT", "GPS"}


def setup(repo):
    config.update({"eop": {"folder": os.path.join(repo, "tests", "data", "pole"), "type": "all",
                           "missing_policy": "error"}})


def mk_date(Date, rd, lab, variant):
    d, s, t = rd
    if variant == 0 or t % 10:
        return Date(d, s + t / TPS, scale=lab)
    dt = datetime(1858, 11, 17) + timedelta(days=d, seconds=s, microseconds=t // 10)
    if variant == 1:
        return Date(dt, scale=lab)
    return Date(dt.year, dt.month, dt.day, dt.hour, dt.minute, dt.second, dt.microsecond, scale=lab)


def tai_ticks_diff(date, inst):
    """real TAI instant minus expected, in ticks (float)."""
    return ((date._d - inst[0]) * 86400 + (date._s - inst[1])) * TPS - inst[2]


def reading_ticks_diff(date, rd):
    return ((date.d - rd[0]) * 86400 + (date.s - rd[1])) * TPS - rd[2]


def main(inp, outp):
    with open(inp) as fh:
        job = json.load(fh)
    setup(job["repo"])
    from beyond.dates import Date

    res = {"evaluations": 0, "traces": 0, "clauses": {}, "violations": [], "samples": [], "nontrivial": []}

    def clause(name, ok, key, what, data):
        c = res["clauses"].setdefault(name, {"checked": 0, "failed": 0})
        c["checked"] += 1
        if not ok:
            c["failed"] += 1
            if sum(1 for v in res["violations"] if v["key"] == key) < 5:
                res["violations"].append({"key": key, "what": what, "data": data})

    finals = []
    kinds = set()
    for i, v in enumerate(job["vectors"]):
        lab0, rd0, hist, inst, rd, lab = v["lab0"], v["rd0"], v["hist"], v["inst"], v["rd"], v["lab"]
        variant = i % 3
        data = {"lab0": lab0, "rd0": rd0, "hist": hist, "constructor": variant,
                "how": "Date(rd0[0], rd0[1]+rd0[2]*1e-7, scale=lab0) then .change_scale(x) / + timedelta(days,seconds,us)"}
        try:
            cur = mk_date(Date, rd0, lab0, variant)
            touched = {lab0}
            for act in hist:
                prev = cur
                if act[0] == "scale":
                    cur = prev.change_scale(act[1])
                    touched.add(act[1])
                    exact_step = prev.scale.name in EXACT and act[1] in EXACT
                    delta = ((cur._d - prev._d) * 86400 + (cur._s - prev._s)) * TPS
                    if exact_step:
                        clause("relabel keeps the instant (UTC/TAI/TT/GPS), to 1 ns",
                               abs(delta) <= 0.01, "date/relabel-instant-exact",
                               f"{prev.scale}->{act[1]} moved the instant by {delta/10:.4f} us (start {lab0} {rd0})", data)
                        if abs(delta) <= 0.01:
                            clause("relabelled date compares equal to the original (UTC/TAI/TT/GPS)",
                                   cur == prev and not (cur < prev) and not (cur > prev), "date/relabel-eq-float-noise",
                                   f"{prev.scale}->{act[1]}: instants agree to {delta/10:.6f} us but == is False "
                                   f"(_s {prev._s!r} vs {cur._s!r}; start {lab0} {rd0} hist {hist})", data)
                    else:
                        clause("relabel keeps the instant within 1 us (UT1/TDB involved)", abs(delta) <= 10.0,
                               "date/relabel-instant-1us" if abs(delta) <= 15.3 else "date/relabel-instant-gross",
                               f"{prev.scale}->{act[1]} moved the instant by {delta/10:.3f} us (start {lab0} {rd0})", data)
                else:
                    d, s, t = act[1]
                    cur = prev + timedelta(days=d, seconds=s, microseconds=t // 10)
                    if prev.scale.name in ("TAI", "TT", "GPS"):
                        back = cur - prev
                        want = timedelta(days=d, seconds=s, microseconds=t // 10)
                        clause("(d+t)-d = t to the microsecond in uniform scales",
                               abs((back - want).total_seconds()) <= 1e-6, "date/arith-inverse",
                               f"(d+t)-d = {back} but t = {want} in {prev.scale}", data)
        except Exception as e:  # with policy 'error' and days inside the tables nothing may raise
            clause("operations on covered dates do not raise", False, "date/raises",
                   f"{type(e).__name__}: {e} for start {lab0} {rd0} hist {hist}", data)
            continue
        res["evaluations"] += 1
        res["traces"] += 1
        kinds.add((lab0, lab, tuple(a[0] for a in hist)))
        exact_path = touched <= EXACT
        di = tai_ticks_diff(cur, inst)
        dr = reading_ticks_diff(cur, rd)
        if exact_path:
            tol_i = tol_r = 0.01
        elif "TDB" in touched:
            tol_i = tol_r = 17000.0
        else:
            # spec-vs-real: each relabel goes through three microsecond roundings (<= 1.5 us)
            tol_i = tol_r = 1.0 + 15.0 * max(1, sum(1 for a in hist if a[0] == "scale"))
        clause("instant equals the specification's (exact offsets 32.184 s, 19 s, IERS TAI-UTC / UT1-UTC of the day)",
               abs(di) <= tol_i, "date/instant",
               f"instant off by {di/10:.4f} us (tol {tol_i/10} us) for start {lab0} {rd0} hist {hist}", data)
        clause("clock reading (d, s) in the label scale equals the specification's", abs(dr) <= tol_r and cur.scale.name == lab,
               "date/reading", f"reading off by {dr/10:.4f} us, scale {cur.scale} (want {lab}) for start {lab0} {rd0} hist {hist}", data)
        # datetime view agrees with (d, s)
        dtv = cur.datetime - datetime(1858, 11, 17)
        view = (dtv.days - cur.d) * 86400 + (dtv.seconds + dtv.microseconds * 1e-6 - cur.s)
        clause("datetime view agrees with (d, s) within 1 us", abs(view) <= 2.0e-6, "date/datetime-view",
               f"datetime {cur.datetime} vs d,s {cur.d},{cur.s}", data)
        # round trip back to the starting scale with no arithmetic: same clock reading within 2 us
        if hist and all(a[0] == "scale" for a in hist) and lab == lab0:
            rt = reading_ticks_diff(cur, rd0)
            clause("converting away and back restores the clock reading within 2 us", abs(rt) <= 20.0,
                   "date/roundtrip", f"round trip {lab0}->{[a[1] for a in hist]} changed reading by {rt/10:.3f} us", data)
        finals.append((inst, exact_path, cur, data))
        if len(res["samples"]) < 3 and hist:
            res["samples"].append({"start": f"Date{tuple(rd0)} {lab0}", "hist": hist, "expected_TAI_instant": inst,
                                   "expected_reading": rd, "real_(_d,_s)": [cur._d, cur._s]})
    # ---- ordering / equality / hash consistent with instants, independent of the label ---------------
    finals.sort(key=lambda x: x[0])
    for (ia, ea, a, da), (ib, eb, b, db) in zip(finals, finals[1:]):
        if not (ea and eb):
            continue
        data = {"a": da, "b": db}
        if ia == ib:
            noise = abs((a._d - b._d) * 86400 + (a._s - b._s))
            clause("equal instants compare equal whatever the labels", a == b and a <= b and a >= b and not a < b,
                   "date/eq-float-noise" if noise < 1e-9 else "date/eq",
                   f"{a} vs {b}: same instant (internal difference {noise:.2e} s) but == is {a == b}", data)
            if a == b:
                clause("a == b implies hash(a) == hash(b)", hash(a) == hash(b), "date/hash-eq",
                       f"{a} == {b} but hashes differ (_s {a._s!r} vs {b._s!r})", data)
        else:
            gap = ((ib[0] - ia[0]) * 86400 + ib[1] - ia[1]) * TPS + ib[2] - ia[2]
            if gap >= 10:  # at least one microsecond apart
                clause("ordering follows the instants whatever the labels", a < b and a <= b and b > a and a != b,
                       "date/order", f"{a} should be before {b} (gap {gap/10} us)", data)
    res["nontrivial"] = [json.dumps(k) for k in sorted(kinds)]
    with open(outp, "w") as fh:
        json.dump(res, fh)


if __name__ == "__main__":
    main(sys.argv[1], sys.argv[2])
