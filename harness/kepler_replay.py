"""Replay of Kepler.tla on the real Kepler and J2 propagators (property C05)."""
import json
import math
import sys
from datetime import timedelta

import numpy as np

from beyond.config import config

config.set("eop", "missing_policy", "pass")

from beyond.dates import Date  # noqa: E402
from beyond.orbits import Orbit  # noqa: E402
from beyond.constants import Earth  # noqa: E402
sys.path.insert(0, __file__.rsplit("/", 1)[0])
from forms_replay import crt_rational  # noqa: E402

DATE = Date(2020, 3, 4, 5, 6, 7)
RE = Earth.r
MU = Earth.mu
T0 = math.sqrt(RE ** 3 / MU)
TWO_PI = 2 * math.pi


def angdiff(a, b):
    d = (a - b) % TWO_PI
    return min(d, TWO_PI - d)


def _stumpff(z):
    if z > 1e-6:
        sz = math.sqrt(z)
        return (1 - math.cos(sz)) / z, (sz - math.sin(sz)) / sz ** 3
    if z < -1e-6:
        sz = math.sqrt(-z)
        return (math.cosh(sz) - 1) / (-z), (math.sinh(sz) - sz) / sz ** 3
    return 0.5 - z / 24, 1 / 6 - z / 120


def universal_two_body(r0, v0, dt, mu):
    """state after dt by the universal-variable formulation (Bate-Mueller-White / Curtis): bisection on chi, f and g series"""
    nr0 = float(np.linalg.norm(r0))
    vr0 = float(r0 @ v0) / nr0
    alpha = 2 / nr0 - float(v0 @ v0) / mu
    sq = math.sqrt(mu)

    def F(chi):
        C, S = _stumpff(alpha * chi * chi)
        return nr0 * vr0 / sq * chi * chi * C + (1 - alpha * nr0) * chi ** 3 * S + nr0 * chi - sq * dt
    # F is increasing in chi: bracket then bisect
    lo, hi = (0.0, 1.0) if dt >= 0 else (-1.0, 0.0)
    for _ in range(200):
        if dt >= 0 and F(hi) < 0:
            hi *= 2
        elif dt < 0 and F(lo) > 0:
            lo *= 2
        else:
            break
    else:
        return None
    for _ in range(200):
        mid = 0.5 * (lo + hi)
        if F(mid) > 0:
            hi = mid
        else:
            lo = mid
    chi = 0.5 * (lo + hi)
    C, S = _stumpff(alpha * chi * chi)
    f = 1 - chi * chi / nr0 * C
    g = dt - chi ** 3 / sq * S
    r = f * r0 + g * v0
    nr = float(np.linalg.norm(r))
    fd = sq / (nr * nr0) * (alpha * chi ** 3 * S - chi)
    gd = 1 - chi * chi / nr * C
    return np.concatenate([r, fd * r0 + gd * v0])


def main(inp, outp):
    with open(inp) as fh:
        job = json.load(fh)
    res = {"evaluations": 0, "traces": 0, "clauses": {}, "violations": [], "samples": [], "nontrivial": []}

    def clause(name, ok, key, what, data):
        c = res["clauses"].setdefault(name, {"checked": 0, "failed": 0})
        c["checked"] += 1
        if not ok:
            c["failed"] += 1
            if sum(1 for v in res["violations"] if v["key"] == key) < 4:
                res["violations"].append({"key": key, "what": what, "data": data})

    primes = job["primes"]
    forms = ["keplerian", "keplerian_mean", "cartesian", "keplerian_circular", "equinoctial", "spherical"]
    for vi, v in enumerate(job["vectors"]):
        c = {k: float(crt_rational([m[k] for m in v["coef"]], primes)) for k in v["coef"][0]}
        a = c["a"] * RE
        e = v["ecc"][0] / v["ecc"][1]
        inc = math.asin(math.sqrt(v["s2"][0] / v["s2"][1]))
        if vi % 2:
            inc = math.pi - inc            # retrograde twin
        n = c["n"] / T0
        O0, w0, M0 = 1.1, 2.3, 0.4 + 0.9 * (vi % 5)
        base = Orbit([a, e, inc, O0, w0, M0], DATE, "keplerian_mean", "EME2000", "Kepler")
        form = forms[vi % len(forms)]
        data = {"a_Re": c["a"], "e": e, "i": inc, "steps_T0_over_4": v["steps"], "given_in_form": form,
                "how": "Orbit(mean elements, form converted to `given_in_form`).propagate, result read back as keplerian_mean"}
        dt = v["elapsed"] * T0 / 4.0
        res["traces"] += 1
        for prop in ("Kepler", "J2"):
            o = base.copy(form=form)
            o.propagator = prop
            cur = o
            try:
                for st in v["steps"]:
                    nxt = cur.propagate(cur.date + timedelta(seconds=st * T0 / 4.0))
                    cur = Orbit(np.asarray(nxt), nxt.date, nxt.form, nxt.frame, prop)
                direct = o.propagate(o.date + timedelta(seconds=dt))
            except Exception as ex:
                clause("propagation completes", False, f"kepler/raises[{prop}]", f"{type(ex).__name__}: {ex}", data)
                continue
            res["evaluations"] += 1
            got = [float(x) for x in cur.copy(form="keplerian_mean")]
            dtr = (cur.date - DATE).total_seconds()
            j2 = Earth.J2 if prop == "J2" else 0.0
            wantO = O0 + c["cO"] * math.cos(inc) * n * j2 * dtr
            wantw = w0 + c["cw"] * n * j2 * dtr
            wantM = M0 + (1 + c["cM"] * j2) * n * dtr
            tol = 1e-9 + abs(n * dtr) * 2e-11 + n * 2e-6
            ok_shape = abs(got[0] - a) <= 1e-9 * a and abs(got[1] - e) <= 1e-10 and angdiff(got[2], inc) <= 1e-10
            ok_ang = angdiff(got[3], wantO) <= tol and angdiff(got[4], wantw) <= tol and angdiff(got[5], wantM) <= tol
            clause(f"{prop}: a, e, i constant; node, perigee and mean anomaly advance at the exact (first-order secular) rates", ok_shape and ok_ang,
                   f"kepler/elements[{prop}]", f"{prop} dt={dtr:.1f}s: got {got}, expected a={a} e={e} i={inc} O={wantO % TWO_PI} w={wantw % TWO_PI} M={wantM % TWO_PI}", data)
            # composition: the chain of steps equals the single propagation
            ca = np.asarray(cur.copy(form="cartesian"), float)
            cb = np.asarray(direct.copy(form="cartesian"), float)
            rel = np.linalg.norm(ca[:3] - cb[:3]) / np.linalg.norm(cb[:3]) + np.linalg.norm(ca[3:] - cb[3:]) / np.linalg.norm(cb[3:])
            clause(f"{prop}: propagate(t1) then propagate(t2) ... equals propagate(t1 + t2 + ...)", rel <= 1e-8 * (1 + abs(n * dtr)),
                   f"kepler/compose[{prop}]", f"{prop} steps {v['steps']}: relative difference {rel:.3g}", data)
            # inverse
            back = Orbit(np.asarray(direct), direct.date, direct.form, direct.frame, prop).propagate(DATE)
            bb = np.asarray(back.copy(form="cartesian"), float)
            b0 = np.asarray(o.copy(form="cartesian"), float)
            rel = np.linalg.norm(bb[:3] - b0[:3]) / np.linalg.norm(b0[:3]) + np.linalg.norm(bb[3:] - b0[3:]) / np.linalg.norm(b0[3:])
            clause(f"{prop}: propagating back by -t restores the initial state", rel <= 1e-8 * (1 + abs(n * dtr)), f"kepler/inverse[{prop}]",
                   f"{prop} dt={dtr}: relative difference {rel:.3g}", data)
            # the orbit object is modified in place between two propagations: the second one must start from the CURRENT state
            live = base.copy(form=form)
            live.propagator = prop
            live.propagate(live.date + timedelta(seconds=0.11 * dtr + 60.0))
            if form == "cartesian":
                live[3:] = np.asarray(live[3:]) * 1.01
            elif form == "spherical":
                live[0] = live[0] * 1.02
            else:
                live[0] = live[0] * 1.05          # a, in every element form used here
            live.date = live.date + timedelta(seconds=77.0)
            second = live.propagate(live.date + timedelta(seconds=dt))
            fresh = Orbit(np.asarray(live), live.date, live.form, live.frame, prop).propagate(live.date + timedelta(seconds=dt))
            sa, sb = np.asarray(second.copy(form="cartesian"), float), np.asarray(fresh.copy(form="cartesian"), float)
            rel = np.linalg.norm(sa[:3] - sb[:3]) / np.linalg.norm(sb[:3]) + np.linalg.norm(sa[3:] - sb[3:]) / np.linalg.norm(sb[3:])
            clause(f"{prop}: after an in-place change of the orbit object a new propagation starts from its current state", rel <= 1e-9,
                   f"kepler/stale-state[{prop}]", f"{prop} ({form}): differs from a fresh orbit with the same values by {rel:.3g}", data)
            if prop == "Kepler":
                T = TWO_PI / n
                per = o.propagate(o.date + timedelta(seconds=3 * T))
                pp = np.asarray(per.copy(form="cartesian"), float)
                rel = np.linalg.norm(pp[:3] - b0[:3]) / np.linalg.norm(b0[:3])
                clause("Kepler: bound orbits are periodic", rel <= 1e-8 + n * 3e-6, "kepler/periodic", f"after 3 periods: relative {rel:.3g}", data)
        if len(res["samples"]) < 2:
            res["samples"].append({"orbit": data, "rate_coefficients": c})
        res["nontrivial"].append(json.dumps([v["k"], v["ecc"], v["s2"], len(v["steps"])]))
    # hyperbolic / generic float orbits: laws only
    # "two-body": the attracting body is the one of the orbit's frame - the Earth, the Moon or a synthetic heavy body
    fframe, fmu, fscale = "EME2000", MU, 1.0
    if job.get("body") in ("moon", "heavy"):
        from beyond.constants import Moon, Body
        from beyond.frames import frames as fr, orient, center
        body = Moon if job["body"] == "moon" else Body("VfHeavyK", mass=3.0e29, equatorial_radius=4.0e8)
        fframe = fr.Frame("VfK" + job["body"], orient.EME2000, center.Center("VfK" + job["body"] + "C", body=body))
        fmu, fscale = body.mu, (0.3 if job["body"] == "moon" else 1500.0)
    rng = np.random.default_rng(job.get("seed", 0))
    for _ in range(job.get("nfloat", 0)):
        hyp = rng.random() < 0.5
        e = float(rng.uniform(1.01, 10)) if hyp else float(10 ** rng.uniform(-4, math.log10(0.95)))
        rp = float(rng.uniform(6.7e6, 3e7)) * fscale
        a = rp / (1 - e)
        M0 = float(rng.uniform(-2, 2)) if hyp else float(rng.uniform(0, TWO_PI))
        kep = [a, e, float(rng.uniform(0.05, 3.0)), float(rng.uniform(0, TWO_PI)), float(rng.uniform(0, TWO_PI)), M0]
        o = Orbit(kep, DATE, "keplerian_mean", fframe, "Kepler")
        n = math.sqrt(fmu / abs(a) ** 3)
        tmax = (30 * 86400.0 if fscale == 1.0 else min(30 * 86400.0, 2000.0 / n)) if not hyp else min(30 * 86400.0, 6.0 / n)
        t1, t2 = float(rng.uniform(-tmax, tmax)), float(rng.uniform(-tmax, tmax))
        data = {"kep": kep, "t1": t1, "t2": t2, "central_body": job.get("body", "earth"), "mu": fmu}
        # dt is ELAPSED time: the target dates are handed over under the six time-scale labels in turn (the epoch stays in UTC, or is
        # itself relabelled every third orbit) - another label is another clock reading of the same instant
        labs = ["UTC", "TT", "TAI", "GPS", "TDB", "UT1"]
        l1, l2 = labs[_ % 6], labs[(_ // 6 + 2) % 6]
        if _ % 3 == 2:
            o = Orbit(kep, DATE.change_scale(labs[(_ // 3) % 6]), "keplerian_mean", fframe, "Kepler")
        data.update(target_labels=[l1, l2], epoch_label=o.date.scale.name)
        try:
            if _ % 4 == 1:
                # the other door: a duration counted from the orbit's own date
                p1 = o.propagate(timedelta(seconds=t1))
                p12 = Orbit(np.asarray(p1), p1.date, p1.form, p1.frame, "Kepler").propagate(timedelta(seconds=t2))
                data["door"] = "propagate(timedelta)"
            else:
                p1 = o.propagate((DATE + timedelta(seconds=t1)).change_scale(l1))
                p12 = Orbit(np.asarray(p1), p1.date, p1.form, p1.frame, "Kepler").propagate((p1.date + timedelta(seconds=t2)).change_scale(l2))
            d = o.propagate((DATE + timedelta(seconds=t1) + timedelta(seconds=t2)).change_scale(l2))
        except Exception as ex:
            clause("propagation completes", False, "kepler/raises[float]", f"{type(ex).__name__}: {ex} on {kep}", data)
            continue
        res["evaluations"] += 1
        x, y = np.asarray(p12.copy(form="cartesian"), float), np.asarray(d.copy(form="cartesian"), float)
        rel = np.linalg.norm(x[:3] - y[:3]) / np.linalg.norm(y[:3]) + np.linalg.norm(x[3:] - y[3:]) / np.linalg.norm(y[3:])
        km = [float(z) for z in d.copy(form="keplerian_mean")]
        okm = abs(km[0] - a) <= 1e-8 * abs(a) and abs(km[1] - e) <= 1e-9 * max(1, e) and (abs(km[5] - (M0 + n * (t1 + t2))) <= 1e-7 * (1 + abs(n * (t1 + t2))) if hyp else angdiff(km[5], M0 + n * (t1 + t2)) <= 1e-7 * (1 + abs(n * (t1 + t2))))
        clause("Kepler (float orbits, elliptic and hyperbolic, forwards and backwards): composition and M advance by n dt", rel <= 1e-7 * (1 + abs(n * (abs(t1) + abs(t2)))) and okm,
               "kepler/float-laws", f"kep {kep} t1={t1:.1f} t2={t2:.1f}: composition differs by {rel:.3g}; mean elements {km}", data)
        # independent oracle: the universal-variable (Stumpff) solution of the two-body problem from the initial cartesian state
        c0 = np.asarray(o.copy(form="cartesian"), float)
        ttot = t1 + t2
        uv = universal_two_body(c0[:3], c0[3:], ttot, fmu)
        if uv is not None:
            rel_u = np.linalg.norm(y[:3] - uv[:3]) / np.linalg.norm(uv[:3]) + np.linalg.norm(y[3:] - uv[3:]) / np.linalg.norm(uv[3:])
            clause("Kepler propagation agrees with an independent universal-variable solution of the two-body problem", rel_u <= 1e-7 * (1 + abs(n * ttot)),
                   "kepler/universal-variable", f"kep {kep} dt={ttot:.1f}: differs from the universal-variable solution by {rel_u:.3g} (relative)", data)
    res["nontrivial"] = sorted(set(res["nontrivial"]))[:400]
    with open(outp, "w") as fh:
        json.dump(res, fh)


if __name__ == "__main__":
    main(sys.argv[1], sys.argv[2])
