"""Project the built-in conversion graphs of the real library (element forms, time scales, frame orientations,
frame centres incl. JPL bodies and created stations/orbit frames) as (neighbour order, route table) states."""
import json
import sys
from pathlib import Path

from beyond.config import config

config.set("eop", "missing_policy", "pass")


def project(start):
    nodes = []
    seen = set()
    stack = [start]
    while stack:  # walk over neighbour links, not over route tables
        n = stack.pop(0)
        if id(n) in seen:
            continue
        seen.add(id(n))
        nodes.append(n)
        stack.extend(n.neighbors)
    names = []
    for n in nodes:
        if n.name not in names:
            names.append(n.name)
    idx = {name: i + 1 for i, name in enumerate(names)}
    merged = sorted(set(n.name for n in nodes if [m.name for m in nodes].count(n.name) > 1))
    # Two distinct nodes may carry the same name (the library's own Earth centre and the JPL kernel's Earth,
    # linked by a zero offset).  Routing is by name, so same-named linked nodes act as ONE vertex: they are
    # merged here (neighbours united, the route of whichever member does not point at its namesake is kept).
    nb = [[] for _ in names]
    rt = [[[0, 0] for _ in names] for _ in names]
    for n in nodes:
        i = idx[n.name] - 1
        for x in n.neighbors:
            if x.name != n.name and idx[x.name] not in nb[i]:
                nb[i].append(idx[x.name])
    for n in nodes:
        i = idx[n.name] - 1
        for t in names:
            r = n.routes.get(t)
            if r is None or t == n.name or r.direction.name == n.name:
                continue
            cand = [idx[r.direction.name], int(r.steps)]
            if rt[i][idx[t] - 1] == [0, 0] or cand[1] < rt[i][idx[t] - 1][1]:
                rt[i][idx[t] - 1] = cand
    if merged:
        # steps counted through a merged namesake are one too many; normalise by re-deriving steps from walks
        for i in range(len(names)):
            for j in range(len(names)):
                if rt[i][j] != [0, 0]:
                    cur, hops = i, 0
                    while cur != j and hops <= len(names):
                        cur = rt[cur][j][0] - 1 if rt[cur][j] != [0, 0] else j
                        hops += 1
                    rt[i][j][1] = hops
    extra = sorted(set(k for n in nodes for k in n.routes) - set(idx))
    return {"names": names, "nb": nb, "rt": rt, "routes_to_unknown": extra, "merged_same_name": merged}


def main(inp, outp):
    with open(inp) as fh:
        job = json.load(fh)
    from beyond.orbits.forms import Form  # noqa
    from beyond.orbits import forms
    from beyond.dates.date import Date, Timescale
    from beyond.dates import date as dmod
    from beyond.frames import orient, center, frames as fr
    from beyond.frames.stations import create_station
    from beyond.orbits import StateVector

    out = {}
    out["forms"] = project(forms.CART)
    out["scales"] = project(dmod.UTC)
    out["orient-import"] = project(orient.EME2000)
    out["centre-import"] = project(center.Earth.node)
    if job.get("jpl"):
        from beyond.env import jpl
        d = Path(job["repo"]) / "tests" / "data" / "jpl"
        config.set("env", "jpl", "files", [str(d / "de403_2000-2020.bsp"), str(d / "pck00010.tpc"), str(d / "gm_de431.tpc")])
        jpl.create_frames()
        out["centre-jpl"] = project(center.Earth.node)
    st = create_station("VfToulouse", (43.604482, 1.443962, 172.0))
    st2 = create_station("VfKourou", (5.25, -52.8, 12.0), parent_frame=fr.PEF)
    date = Date(2016, 5, 4)
    ref = StateVector([7000e3, -1200e3, 300e3, 1000.0, 7000.0, 2500.0], date, "cartesian", "EME2000")
    fr.orbit2frame("VfLofQ", ref, "QSW")
    fr.orbit2frame("VfLofT", ref.copy(frame=st), "TNW", parent=fr.MOD)
    fr.orbit2frame("VfLofN", ref.copy(frame="ITRF"), None)
    out["orient-created"] = project(orient.EME2000)
    out["centre-created"] = project(center.Earth.node)
    with open(outp, "w") as fh:
        json.dump(out, fh)


if __name__ == "__main__":
    main(sys.argv[1], sys.argv[2])
