"""Orbits dated by arbitrary UTC microsecond dates -> Tle.from_orbit -> the epoch columns of line 1 and the date read back.
Events are judged by TleEpoch.tla (exact distance between the written epoch and the true one)."""
import json
import sys
from datetime import datetime, timedelta

from beyond.dates import Date
from beyond.io.tle import Tle

ISS = """ISS (ZARYA)
1 25544U 98067A   18124.55610684  .00001524  00000-0  30197-4 0  9997
2 25544  51.6421 236.2139 0003381  47.8509  47.6767 15.54198229111731"""


def main(inp, outp):
    with open(inp) as fh:
        job = json.load(fh)
    res = {"events": [], "errors": []}
    base = Tle(ISS).orbit()
    for g in job["grid"]:
        dt = datetime(g["year"], 1, 1) + timedelta(days=g["doy"] - 1, seconds=g["sec"], microseconds=g["us"])
        ev = dict(g)
        for label in job["labels"]:
            e = dict(ev, label=label)
            try:
                orb = base.copy()
                d = Date(dt)
                orb.date = d if label == "UTC" else d.change_scale(label)       # the same instant under another label
                t = str(Tle.from_orbit(orb, norad_id=25544, cospar_id="1998-067A"))
                l1, l2 = t.splitlines()[-2:]
                e.update(len1=len(l1), len2=len(l2), wyy=int(l1[18:20]), wdoy=int(l1[20:23]), wfrac=int(l1[24:32]), dot=l1[23])
                try:
                    back = Tle(t).epoch.change_scale("UTC").datetime
                    y0 = datetime(back.year, 1, 1)
                    e.update(ryear=back.year, rdoy=(back - y0).days + 1, rsec=back.hour * 3600 + back.minute * 60 + back.second, rus=back.microsecond)
                except Exception as ex:
                    e.update(ryear=0, rdoy=0, rsec=0, rus=0, error=f"{type(ex).__name__}: {ex}")
                e["text"] = l1
            except Exception as ex:
                res["errors"].append({"grid": g, "label": label, "error": f"{type(ex).__name__}: {ex}"})
                continue
            res["events"].append(e)
    with open(outp, "w") as fh:
        json.dump(res, fh)


if __name__ == "__main__":
    main(sys.argv[1], sys.argv[2])
