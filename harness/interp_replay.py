"""Replay Interp.tla states on the real beyond.utils.interp.Interp / DatedInterp / Ephem.interpolate (property C09)."""
import json
import sys
from datetime import timedelta
from fractions import Fraction

import numpy as np

from beyond.config import config

config.set("eop", "missing_policy", "pass")

from beyond.utils.interp import Interp, DatedInterp  # noqa: E402
from beyond.dates import Date  # noqa: E402
from beyond.orbits import StateVector, Ephem  # noqa: E402

T0 = Date(2018, 5, 4, 13, 20, 47)


def weights_exact(xs, window, q):
    ws = {}
    for j in window:
        w = Fraction(1)
        for m in window:
            if m != j:
                w *= Fraction(q - xs[m], xs[j] - xs[m])
        ws[j] = w
    return ws


def main(inp, outp):
    with open(inp) as fh:
        job = json.load(fh)
    res = {"evaluations": 0, "traces": 0, "clauses": {}, "violations": [], "samples": [], "nontrivial": []}
    kinds = set()

    def clause(name, ok, key, what, data):
        c = res["clauses"].setdefault(name, {"checked": 0, "failed": 0})
        c["checked"] += 1
        if not ok:
            c["failed"] += 1
            if sum(1 for v in res["violations"] if v["key"] == key) < 4:
                res["violations"].append({"key": key, "what": what, "data": data})

    # ---- histories of settings on ONE ephemeris object (EphemSettings.tla) -----------------------------------------------
    for bidx, beh in enumerate(job.get("settings", [])):
        n, deg, h = 16, beh["degree"], 30.0
        coef = [[((3 * k + 7 * j) % 11 - 5) / (10.0 ** j) for j in range(deg + 1)] for k in range(6)]

        def poly(t):
            return [sum(c * (t / 100.0) ** j for j, c in enumerate(coef[k])) for k in range(6)]
        dates = [T0 + timedelta(seconds=h * a) for a in range(n)]
        converts = any(a[0] == "convert" for a in beh["hist"])
        if converts:
            # conversions between frames / forms need physical states: a two-body orbit sampled every 30 s
            from beyond.orbits import Orbit
            ref_orb = Orbit([7.2e6, 0.02, 0.9, 1.0, 2.0, 0.7], T0, "keplerian", "EME2000", "Kepler")
            svs = [ref_orb.propagate(d).copy(form="cartesian").as_statevector() for d in dates]
        else:
            svs = [StateVector(poly(h * a), d, "cartesian", "EME2000") for a, d in zip(range(n), dates)]
        eph = Ephem(svs)
        cur_repr = ("EME2000", "cartesian")
        data = {"hist": beh["hist"], "degree": deg, "how": "one Ephem object: ephem.order = k / ephem.method = m / ephem.interpolate(date) in that order; "
                                                           "each result compared with a fresh Ephem(orbs, method=m, order=k)"}
        res["traces"] += 1
        for act in beh["hist"]:
            if act[0] == "order":
                eph.order = act[1]
            elif act[0] == "method":
                eph.method = act[1]
            elif act[0] == "copy":
                eph = eph.copy()
            elif act[0] == "pickle":
                import pickle
                eph = pickle.loads(pickle.dumps(eph))
            elif act[0] == "convert":
                if act[1] != cur_repr[0]:
                    eph.frame = act[1]
                if act[2] != cur_repr[1]:
                    eph.form = act[2]
                cur_repr = (act[1], act[2])
            else:
                q, m, k = act[1], act[2], act[3]
                t = h * q / 2.0
                d = T0 + timedelta(seconds=t)
                # the door is part of the behaviour (EphemSettings.tla Doors)
                door = act[6] if len(act) > 6 else "interpolate"
                if door == "interpolate":
                    gsv = eph.interpolate(d)
                elif door == "propagate":
                    gsv = eph.propagate(d)
                elif door == "iter-dates":
                    gsv = next(iter(eph.iter(dates=[d])))
                else:
                    gsv = list(eph.ephem(dates=[d]))[0]
                got = np.asarray(gsv, float)
                fr_, fo_ = act[4], act[5]
                fresh_sv = Ephem([x.copy(frame=fr_, form=fo_) for x in svs], method=m, order=k).interpolate(d)
                fresh = np.asarray(fresh_sv, float)
                clause("an interpolated point keeps the ephemeris' current frame and form", gsv.frame.name == fr_ and gsv.form.name == fo_,
                       "interp/settings-repr", f"after {beh['hist']}: interpolated point in {gsv.frame.name}/{gsv.form.name}, ephemeris in {fr_}/{fo_}", data)
                res["evaluations"] += 1
                sc = max(1.0, float(np.abs(fresh).max()))
                clause("an interpolation uses the method and order in force when it is made, whatever was interpolated or set before",
                       float(np.abs(got - fresh).max()) <= (1e-7 if converts else 1e-9) * sc and eph.order == k and eph.method == m, "interp/settings-history",
                       f"after {beh['hist']}: interpolate at {t} s differs from a fresh Ephem(method={m}, order={k}) by {float(np.abs(got - fresh).max()):.3g} "
                       f"(getters report method={eph.method}, order={eph.order})", data)
                if m == "lagrange" and deg < k and not converts:
                    want = np.asarray(poly(t), float)
                    clause("Lagrange interpolation of order k reproduces a polynomial trajectory of degree < k (after a history of settings)",
                           float(np.abs(got - want).max()) <= 1e-7 * max(1.0, float(np.abs(want).max())), "interp/settings-polynomial",
                           f"after {beh['hist']}: degree {deg} polynomial not reproduced at order {k}: off by {float(np.abs(got - want).max()):.3g}", data)
        kinds.add(("settings", len(beh["hist"]), deg))
    # ---- accuracy on smooth orbits, in every element form and in inertial / rotating frames ---------------------------------
    for case in job.get("accuracy", []):
        from beyond.orbits import Orbit
        kep, step, n, fr_, fo_ = case["kep"], case["step"], case["n"], case["frame"], case["form"]
        ref_orb = Orbit(kep, T0, "keplerian", "EME2000", "Kepler")
        dates = [T0 + timedelta(seconds=step * a) for a in range(n)]
        nodes = [ref_orb.propagate(d).copy(frame=fr_, form=fo_) for d in dates]
        eph = Ephem(nodes, order=8)
        arr = np.array([np.asarray(x, float) for x in nodes])
        for a in range(n - 1):
            d = T0 + timedelta(seconds=step * (a + 0.5))
            want = np.asarray(ref_orb.propagate(d).copy(frame="EME2000", form="cartesian"), float)
            got = np.asarray(eph.interpolate(d).copy(frame="EME2000", form="cartesian"), float)
            err = float(np.linalg.norm(got[:3] - want[:3]))
            lo = min(max(0, a - 4), n - 9)            # the 8 nodes of the (edge-shifted) window, one more on each side to be safe
            hi = lo + 10
            wraps = fo_ != "cartesian" and bool((np.abs(np.diff(arr[lo:hi], axis=0)) > np.pi).any())
            res["evaluations"] += 1
            data = {"kep": kep, "step_s": step, "frame": fr_, "form": fo_, "interval": a,
                    "how": "Ephem of a two-body orbit sampled every step_s in (frame, form), order 8; interpolate at mid-interval; compared with the propagated state"}
            clause("for a smooth orbit sampled well below its period the interpolated position is within centimetres of the true one (5 cm)",
                   err <= 5e-2, "interp/angle-wrap" if wraps else "interp/accuracy",
                   f"{fr_}/{fo_} interval {a}: {err:.4g} m" + (" (an angle of the form wraps inside the interpolation window)" if wraps else ""), data)
        kinds.add(("accuracy", fr_, fo_))
    for v in job.get("vectors", []):
        xs, order, q, verdict = v["xs"], v["order"], v["x"], v["verdict"]
        n = len(xs)
        data = {"xs": xs, "order": order, "x": q, "how": "Interp(xs, ys, 'lagrange', order)(x) with ys = identity rows / polynomial samples"}
        res["evaluations"] += 1
        res["traces"] += 1
        scale = v.get("scale", 1.0)
        fx = [float(a) * scale for a in xs]
        eye = np.identity(n)
        try:
            w = Interp(fx, eye, "lagrange", order)(q * scale)
            got = "value"
        except ValueError as e:
            got = "refuse-range" if "not in range" in str(e) else "refuse-order"
            w = None
        kinds.add((verdict, order, "node" if q in xs else "between",
                   "edge" if v["wstart"] == 0 or v["wstop"] == n else "centre"))
        clause("dates outside the table and tables shorter than the order are refused, everything else answered",
               got == verdict or (verdict.startswith("refuse") and got.startswith("refuse")), "interp/refusal",
               f"outcome {got}, expected {verdict} (n={n}, order={order}, x={q})", data)
        if verdict == "refuse-range" and n >= 2:
            dates = [T0 + timedelta(seconds=30 * a) for a in xs]
            eph = Ephem([StateVector([7e6 + a, 0.5, 0.2, 0.1, 1.0, 2.0], d, "spherical", "ITRF") for a, d in zip(xs, dates)],
                        order=min(order, n))
            try:
                eph.interpolate(T0 + timedelta(seconds=30 * q))
                refused = False
            except ValueError:
                refused = True
            clause("Ephem.interpolate refuses dates outside the table", refused, "interp/ephem-extrapolates",
                   f"date {30*q} s accepted for table {30*xs[0]}..{30*xs[-1]} s", data)
        if verdict != "value" or w is None:
            continue
        window = list(range(v["wstart"], v["wstop"]))
        exact = weights_exact(xs, window, q)
        # 1. the nodes actually used by the code are those of the specification's window
        support = [j for j in range(n) if abs(w[j]) > 1e-13]
        clause("the interpolation window is `order` consecutive nodes bracketing the query (support of the weights)",
               set(support) <= set(window), "interp/window",
               f"code used nodes {support}, specification window {window[0]}..{window[-1]} (n={n}, order={order}, x={q})", data)
        # 2. weights = exact Lagrange weights over that window
        err = max(abs(float(exact.get(j, 0)) - w[j]) for j in range(n))
        mag = max(1.0, max(abs(float(x)) for x in exact.values()))
        clause("Lagrange weights equal the exact ones (1e-9 relative)", err <= 1e-9 * mag, "interp/weights",
               f"max weight error {err:.3e} (n={n}, order={order}, x={q})", data)
        # 3. polynomial reproduction, degree < order, generic (non-monomial) coefficients
        coef = [((7 * d + 3) % 11) - 5 or 1 for d in range(order)]
        mid = xs[n // 2]

        def P(t):
            return sum(Fraction(c) * Fraction(t - mid, 4) ** d for d, c in enumerate(coef))
        ys = np.array([[float(P(a)), float(-2 * P(a) + 1)] for a in xs])
        val = Interp(fx, ys, "lagrange", order)(q * scale)
        want = float(P(q))
        sc = max(1.0, max(abs(float(P(a))) for a in xs[window[0]:window[-1] + 1]))
        clause("order-k Lagrange interpolation reproduces a polynomial of degree < k (1e-9 relative)",
               abs(val[0] - want) <= 1e-9 * sc and abs(val[1] - (-2 * want + 1)) <= 2e-9 * sc, "interp/polynomial",
               f"P(x)={want!r} interpolated {val[0]!r} (n={n}, order={order}, x={q})", data)
        # 4. node exactness
        if q in xs:
            j = xs.index(q)
            rnd = np.array([[1234.5678 * (i + 1), -0.001 * i * i + 7e6] for i in range(n)])
            valn = Interp(fx, rnd, "lagrange", order)(q * scale)
            clause("interpolating at a node returns the node value (4 ulp)",
                   all(abs(valn[c] - rnd[j, c]) <= 4 * np.spacing(abs(rnd[j, c])) for c in range(2)), "interp/node",
                   f"at node {j}: {valn} vs {rnd[j]}", data)
        # 5. linear mode: piecewise-linear data is reproduced
        pl = np.array([[3.0 * a + (5.0 if i % 2 else -2.0)] for i, a in enumerate(xs)])
        lin = Interp(fx, pl, "linear")(q * scale)
        i0 = v["prev"]
        if i0 + 1 < n:
            x0, x1 = xs[i0], xs[i0 + 1]
            wantl = pl[i0, 0] + (pl[i0 + 1, 0] - pl[i0, 0]) * (q - x0) / (x1 - x0)
            clause("linear interpolation reproduces piecewise-linear data", abs(lin[0] - wantl) <= 1e-9 * max(1.0, abs(wantl)),
                   "interp/linear", f"linear {lin[0]} vs {wantl} at x={q}", data)
        # 6. through the ephemeris API: abscissae are dates, frame and form are kept
        if v.get("ephem"):
            dates = [T0 + timedelta(seconds=30 * a) for a in xs]   # 60 s nodes: MJD floats resolve 0.6 us
            svs = []
            for a, d in zip(xs, dates):
                p = float(P(a))
                svs.append(StateVector([7e6 + p, 0.5 + 1e-3 * p, 0.2, 0.1 * p, 1.0, 2.0], d, "spherical", "ITRF"))
            eph = Ephem(svs, order=order)
            out = eph.interpolate(T0 + timedelta(seconds=30 * q))
            sc2 = 7e6
            clause("Ephem.interpolate: polynomial trajectory reproduced, frame and form kept",
                   abs(out[0] - (7e6 + want)) <= 2e-6 * sc + 1e-9 * sc2 and out.frame.name == "ITRF" and out.form.name == "spherical"
                   and out.date == T0 + timedelta(seconds=30 * q), "interp/ephem",
                   f"ephem value {out[0]!r} vs {7e6 + want!r}, frame {out.frame}, form {out.form}", data)
        if len(res["samples"]) < 2 and q not in xs:
            res["samples"].append({"xs": xs, "order": order, "x": q, "spec_window": [window[0], window[-1]], "code_support": support})
    # ephemeris refuses dates outside the table
    res["nontrivial"] = [json.dumps(list(map(str, k))) for k in sorted(kinds, key=str)]
    with open(outp, "w") as fh:
        json.dump(res, fh)


if __name__ == "__main__":
    main(sys.argv[1], sys.argv[2])
