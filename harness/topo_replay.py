"""Replay of Topo.tla on real ground stations, topocentric conversions, simulated measures and horizon masks (C11)."""
import json
import math
import sys
from datetime import timedelta

import numpy as np

from beyond.config import config

config.set("eop", "missing_policy", "pass")

from beyond.dates import Date  # noqa: E402
from beyond.orbits import StateVector  # noqa: E402
from beyond.frames import frames as fr  # noqa: E402
from beyond.frames.stations import create_station  # noqa: E402
from beyond.constants import Earth  # noqa: E402
from beyond.utils.measures import Range, Azimut, Elevation, Doppler  # noqa: E402
sys.path.insert(0, __file__.rsplit("/", 1)[0])
from forms_replay import crt_rational  # noqa: E402

DATE = Date(2016, 5, 4, 12, 30, 17)
LS = 1.0e3     # one lattice unit of offset = 1 km ; velocities: 1 unit = 1 m/s
TWO_PI = 2 * math.pi


def geodetic(lat, lon, alt):
    """independent WGS-84-style computation with the library's own ellipsoid constants (radius, flattening)"""
    a = Earth.r
    f = Earth.f if hasattr(Earth, "f") else Earth.flattening
    e2 = 2 * f - f * f
    N = a / math.sqrt(1 - e2 * math.sin(lat) ** 2)
    return np.array([(N + alt) * math.cos(lat) * math.cos(lon), (N + alt) * math.cos(lat) * math.sin(lon), (N * (1 - e2) + alt) * math.sin(lat)])


def angdiff(a, b):
    d = (a - b) % TWO_PI
    return min(d, TWO_PI - d)


def main(inp, outp):
    with open(inp) as fh:
        job = json.load(fh)
    res = {"evaluations": 0, "traces": 0, "clauses": {}, "violations": [], "samples": [], "nontrivial": []}

    def clause(name, ok, key, what, data):
        c = res["clauses"].setdefault(name, {"checked": 0, "failed": 0})
        c["checked"] += 1
        if not ok:
            c["failed"] += 1
            if sum(1 for v in res["violations"] if v["key"] == key) < 4:
                res["violations"].append({"key": key, "what": what, "data": data})

    primes = job["primes"]
    stations = {}
    # ---- the coordinates of a station are values: whatever Python type carries them (ints, floats, list, tuple, array) ------
    if job.get("axes"):
        k = 0
        for lat_d, lon_d, alt in ((45, 10, 100), (-33, 151, 0), (0, 0, 0), (60, -120, 500), (-89, 179, 8800)):
            ref = geodetic(math.radians(lat_d), math.radians(lon_d), float(alt))
            for how, val in (("tuple of ints", (lat_d, lon_d, alt)), ("list of ints", [lat_d, lon_d, alt]), ("int array", np.array([lat_d, lon_d, alt])),
                             ("tuple of floats", (float(lat_d), float(lon_d), float(alt))), ("float array", np.array([lat_d, lon_d, alt], dtype=float)),
                             ("mixed", (lat_d, float(lon_d), alt))):
                k += 1
                given = val.copy() if isinstance(val, (list, np.ndarray)) else val
                sta = create_station(f"VfI{k}", given)
                o = np.asarray(StateVector([0, 0, 0, 0, 0, 0], DATE, "cartesian", sta).copy(frame="ITRF"), float)
                up = np.asarray(StateVector([0, 0, 1000.0, 0, 0, 0], DATE, "cartesian", sta).copy(frame="ITRF"), float)[:3] - o[:3]
                nrm = np.array([math.cos(math.radians(lat_d)) * math.cos(math.radians(lon_d)), math.cos(math.radians(lat_d)) * math.sin(math.radians(lon_d)),
                                math.sin(math.radians(lat_d))])
                res["evaluations"] += 1
                clause("the station sits at the geodetic position of its coordinates whatever Python type carries them (ints, floats, list, tuple, array)",
                       np.linalg.norm(o[:3] - ref) <= 1e-6 and np.linalg.norm(up / 1000.0 - nrm) <= 1e-9, "topo/coordinate-type",
                       f"create_station(..., {how} {tuple(int(x) for x in (lat_d, lon_d, alt))}): origin {np.linalg.norm(o[:3] - ref):.4g} m from the geodetic position, "
                       f"zenith off by {np.linalg.norm(up / 1000.0 - nrm):.3g}", {"latlonalt": [lat_d, lon_d, alt], "given_as": how})
    if job.get("axes"):
        # the ellipsoid is WGS-84 (the property's own words): a = 6378137.0 m, 1/f = 298.257223563
        from beyond.constants import Earth as _E
        f_lib = _E.f if hasattr(_E, "f") else _E.flattening
        clause("the flattening of the Earth ellipsoid is the WGS-84 one (1/298.257223563)", abs(f_lib - 1 / 298.257223563) <= 1e-15, "topo/wgs84-flattening",
               f"Earth flattening is {f_lib!r}", {"f": f_lib})
        res["evaluations"] += 1
        if _E.r != 6378137.0:
            clause("the equatorial radius of the Earth ellipsoid is the WGS-84 one (6378137.0 m)", False,
                   "topo/wgs84-radius-egm96" if _E.r == 6378136.3 else "topo/wgs84-radius",
                   f"Earth.r is {_E.r!r} m instead of 6378137.0 m: stations sit {6378137.0 - _E.r:.2f} m below the WGS-84 ellipsoid at the equator", {"r": _E.r})
        else:
            clause("the equatorial radius of the Earth ellipsoid is the WGS-84 one (6378137.0 m)", True, "", "", {})
    for vi, v in enumerate(job.get("axes", [])):
        lat = math.atan2(v["lat"][1], v["lat"][0])
        lon = math.atan2(v["lon"][1], v["lon"][0])
        alt = [0.0, 172.0, -350.0, 8800.0][vi % 4]
        key = (tuple(v["lat"]), tuple(v["lon"]), alt)
        if key not in stations:
            # western longitudes are given in the [0, 360) convention for every other station (Mauna Kea: -155.5 or 204.5)
            lon_given = math.degrees(lon) + (360.0 if lon < 0 and len(stations) % 2 == 1 else 0.0)
            stations[key] = create_station(f"VfT{len(stations)}", (math.degrees(lat), lon_given, alt))
        sta = stations[key]
        ax = {k: np.array([float(crt_rational([m[k][i] for m in v["axes"]], primes)) for i in range(3)]) for k in ("north", "west", "up")}
        offp = np.array([float(crt_rational([m[0][i] for m in v["off"]], primes)) for i in range(3)]) * LS
        offv = np.array([float(crt_rational([m[1][i] for m in v["off"]], primes)) for i in range(3)])
        dN, dW, dU, vN, vW, vU = v["tgt"]
        data = {"lat": v["lat"], "lon": v["lon"], "alt": alt, "target_station_axes": v["tgt"],
                "how": "create_station(name, (lat deg, lon deg, alt)); StateVector(target in ITRF).copy(frame=station, form='spherical')"}
        res["evaluations"] += 1
        res["traces"] += 1
        spos = geodetic(lat, lon, alt)
        # station position and rest
        origin = StateVector([0, 0, 0, 0, 0, 0], DATE, "cartesian", sta).copy(frame="ITRF")
        o = np.asarray(origin, float)
        clause("the station sits on the ellipsoid at the given height and is at rest in the Earth-fixed frame",
               np.linalg.norm(o[:3] - spos) <= 1e-6 and np.linalg.norm(o[3:]) <= 1e-12, "topo/position",
               f"station origin in ITRF {o.tolist()} expected {spos.tolist()}", data)
        a_, f_ = Earth.r, (Earth.f if hasattr(Earth, "f") else Earth.flattening)
        b_ = a_ * (1 - f_)
        if alt == 0.0:
            ell = (o[0] ** 2 + o[1] ** 2) / a_ ** 2 + o[2] ** 2 / b_ ** 2
            clause("at zero height the station satisfies the ellipsoid equation", abs(ell - 1) <= 1e-12, "topo/ellipsoid", f"{ell}", data)
        inert = np.asarray(StateVector([0, 0, 0, 0, 0, 0], DATE, "cartesian", sta).copy(frame="TOD"), float)
        from beyond.frames.iau1980 import rate
        w = rate(DATE)
        expect_v = np.cross(w, inert[:3])
        clause("in inertial frames the station moves with the Earth's rotation (v = w x r)", np.linalg.norm(inert[3:] - expect_v) <= 1e-6,
               "topo/rotation", f"velocity in TOD {inert[3:].tolist()} expected {expect_v.tolist()}", data)
        # target
        tp = spos + offp
        sv = StateVector(list(tp) + list(offv), DATE, "cartesian", "ITRF")
        loc = sv.copy(frame=sta, form="spherical")
        cart = np.asarray(sv.copy(frame=sta, form="cartesian"), float)
        rng = math.sqrt(dN * dN + dW * dW + dU * dU) * LS
        want_cart = np.array([dN * LS, dW * LS, dU * LS, vN, vW, vU], float)
        clause("station axes are x north / y west / z up (exact offsets recovered)", np.linalg.norm(cart[:3] - want_cart[:3]) <= 1e-6 * max(1, rng / LS)
               and np.linalg.norm(cart[3:] - want_cart[3:]) <= 1e-9 * max(1.0, np.linalg.norm(want_cart[3:])), "topo/axes",
               f"station-frame cartesian {cart.tolist()} expected {want_cart.tolist()}", data)
        if rng > 0:
            el = math.asin(dU * LS / rng)
            rr = (dN * vN + dW * vW + dU * vU) * LS / rng
            ok = abs(loc.r - rng) <= 1e-6 * max(1.0, rng / LS) and abs(loc.phi - el) <= 1e-9 and abs(loc.r_dot - rr) <= 1e-9 * max(1.0, abs(rr))
            if dN or dW:
                az = math.atan2(-dW, dN) % TWO_PI          # clockwise from north: azimuth = -theta
                ok = ok and angdiff(-loc.theta, az) <= 1e-9
            clause("range, azimuth (= -theta), elevation and range-rate equal the independent east-north-up computation", ok, "topo/rae",
                   f"r={loc.r} theta={loc.theta} phi={loc.phi} r_dot={loc.r_dot}; expected r={rng} el={el} rr={rr}", data)
            # simulated measures
            other = stations[next(iter(stations))]
            for path, legs in (((sta, "sat"), 1), ((sta, "sat", sta), 2), ((sta, "sat", other), 2)):
                m = Range(path, DATE, 0).from_orbit(sv)
                clause("simulated range counts the topocentric range once per leg of the path", abs(m.value - rng * legs) <= 1e-6 * max(1.0, rng / LS) * legs,
                       "topo/measure-range", f"path of {legs} legs: {m.value} expected {rng * legs}", data)
            mm = [Azimut((sta, "sat"), DATE, 0).from_orbit(sv).value, Elevation((sta, "sat"), DATE, 0).from_orbit(sv).value,
                  Doppler((sta, "sat"), DATE, 0).from_orbit(sv).value]
            clause("simulated azimuth / elevation / range-rate measures are the topocentric quantities", abs(mm[0] - loc.theta) <= 1e-12 and
                   abs(mm[1] - loc.phi) <= 1e-12 and abs(mm[2] - loc.r_dot) <= 1e-12, "topo/measure-angles", f"{mm}", data)
            # a second object observed by the same station at the same date, right after the first one (two satellites tracked at
            # one epoch, a nominal and a perturbed state ...): its measures are its own
            sv2 = StateVector(list(tp + np.array([1500.0, -2500.0, 800.0])) + list(offv + np.array([3.0, -1.0, 2.0])), DATE, "cartesian", "ITRF")
            loc2 = sv2.copy(frame=sta, form="spherical")
            m2 = [Range((sta, "sat"), DATE, 0).from_orbit(sv2).value, Azimut((sta, "sat"), DATE, 0).from_orbit(sv2).value,
                  Elevation((sta, "sat"), DATE, 0).from_orbit(sv2).value, Doppler((sta, "sat"), DATE, 0).from_orbit(sv2).value]
            clause("measures of a second object at the same station and date are that object's own topocentric quantities",
                   abs(m2[0] - loc2.r) <= 1e-6 and abs(m2[1] - loc2.theta) <= 1e-12 and abs(m2[2] - loc2.phi) <= 1e-12 and abs(m2[3] - loc2.r_dot) <= 1e-12,
                   "topo/measure-second-object", f"{m2} expected {[loc2.r, loc2.theta, loc2.phi, loc2.r_dot]}", data)
        res["nontrivial"].append(json.dumps([v["lat"], v["lon"]]))
        if len(res["samples"]) < 2:
            res["samples"].append({"station": data, "axes_north": ax["north"].tolist()})
    # ---- horizon mask -------------------------------------------------------------------------------------------------
    masks = {}
    shared = None          # ONE station object that is given the tables one after the other (a new mask replaces the old one)
    for v in job.get("mask", []):
        key = json.dumps(v["tab"])
        if key not in masks:
            az = [t[0] * math.pi / 12 for t in v["tab"]]
            el = [math.radians(t[1]) for t in v["tab"]]
            masks[key] = create_station(f"VfM{len(masks)}", (10.0, 20.0, 0.0), mask=[az, el])
        sta = masks[key]
        q = v["qz"] * math.pi / 24
        want = math.radians(v["mval"][0] / v["mval"][1])
        res["evaluations"] += 1
        try:
            got = float(sta.get_mask(q))
        except Exception as e:
            got = float("nan")
        if shared is None:
            shared = create_station("VfMShared", (10.0, 20.0, 0.0), mask=[[math.pi, 2 * math.pi], [0.1, 0.2]])
            shared.get_mask(1.0)
        shared.mask = np.array([[t[0] * math.pi / 12 for t in v["tab"]], [math.radians(t[1]) for t in v["tab"]]])
        try:
            got2 = float(shared.get_mask(q))
        except Exception:
            got2 = float("nan")
        clause("a station given a new mask table answers with the new table", abs(got2 - want) <= 1e-9, "topo/mask-replaced",
               f"after station.mask = table {v['tab']}: azimuth {v['qz']} x pi/24 gives {got2} expected {want}", {"table": v["tab"], "azimuth_pi_over_24": v["qz"]})
        clause("the mask value at any azimuth is the piecewise-linear interpolation of the table (2 pi value also at 0)",
               abs(got - want) <= 1e-9, "topo/mask", f"table {v['tab']} azimuth {v['qz']} x pi/24: {got} expected {want}", {"table": v["tab"], "azimuth_pi_over_24": v["qz"]})
    res["nontrivial"] = sorted(set(res["nontrivial"]))[:300] + [f"mask{len(masks)}"]
    with open(outp, "w") as fh:
        json.dump(res, fh)


if __name__ == "__main__":
    main(sys.argv[1], sys.argv[2])
