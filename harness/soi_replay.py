"""Streams of the real sphere-of-influence propagators (beyond/propagators/soi.py) for SoITrace.tla, and the direct
reproduction of the deviations TLC finds on SoI.tla (beyond the listed properties; DESIGN.md section 10)."""
import json
import sys
from datetime import timedelta
from pathlib import Path

import numpy as np

from beyond.config import config

config.set("eop", "missing_policy", "pass")

OPM = """CCSDS_OPM_VERS = 2.0
CREATION_DATE = 2021-02-10T22:22:15.320723
ORIGINATOR = N/A

META_START
OBJECT_NAME          = N/A
OBJECT_ID            = N/A
CENTER_NAME          = EARTH
REF_FRAME            = EME2000
TIME_SYSTEM          = UTC
META_STOP

COMMENT  State Vector
EPOCH                = 2018-05-02T00:45:03.955092
X                    = -6822.384678 [km]
Y                    =  -492.535719 [km]
Z                    =  -213.510446 [km]
X_DOT                =    -0.873741 [km/s]
Y_DOT                =   -10.012250 [km/s]
Z_DOT                =    -4.340233 [km/s]
"""


def main(inp, outp):
    with open(inp) as fh:
        job = json.load(fh)
    d = Path(job["repo"]) / "tests" / "data" / "jpl"
    config.set("env", "jpl", "files", [str(d / "de403_2000-2020.bsp"), str(d / "pck00010.tpc"), str(d / "gm_de431.tpc")])
    from beyond.env import jpl
    from beyond.io import ccsds
    from beyond.propagators.soi import SoINumerical, SoIAnalytical
    jpl.create_frames()
    sun, earth = jpl.get_body("Sun"), jpl.get_body("Earth")
    radius = SoINumerical.SOIS["Earth"].radius
    traces = []
    for sc in job["scenarios"]:
        tick = sc["tick_s"]
        if sc["numerical"]:
            prop = SoINumerical(timedelta(seconds=tick * sc["stepC"]), timedelta(seconds=tick * sc["stepA"]), sun, earth)
        else:
            prop = SoIAnalytical(sun, earth)
            prop.step = timedelta(seconds=tick * sc["stepC"])
        orb = ccsds.loads(OPM).as_orbit(prop)
        epoch = orb.date
        items, known = [], {}
        kw = {"stop": timedelta(seconds=tick * sc["stop"])}
        if sc.get("start"):
            kw["start"] = epoch + timedelta(seconds=tick * sc["start"])
        status = "complete"
        try:
            for o in orb.iter(**kw):
                t = (o.date - epoch).total_seconds() / tick
                r = float(o.copy(frame="EME2000", form="spherical").r)
                ti = int(round(t))
                if abs(t - ti) > 1e-6:
                    status = f"off-grid date {t}"
                    break
                known[ti] = r < radius
                items.append([ti, "alt" if o.frame.name == "EME2000" else "central" if o.frame.name == "Sun" else o.frame.name])
                if len(items) >= sc.get("cap", 60):
                    status = "cut"
                    break
        except Exception as e:
            status = f"raised {type(e).__name__}: {e}"
        horizon = max(list(known) + [sc["stop"] + sc.get("start", 0)]) + 1
        inside, cur = [], known.get(0, True)
        # the sphere at the epoch is what the orbit setter saw; between yielded points the last observed value is kept
        e0 = float(orb.copy(frame="EME2000", form="spherical").r) < radius
        cur = e0
        for k in range(horizon + 1):
            if k in known:
                cur = known[k]
            inside.append(bool(cur))
        inside[0] = bool(known.get(0, e0))
        # stop was given as a timedelta: it counts from the start of the iteration
        traces.append({"scenario": sc, "status": status, "inside": inside, "stop": sc["stop"] + sc.get("start", 0), "stepC": sc["stepC"], "stepA": sc["stepA"],
                       "start": sc.get("start", 0), "items": items})
    with open(outp, "w") as fh:
        json.dump({"traces": traces}, fh)


if __name__ == "__main__":
    main(sys.argv[1], sys.argv[2])
