"""Replay of CW.tla on the real ClohessyWiltshire propagator and CWHelper (property C16).

The state-transition / thrust-response tables come from the specification (coefficient vectors proven by TLC to solve
Hill's equations); they are evaluated here in floating point and compared with the real propagator."""
import json
import sys
from datetime import timedelta

import numpy as np

from beyond.config import config

config.set("eop", "missing_policy", "pass")

from beyond.dates import Date  # noqa: E402
from beyond.orbits import Orbit  # noqa: E402
from beyond.orbits.man import ImpulsiveMan, ContinuousMan  # noqa: E402
from beyond.propagators.cw import ClohessyWiltshire  # noqa: E402
from beyond.frames.frames import HillFrame  # noqa: E402
from beyond.utils.cwhelper import CWHelper  # noqa: E402
from beyond.constants import Earth  # noqa: E402

EPOCH = Date(2020, 5, 24, 3, 4, 5)
P3 = np.array([[0, 1, 0], [-1, 0, 0], [0, 0, 1]], dtype=float)
P6 = np.zeros((6, 6))
P6[:3, :3] = P3
P6[3:, 3:] = P3
VECS = [np.array([0.3, -0.2, 0.1]), np.array([-0.1, 0.25, 0.05]), np.array([0.02, 0.0, -0.3])]


def ev(u, tau):
    return 0.5 * (u[0] * np.sin(tau) + u[1] * np.cos(tau) + u[2] * tau + u[3] + u[4] * tau * tau)


class Tables:
    def __init__(self, phi, gam):
        self.phi, self.gam = phi, gam

    def Phi(self, n, t, orient):
        tau = n * t
        m = np.array([[ev(self.phi[i][j], tau) * n ** ((i > 2) - (j > 2)) for j in range(6)] for i in range(6)])
        return m if orient == "QSW" else P6 @ m @ P6.T

    def Gam(self, n, t, orient):
        tau = n * t
        m = np.array([[ev(self.gam[i][j], tau) * n ** ((i > 2) - 2) for j in range(3)] for i in range(6)])
        return m if orient == "QSW" else P6 @ m @ P3.T


def close(a, b, n, scale=None, extra=0.0):
    a, b = np.asarray(a, float), np.asarray(b, float)
    sp = max(np.linalg.norm(b[:3]), 1e-3) if scale is None else scale[0]
    sv = max(np.linalg.norm(b[3:]), 1e-6) if scale is None else scale[1]
    # 1e-9 relative + the microsecond rounding of dates (n * 1 us of phase on a state of that size)
    return np.linalg.norm(a[:3] - b[:3]) <= (1e-9 + 2e-6 * n) * sp + extra and np.linalg.norm(a[3:] - b[3:]) <= (1e-9 + 2e-6 * n) * sv + extra


def main(inp, outp):
    with open(inp) as fh:
        job = json.load(fh)
    tab = Tables(job["Phi"], job["Gam"])
    res = {"evaluations": 0, "traces": 0, "clauses": {}, "violations": [], "samples": [], "nontrivial": []}

    def clause(name, ok, key, what, data):
        c = res["clauses"].setdefault(name, {"checked": 0, "failed": 0})
        c["checked"] += 1
        if not ok:
            c["failed"] += 1
            if sum(1 for v in res["violations"] if v["key"] == key) < 4:
                res["violations"].append({"key": key, "what": what, "data": data})

    rng = np.random.default_rng(job["seed"])
    for si, sma in enumerate(job["smas"]):
        # both propagators exist before any chaser orbit is created by the frame name "Hill" (which designates the Hill frame created
        # last): a propagator works in ITS OWN frame, whatever frame object the name resolved to - creation order alternates
        order = ("QSW", "TNW") if si % 2 == 0 else ("TNW", "QSW")
        props = {o_: ClohessyWiltshire(sma, frame=HillFrame(orientation=o_)) for o_ in order}
        # the propagator may also be built from the TARGET orbit (ClohessyWiltshire.from_orbit): the orientation asked for is the one
        # obtained, whatever Hill frames were created before (the two above, in alternating order)
        tgt = Orbit([sma, 0.0, 0.9, 1.0, 0.0, 0.7], EPOCH, "keplerian", "EME2000", "Kepler")
        for oi, o_ in enumerate(order[::-1] + order):
            try:
                pf = ClohessyWiltshire.from_orbit(tgt, orientation=o_, name=f"VfCwTgt{si}x{oi}")
                e = np.zeros(6)
                e[0] = 1.0
                tq = 0.25 * 2 * np.pi / np.sqrt(Earth.mu / sma ** 3)
                dq = EPOCH + timedelta(seconds=tq)
                got = np.asarray(Orbit(e, EPOCH, "cartesian", pf.frame, pf).propagate(dq), float)
                want = tab.Phi(np.sqrt(Earth.mu / sma ** 3), (dq - EPOCH).total_seconds(), o_)[:, 0]
                okf = pf.frame.orientation == o_ and abs(pf.sma - sma) <= 1e-6 * sma and float(np.abs(got - want).max()) <= 1e-6
                msg = f"frame {pf.frame.name}, sma {pf.sma}, unit-state response off by {float(np.abs(got - want).max()):.3g}"
            except Exception as ex:
                okf, msg = False, f"{type(ex).__name__}: {ex}"
            res["evaluations"] += 1
            clause("a propagator built from the target orbit (from_orbit) has the orientation that was asked for and the target's semi-major axis", okf,
                   "cw/from-orbit", f"from_orbit(target a={sma}, orientation={o_}) after Hill frames {list(order)}: {msg}", {"sma": sma, "orientation": o_, "created_before": list(order)})
        for orient in ("QSW", "TNW"):
            prop = props[orient]
            n = prop.n
            n_spec = np.sqrt(Earth.mu / sma ** 3)
            clause("mean motion of the target is sqrt(mu / a^3)", abs(n - n_spec) <= 1e-12 * n_spec, "cw/n", f"n={n} vs {n_spec}", {"sma": sma})
            T = 2 * np.pi / n
            # ---- 1. every entry of the transition matrix and of the thrust response ---------------------------------
            taus = [k * np.pi / 2 for k in job["lattice"]] + list(rng.uniform(-4 * np.pi, 4 * np.pi, job["nrandom"]))
            for tau in taus:
                t = tau / n
                date = EPOCH + timedelta(seconds=t)
                treal = (date - EPOCH).total_seconds()
                data = {"sma": sma, "orientation": orient, "t_s": t, "creation_order": list(order), "how": "both ClohessyWiltshire(sma, HillFrame(orient)) created first, in creation_order; Orbit(unit state, "
                        "EPOCH, cartesian, Hill, prop).propagate(EPOCH + t)"}
                M = np.zeros((6, 6))
                for j in range(6):
                    e = np.zeros(6)
                    e[j] = 1.0
                    M[:, j] = np.asarray(Orbit(e, EPOCH, "cartesian", "Hill", prop).propagate(date), float)
                want = tab.Phi(n, treal, orient)
                res["evaluations"] += 1
                err = np.abs(M - want) / np.maximum(np.abs(want), np.array([[n ** ((i > 2) - (j > 2)) for j in range(6)] for i in range(6)]))
                clause("propagation of unit states equals the Hill solution Phi(t) (all 36 entries)", err.max() <= 1e-9 + 4e-6 * n * max(1.0, abs(tau)), "cw/phi",
                       f"{orient} tau={tau:.4f}: entry {np.unravel_index(err.argmax(), err.shape)} off by {err.max():.3g} (relative)", data)
                G = np.zeros((6, 3))
                o0 = Orbit(np.zeros(6), EPOCH, "cartesian", "Hill", prop)
                prop.orbit = o0
                for j in range(3):
                    a = np.zeros(3)
                    a[j] = 1.0
                    G[:, j] = np.asarray(prop._propagate(date, prop.orbit, a), float)
                wantg = tab.Gam(n, treal, orient)
                errg = np.abs(G - wantg) / np.maximum(np.abs(wantg), np.array([[n ** ((i > 2) - 2) * 1e-3 for j in range(3)] for i in range(6)]))
                clause("constant thrust response equals the Hill solution Gam(t) (all 18 entries)", errg.max() <= 1e-9 + 4e-6 * n * max(1.0, abs(tau)), "cw/gam",
                       f"{orient} tau={tau:.4f}: entry {np.unravel_index(errg.argmax(), errg.shape)} off by {errg.max():.3g} (relative)", data)
                # composition and inverse through re-seeding
                x0 = np.array([-600.0, -1500.0, 200.0, 0.3, 1.1, -0.2])
                a_ = Orbit(x0, EPOCH, "cartesian", "Hill", prop).propagate(date)
                t2 = timedelta(seconds=0.37 * T)
                b_ = Orbit(np.asarray(a_, float), a_.date, "cartesian", "Hill", prop).propagate(a_.date + t2)
                direct = Orbit(x0, EPOCH, "cartesian", "Hill", prop).propagate(date + t2)
                clause("propagation composes: t1 then t2 equals t1 + t2", close(b_, direct, n), "cw/compose", f"{orient} tau={tau:.3f}", data)
                back = Orbit(np.asarray(a_, float), a_.date, "cartesian", "Hill", prop).propagate(EPOCH)
                clause("backwards propagation is the inverse", close(back, x0, n), "cw/inverse", f"{orient} tau={tau:.3f}", data)
            # ---- 2. maneuver sequencing --------------------------------------------------------------------------------
            unit = T / 8
            x0 = np.array([-600.0, -1500.0, 200.0, 0.3, 1.1, -0.2])
            for ti, tl in enumerate(job["timelines"]):
                mans = []
                for m in tl["mans"]:
                    d = EPOCH + timedelta(seconds=m["t"] * unit)
                    if m["kind"] == "imp":
                        mans.append(ImpulsiveMan(d, VECS[m["v"] - 1]))
                    else:
                        # the stop date is the grid date itself (no second rounding), so that timelines stay chronological
                        stop = EPOCH + timedelta(seconds=(m["t"] + m["dur"]) * unit)
                        # the same burn described by its start, its middle or its end (date_pos), in turn
                        pos = ("start", "median", "stop")[(ti + len(mans)) % 3]
                        anchor = {"start": d, "median": d + (stop - d) / 2, "stop": stop}[pos]
                        mans.append(ContinuousMan(anchor, stop - d, accel=VECS[m["v"] - 1] * 1e-3, date_pos=pos))
                orb = Orbit(x0, EPOCH, "cartesian", "Hill", prop)
                orb.maneuvers = mans
                qd = EPOCH + timedelta(seconds=tl["query"] * unit)
                data = {"sma": sma, "orientation": orient, "timeline": tl, "grid_unit_s": unit}
                try:
                    got = np.asarray(orb.propagate(qd), float)
                except Exception as e:
                    clause("propagation through maneuvers completes", False, "cw/man-raises", f"{type(e).__name__}: {e}", data)
                    continue
                x = x0.copy()
                for seg in tl["plan"]:
                    if seg[0] == "coast":
                        dt = round(seg[1] * unit * 1e6) / 1e6
                        x = tab.Phi(n, seg[1] * unit, orient) @ x
                    elif seg[0] == "kick":
                        x = x.copy()
                        x[3:] += VECS[seg[1] - 1]
                    else:
                        x = tab.Phi(n, seg[1] * unit, orient) @ x + tab.Gam(n, seg[1] * unit, orient) @ (VECS[seg[2] - 1] * 1e-3)
                res["evaluations"] += 1
                res["traces"] += 1
                kinds = tuple(m["kind"] for m in tl["mans"])
                clause("maneuvers are sequenced per contract: each impulse exactly once iff date >= its date, burns over [start, min(date, stop))",
                       close(got, x, n, extra=2e-6 * (np.linalg.norm(x[3:]) + 1.0) * 8), "cw/sequencing",
                       f"{orient} mans {tl['mans']} query {tl['query']}: got {got} expected {x}", data)
                # the same request repeated through the iterator of the same (initialised) propagator: propagation is pure
                try:
                    rep = [np.asarray(o, float) for o in orb.iter(dates=[qd, qd, qd])]
                    okrep = all(close(g, x, n, extra=2e-6 * (np.linalg.norm(x[3:]) + 1.0) * 8) for g in rep)
                except Exception as e:
                    okrep = False
                    rep = f"{type(e).__name__}: {e}"
                clause("repeating the request on the same initialised propagator gives the same state (each impulse still exactly once)", okrep,
                       "cw/sequencing-repeat", f"{orient} mans {tl['mans']} query {tl['query']}: iter(dates=[q,q,q]) gave {rep} expected {x}", data)
                res["nontrivial"].append(json.dumps([orient, kinds, tl["query"] < 0]))
            # ---- 3. rendezvous helper: announced displacements -------------------------------------------------------------
            h = CWHelper(prop)
            rad, tan = (0, 1) if orient == "QSW" else (1, 0)
            sgn_r = 1.0 if orient == "QSW" else -1.0      # radial axis is +x in QSW, -y in TNW (x_TNW = P x_QSW)
            for R, y0 in ((600.0, -1500.0), (-250.0, 400.0)):
                co = h.coelliptic(EPOCH, -R, y0)
                later = co.propagate(EPOCH + timedelta(seconds=0.3 * T))
                qs = P6.T @ np.asarray(later, float) if orient == "TNW" else np.asarray(later, float)
                res["evaluations"] += 1
                clause("coelliptic orbit keeps its radial distance and drifts at 3/2 n r", abs(qs[0] + R) <= 1e-9 * abs(R) and
                       abs(qs[1] - (y0 + 1.5 * n * R * 0.3 * T)) <= 1e-8 * abs(R) * 10 and abs(qs[3]) <= 1e-12 * abs(R) * n + 1e-15,
                       "cw/helper-coelliptic", f"{orient} R={R}: {qs}", {"orientation": orient, "R": R})
                for cont in (False, True):
                    o = h.coelliptic(EPOCH, -R, y0)
                    start = EPOCH + timedelta(seconds=60)
                    o.maneuvers = h.hohmann(R, start, continuous=cont)
                    end = start + (h.period if cont else h.period / 2)
                    at_start = o.propagate(start)
                    qstart = P6.T @ np.asarray(at_start, float) if orient == "TNW" else np.asarray(at_start, float)
                    fin = o.propagate(end + timedelta(seconds=1e-3))
                    q = P6.T @ np.asarray(fin, float) if orient == "TNW" else np.asarray(fin, float)
                    res["evaluations"] += 1
                    okh = abs(q[0]) <= 1e-6 * abs(R) and abs((q[1] - qstart[1]) - h.hohmann_distance(R, continuous=cont)) <= 2e-6 * abs(R) * 10 \
                        and np.linalg.norm(q[3:]) <= 1e-6 * abs(R) * n
                    okd = abs(h.hohmann_distance(1.0, continuous=cont) - (3 * np.pi / 2 if cont else 3 * np.pi / 4)) <= 1e-12
                    clause("Hohmann helper: covers the radial distance, moves 3pi/4 (3pi/2) x radial along track, ends at rest", okh and okd,
                           "cw/helper-hohmann", f"{orient} R={R} continuous={cont}: final {q}, start y {qstart[1]}", {"orientation": orient, "R": R, "continuous": cont})
            for Dst in (70.0, -40.0):
                for name in ("eccentric", "eccentric-cont", "tangential", "vbar"):
                    o = Orbit(prop._mat6 @ np.array([0, -100.0, 0, 0, 0, 0]), EPOCH, "cartesian", "Hill", prop)
                    start = EPOCH + timedelta(seconds=60)
                    if name == "eccentric":
                        o.maneuvers = list(h.eccentric_boost(Dst, start))
                        end = start + h.period / 2
                    elif name == "eccentric-cont":
                        o.maneuvers = list(h.eccentric_boost(Dst, start, continuous=True))
                        end = start + h.period
                    elif name == "tangential":
                        o.maneuvers = list(h.tangential_boost(Dst, start))
                        end = start + h.period
                    else:
                        o.maneuvers = list(h.vbar_linear(Dst, start, 0.05))
                        end = start + timedelta(seconds=abs(Dst / 0.05))
                    fin = o.propagate(end + timedelta(seconds=1e-3))
                    q = P6.T @ np.asarray(fin, float) if orient == "TNW" else np.asarray(fin, float)
                    res["evaluations"] += 1
                    clause("boost / V-bar helpers move the chaser by the announced along-track distance, no radial offset, at rest",
                           abs(q[0]) <= 1e-5 * abs(Dst) and abs(q[1] - (-100.0 + Dst)) <= 1e-5 * abs(Dst) and np.linalg.norm(q[3:]) <= 1e-5 * abs(Dst) * n + 1e-9,
                           f"cw/helper-{name}", f"{orient} {name} D={Dst}: final {q}", {"orientation": orient, "helper": name, "D": Dst})
                    if name == "vbar":
                        midd = o.propagate(start + timedelta(seconds=abs(Dst / 0.05) / 2))
                        qm = P6.T @ np.asarray(midd, float) if orient == "TNW" else np.asarray(midd, float)
                        clause("linear V-bar approach: straight line at constant speed", abs(qm[0]) <= 1e-6 * abs(Dst) and abs(qm[1] - (-100 + Dst / 2)) <= 1e-6 * abs(Dst)
                               and abs(qm[4] - np.sign(Dst) * 0.05) <= 1e-9, "cw/helper-vbar", f"{orient} mid {qm}", {"orientation": orient, "D": Dst})
    # ---- physical meaning: the Hill state is the relative motion of two Keplerian orbits about a circular target, to second order in
    #      the separation (axes: Q radial outwards, S along the velocity, W along the angular momentum; TNW = (S, -Q, W))
    from beyond.orbits import Orbit as _Orbit
    from beyond.constants import Earth as _Earth
    for sma in job["smas"][:2]:
        nn = np.sqrt(_Earth.mu / sma ** 3)
        tgt = _Orbit([sma, 0.0, 0.9, 1.0, 0.0, 0.3], EPOCH, "keplerian", "EME2000", "Kepler")
        for orient in ("QSW", "TNW"):
            prop = ClohessyWiltshire(sma, frame=HillFrame(orientation=orient))
            for dq in ([120.0, -300.0, 80.0, 0.05, -0.1, 0.07], [-40.0, 500.0, 0.0, 0.0, 0.02, 0.1]):
                dq = np.array(dq)
                tc = np.asarray(tgt.copy(form="cartesian"), float)

                def axes(c):
                    q_ = c[:3] / np.linalg.norm(c[:3])
                    w_ = np.cross(c[:3], c[3:])
                    w_ /= np.linalg.norm(w_)
                    return np.array([q_, np.cross(w_, q_), w_])          # rows Q, S, W
                Q0 = axes(tc)
                om = np.array([0, 0, nn])
                # chaser inertial state from the Hill state (QSW components, rotating frame)
                rc = tc[:3] + Q0.T @ dq[:3]
                vc = tc[3:] + Q0.T @ (dq[3:] + np.cross(om, dq[:3]))
                chaser = _Orbit(list(rc) + list(vc), EPOCH, "cartesian", "EME2000", "Kepler")
                hill0 = dq if orient == "QSW" else prop._mat6 @ dq
                for frac in (0.2, 0.55, 1.3):
                    t = frac * 2 * np.pi / nn
                    d = EPOCH + timedelta(seconds=t)
                    got = np.asarray(_Orbit(hill0, EPOCH, "cartesian", "Hill", prop).propagate(d), float)
                    t1 = np.asarray(tgt.propagate(d).copy(form="cartesian"), float)
                    c1 = np.asarray(chaser.propagate(d).copy(form="cartesian"), float)
                    Q1 = axes(t1)
                    rel = Q1 @ (c1[:3] - t1[:3])
                    relv = Q1 @ (c1[3:] - t1[3:]) - np.cross(om, rel)
                    want = np.concatenate([rel, relv])
                    if orient == "TNW":
                        want = prop._mat6 @ want
                    sep = max(np.linalg.norm(dq[:3]), np.linalg.norm(rel))
                    bound = 6 * sep ** 2 / sma * (1 + nn * t) + 1e-6
                    err = float(np.linalg.norm(got[:3] - want[:3]))
                    res["evaluations"] += 1
                    clause("the Hill state is the relative motion of two Keplerian orbits about a circular target, to second order in the separation",
                           err <= bound and float(np.linalg.norm(got[3:] - want[3:])) <= bound * nn * 3 + 1e-9, "cw/physical",
                           f"{orient} sma {sma:.0f} after {frac} orbit: {err:.4g} m from the Keplerian relative motion (bound {bound:.3g} m)",
                           {"sma": sma, "orientation": orient, "hill_state_qsw": dq.tolist(), "orbits": frac})
    res["nontrivial"] = sorted(set(res["nontrivial"]))
    with open(outp, "w") as fh:
        json.dump(res, fh)


if __name__ == "__main__":
    main(sys.argv[1], sys.argv[2])
