"""Replay Registry.tla behaviours on the real library: station / orbit-frame creations interleaved with
conversions.  The registries are process-global, so every behaviour runs in a forked child."""
import json
import os
import sys

import numpy as np

from beyond.config import config

config.set("eop", "missing_policy", "pass")

from beyond.dates import Date  # noqa: E402
from beyond.frames import frames as fr  # noqa: E402
from beyond.frames.stations import create_station  # noqa: E402
from beyond.orbits import StateVector  # noqa: E402

ORIENT = ["ITRF", "PEF", "TOD", "MOD", "EME2000", "G50", "TEME", "TIRF", "CIRF", "GCRF"]
DATE = Date(2016, 5, 4, 12, 30, 17)
X = [6524834.0, 686297.0, 2650.0 * 1000, -4901.0, 5533.0, -1976.0]
REF = [7000e3, -1200e3, 300e3, 1000.0, 7000.0, 2500.0]
STATIONS = [(43.604482, 1.443962, 172.0), (-33.9, 151.2, 20.0), (5.25, -52.8, 12.0)]
TOL = 1e-12
REPO_DIR = ["/repo"]
JPL_LOADED = [False]


KEEP = ("EME2000", "ITRF", "GCRF", "TOD")


def observe(frames, roundtrip=True):
    out = {}
    errs = []
    names = [n for n in frames if n in KEEP or n not in ORIENT]
    for a in names:
        sv = StateVector(X, DATE, "cartesian", frames[a])
        for b in names:
            if a == b:
                continue
            try:
                r = sv.copy(frame=frames[b])
                out[f"{a}>{b}"] = [float(v) for v in np.asarray(r)]
                if not roundtrip:
                    continue
                back = r.copy(frame=frames[a])
                d = np.asarray(back) - np.asarray(sv)
                # float resolution of the coordinates in the far frame (a state seen from Mars is 2e11 m away: 4e-5 m)
                mag_p, mag_v = float(np.linalg.norm(np.asarray(r)[:3])), float(np.linalg.norm(np.asarray(r)[3:]))
                if JPL_LOADED[0]:
                    # chains may run through heliocentric offsets (3e11 m, 5e4 m/s) even when both ends are near the Earth
                    mag_p, mag_v = max(mag_p, 3e11), max(mag_v, 5e4)
                if np.linalg.norm(d[:3]) > 1e-5 + 2e-15 * mag_p or np.linalg.norm(d[3:]) > 1e-8 + 2e-15 * mag_v:
                    errs.append({"pair": f"{a}>{b}", "what": "round trip a->b->a not identity",
                                 "dpos": float(np.linalg.norm(d[:3])), "dvel": float(np.linalg.norm(d[3:]))})
            except Exception as e:  # unconnected / unknown conversion: a contract violation here
                out[f"{a}>{b}"] = None
                errs.append({"pair": f"{a}>{b}", "what": f"conversion raised {type(e).__name__}: {e}"})
    return out, errs


def differs(u, v):
    if u is None or v is None:
        return u is not v
    u = np.asarray(u)
    v = np.asarray(v)
    scale_p = max(np.linalg.norm(u[:3]), 1.0)
    scale_v = max(np.linalg.norm(u[3:]), 1e-3)
    return np.linalg.norm(u[:3] - v[:3]) > TOL * scale_p or np.linalg.norm(u[3:] - v[3:]) > TOL * scale_v


def run_behaviour(acts, baseline, tag, short=None):
    frames = {n: fr.get_frame(n) for n in ORIENT}
    ids = list(ORIENT)  # frame id k (1-based) -> name
    memo = dict(baseline)
    viol = []
    nobs = 0
    nst = 0

    def check_obs(step, roundtrip=False):
        nonlocal nobs
        obs, errs = observe(frames, roundtrip)
        nobs += len(obs)
        for e in errs:
            viol.append({"key": "registry/new-frame-not-convertible" if "raised" in e["what"] else "registry/round-trip",
                         "what": f"{e['pair']}: {e['what']} after {acts[:step]}", "data": {"acts": acts[:step], **e}})
        for k, v in obs.items():
            if k in memo:
                if differs(memo[k], v):
                    viol.append({"key": "registry/existing-conversion-changed",
                                 "what": f"conversion {k} changed after creations {acts[:step]}",
                                 "data": {"acts": acts[:step], "pair": k, "before": memo[k], "after": v}})
            else:
                memo[k] = v

    for step, act in enumerate(acts, start=1):
        if act["op"] == "observe":
            check_obs(step)
            continue
        if act["op"] == "loadjpl":
            from pathlib import Path
            d_ = Path(REPO_DIR[0]) / "tests" / "data" / "jpl"
            config.set("env", "jpl", "files", [str(d_ / "de403_2000-2020.bsp"), str(d_ / "pck00010.tpc"), str(d_ / "gm_de431.tpc")])
            from beyond.env import jpl
            if sum(map(ord, tag)) % 2:
                # the other door: frames of the kernel created on demand, the first time an unknown frame name is asked for
                config.set("env", "jpl", "dynamic_frames", True)
                fr.get_frame("Mars")
            else:
                jpl.create_frames()
            JPL_LOADED[0] = True
            for nm_ in ("Mars", "SolarSystemBarycenter"):
                frames[nm_] = fr.get_frame(nm_)
                ids.append(nm_)
            continue
        # frame names are user input: long unique names, or one-character names (every behaviour runs in its own process)
        ncreated = sum(1 for n_ in ids if n_ not in ORIENT and n_ not in ("Mars", "SolarSystemBarycenter"))
        name = f"{tag}n{len(ids) + 1}" if short is None else short[ncreated]
        if act["op"] == "station":
            f = create_station(name, STATIONS[nst % len(STATIONS)], parent_frame=frames[ids[act["parent"] - 1]])
            nst += 1
        elif act["op"] == "station-eq":
            f = create_station(name, STATIONS[nst % len(STATIONS)], parent_frame=frames[ids[act["parent"] - 1]], equatorial=True)
            nst += 1
        elif act["op"] == "user":
            # a user-defined frame: existing axes about an existing centre, under a name of its own
            f = fr.Frame(name, frames[ids[act["parent"] - 1]].orientation, frames[ids[act["ref"] - 1]].center)
        else:
            rframe = frames[ids[act["ref"] - 1]]
            ref = StateVector(REF, DATE, "cartesian", fr.EME2000).copy(frame=rframe)
            lof = None if act["lof"] == "None" else act["lof"]
            f = fr.orbit2frame(name, ref, orientation=lof, parent=frames[ids[act["parent"] - 1]])
        frames[name] = f
        ids.append(name)
        if fr.get_frame(name) is not f:
            viol.append({"key": "registry/get-frame", "what": f"get_frame({name}) is not the created frame",
                         "data": {"acts": acts[:step]}})
    check_obs(len(acts), True)
    return {"violations": viol, "conversions": nobs}


def main(inp, outp):
    with open(inp) as fh:
        job = json.load(fh)
    REPO_DIR[0] = job.get("repo", "/repo")
    base_frames = {n: fr.get_frame(n) for n in ORIENT}
    baseline, errs = observe(base_frames)
    total = {"violations": [{"key": "registry/builtin", "what": str(e), "data": e} for e in errs],
             "conversions": len(baseline), "behaviours": 0}
    for i, acts in enumerate(job["behaviours"]):
        r, w = os.pipe()
        pid = os.fork()
        if pid == 0:
            os.close(r)
            short = [None, "TCeWq", "EMIsx", "o2RGj"][i % 4]
            try:
                res = run_behaviour(acts, baseline, f"b{i}", short)
            except (ValueError, KeyError, AttributeError, RuntimeError) as e:
                # creating a frame / expressing the reference orbit in an existing frame must work for every history
                res = {"violations": [{"key": "registry/creation-raises",
                                       "what": f"{type(e).__name__}: {e} during behaviour {acts} (frame names {short or 'long'})",
                                       "data": {"acts": acts, "short_names": short}}], "conversions": 0}
            except Exception as e:
                import traceback
                res = {"crash": traceback.format_exc(), "violations": [], "conversions": 0}
            with os.fdopen(w, "w") as fh:
                json.dump(res, fh)
            os._exit(0)
        os.close(w)
        with os.fdopen(r) as fh:
            res = json.load(fh)
        os.waitpid(pid, 0)
        if "crash" in res:
            print(res["crash"], file=sys.stderr)
            sys.exit(3)
        total["behaviours"] += 1
        total["conversions"] += res["conversions"]
        total["violations"] += res["violations"][:5]
    with open(outp, "w") as fh:
        json.dump(total, fh)


if __name__ == "__main__":
    main(sys.argv[1], sys.argv[2])
