"""Run the REAL Speaker machinery on the specification's microsecond grid with pattern listeners (property C10)."""
import json
import sys
from datetime import timedelta

from beyond.config import config

config.set("eop", "missing_policy", "pass")

from beyond.dates import Date  # noqa: E402
from beyond.orbits import Orbit, Ephem  # noqa: E402
from beyond.propagators.listeners import Listener, Event  # noqa: E402

EPOCH = Date(2018, 5, 4, 13, 20, 47)
KEP = [7000e3, 0.01, 0.9, 1.0, 2.0, 0.5]
US = timedelta(microseconds=1)


class PatternListener(Listener):
    def __init__(self, idx, init, flips):
        self.idx = idx
        self.init = init
        self.flips = sorted(flips)

    def tick(self, orb):
        return round((orb.date - EPOCH).total_seconds() * 1e6)

    def g(self, t):
        n = sum(1 for f in self.flips if f <= t)
        return self.init if n % 2 == 0 else -self.init

    def __call__(self, orb):
        return float(self.g(self.tick(orb))) * 0.37

    def info(self, orb):
        return Event(self, "up" if self.g(self.tick(orb)) > 0 else "down")


def stream(iterator):
    out = []
    for o in iterator:
        t = round((o.date - EPOCH).total_seconds() * 1e6)
        ev = getattr(o, "event", None)
        if ev is None:
            out.append([t, 0, 0])
        else:
            out.append([t, ev.listener.idx, 1 if ev.info == "up" else -1])
    return out


def main(inp, outp):
    with open(inp) as fh:
        job = json.load(fh)
    base = Orbit(KEP, EPOCH, "keplerian", "EME2000", "Kepler")
    eph_nodes = [EPOCH + timedelta(seconds=x) for x in range(-5, 6)]
    runs = []
    for case in job["cases"]:
        samples = case["samples"]
        listeners = [PatternListener(i + 1, p["init"], p["flips"]) for i, p in enumerate(case["pat"])]
        passes = case.get("passes", 1)
        for mode in job["modes"]:
            if mode == "analytical-dates":
                src = Orbit(KEP, EPOCH, "keplerian", "EME2000", "Kepler")
                kw = {"dates": [EPOCH + US * t for t in samples]}
            elif mode == "analytical-range":
                src = Orbit(KEP, EPOCH, "keplerian", "EME2000", "Kepler")
                step = samples[1] - samples[0]
                if any(b - a != step for a, b in zip(samples, samples[1:])):
                    continue
                kw = {"start": EPOCH + US * samples[0], "stop": EPOCH + US * samples[-1], "step": US * step}
            elif mode == "ephem-dates":
                src = Ephem([base.propagate(d) for d in eph_nodes])
                kw = {"dates": [EPOCH + US * t for t in samples]}
            else:  # ephem-range
                src = Ephem([base.propagate(d) for d in eph_nodes])
                step = samples[1] - samples[0]
                if any(b - a != step for a, b in zip(samples, samples[1:])):
                    continue
                kw = {"start": EPOCH + US * samples[0], "stop": EPOCH + US * samples[-1], "step": US * step}
            for p in range(passes):  # the SAME listener objects are re-used by every pass
                out = stream(src.iter(listeners=listeners, **kw))
                runs.append({"pat": case["pat"], "out": out, "mode": mode, "pass": p + 1, "model_out": case.get("out"),
                             "samples": samples})
    with open(outp, "w") as fh:
        json.dump({"runs": runs}, fh)


if __name__ == "__main__":
    main(sys.argv[1], sys.argv[2])
