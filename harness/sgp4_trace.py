"""Record traces of the real Sgp4 wrapper (property C07): the calls it makes to the reference library are observed by
wrapping sgp4.io.twoline2rv (as imported by the wrapper module) and the returned record's propagate.  Also the law between
the two code paths of the library: native Sgp4Beta against the wrapped reference."""
import json
import os
import sys
from datetime import timedelta

import numpy as np

from beyond.config import config


def limbs(x_mm):
    if not np.isfinite(x_mm):
        return [-1, -1]          # the reference library reports a decayed / invalid orbit with non-finite values
    n = int(round(x_mm))
    return [n // 1000000, n % 1000000]


def main(inp, outp):
    with open(inp) as fh:
        job = json.load(fh)
    config.update({"eop": {"folder": os.path.join(job["repo"], "tests", "data", "pole"), "type": "all", "missing_policy": "pass"}})
    from beyond.dates import Date
    from beyond.io.tle import Tle
    from beyond.propagators import sgp4 as wrapper_mod
    from beyond.propagators.sgp4beta import Sgp4Beta

    log = []
    real_twoline2rv = wrapper_mod.twoline2rv

    class Rec:
        def __init__(self, sat):
            self._sat = sat

        def propagate(self, *args):
            p, v = self._sat.propagate(*args)
            log.append({"ev": "libcall", "tuple": list(args), "p": list(p), "v": list(v)})
            return p, v

        def __getattr__(self, k):
            return getattr(self._sat, k)

    def spy(l1, l2, grav):
        log.append({"ev": "init", "l1": l1, "l2": l2})
        return Rec(real_twoline2rv(l1, l2, grav))
    wrapper_mod.twoline2rv = spy

    traces = []
    laws = {"checked": 0, "failed": 0, "worst_cm": 0.0, "examples": []}
    laws2 = {"checked": 0, "failed": 0, "examples": []}
    older = None      # (native propagator, its TLE lines) initialised for an earlier catalogue entry and still alive
    for case in job["cases"]:
        text = case["l1"] + "\n" + case["l2"]
        items = []
        try:
            orb = Tle(text).orbit()
        except Exception as e:
            traces.append({"id": case["id"], "items": [], "error": f"{type(e).__name__}: {e}"})
            continue
        for k, (off_s, label) in enumerate(case["queries"]):
            date = orb.date + timedelta(seconds=off_s)
            if label != "UTC":
                date = date.change_scale(label)
            del log[:]
            try:
                res = orb.propagate(date)
            except Exception as e:
                items.append({"ev": "call", "error": f"{type(e).__name__}: {e}", "inst": [0, 0, 0], "tuple": [], "out": [], "ret": [], "retdate": []})
                continue
            # the property's first sentence, directly: the state returned is the reference library's state for THIS text at this
            # instant (model built here, from the lines, outside the wrapper), within the library's time resolution
            try:
                from sgp4.propagation import sgp4 as _ref_model
                _sat = real_twoline2rv(case["l1"], case["l2"], wrapper_mod.wgs72)
                # time since epoch as the reference theory counts it: difference of UTC calendar readings (a leap second between
                # the epoch and the date is not elapsed time for SGP4)
                _u, _e = date.change_scale("UTC"), orb.date.change_scale("UTC")
                _ts = ((_u.d - _e.d) * 86400.0 + (_u.s - _e.s)) / 60.0
                _rp, _rv = _ref_model(_sat, _ts)
                if not _sat.error and np.all(np.isfinite(np.asarray(_rp, float))):
                    _got = np.asarray(res, float)
                    _dp = float(np.linalg.norm(_got[:3] - np.asarray(_rp, float) * 1000.0))
                    _vm = float(np.linalg.norm(np.asarray(_rv, float) * 1000.0))
                    laws2["checked"] += 1
                    if _dp > _vm * 5e-5 + 1e-3:
                        laws2["failed"] += 1
                        if len(laws2["examples"]) < 4:
                            laws2["examples"].append({"tle": text, "offset_s": off_s, "label": label, "difference_m": _dp, "allowed_m": _vm * 5e-5 + 1e-3})
            except Exception:
                pass
            for ev in log:
                if ev["ev"] == "init":
                    items.append({"ev": "init", "l1": ev["l1"], "l2": ev["l2"], "want1": case["l1"], "want2": case["l2"]})
            calls = [ev for ev in log if ev["ev"] == "libcall"]
            if len(calls) != 1:
                items.append({"ev": "call", "error": f"{len(calls)} library calls", "inst": [0, 0, 0], "tuple": [], "out": [], "ret": [], "retdate": []})
                continue
            c = calls[0]
            tup = c["tuple"]
            sec = float(tup[5])
            it = {"ev": "call", "label": label,
                  "inst": [date._d, int(date._s), int(round((date._s - int(date._s)) * 1e6))],
                  "tuple": [int(tup[0]), int(tup[1]), int(tup[2]), int(tup[3]), int(tup[4]), int(sec), int(round((sec - int(sec)) * 1e6))],
                  "out": [limbs(x * 1e6) for x in c["p"]] + [limbs(x * 1e6) for x in c["v"]],
                  "ret": [limbs(float(x) * 1e3) for x in res],
                  "retdate": [res.date._d, int(res.date._s), int(round((res.date._s - int(res.date._s)) * 1e6))],
                  "frame": res.frame.name, "form": res.form.name}
            if it["inst"][2] == 1000000:
                it["inst"] = [it["inst"][0], it["inst"][1] + 1, 0]
            if it["retdate"][2] == 1000000:
                it["retdate"] = [it["retdate"][0], it["retdate"][1] + 1, 0]
            if it["frame"] != "TEME" or it["form"] != "cartesian":
                it["error"] = f"result in {it['frame']} / {it['form']}"
            items.append(it)
            # law between the two code paths: native model vs reference where the reference uses its full near-Earth model
            period_min = 2 * np.pi / (float(orb.copy(form="tle")[5]) * 60.0) if True else 0
            tl = orb.copy(form="tle")
            n_rad_min = float(tl[5]) * 60
            a_er = (0.0743669161 / n_rad_min) ** (2.0 / 3.0)
            perigee_km = (a_er * (1 - float(tl[2])) - 1.0) * 6378.135
            if case.get("beta") and period_min < 225 and perigee_km >= 220 and label == "UTC":
                try:
                    # the same instant for both models: the native model takes the time since epoch; the reference model is
                    # called with that very time since epoch (its calendar interface goes through float Julian dates, whose
                    # 40 us resolution alone is worth 30 cm at orbital speed)
                    from sgp4.propagation import sgp4 as ref_model
                    nat = Sgp4Beta()
                    nat.orbit = Tle(text).orbit()
                    b = np.asarray(nat.propagate(timedelta(seconds=off_s)), float)
                    refsat = real_twoline2rv(case["l1"], case["l2"], wrapper_mod.wgs72)
                    rp, rv = ref_model(refsat, off_s / 60.0)
                    if refsat.error or not np.all(np.isfinite(np.asarray(rp, float))):
                        continue          # the reference itself reports a decayed / invalid orbit at that date: nothing to compare with
                    d_cm = float(np.linalg.norm(b[:3] - np.asarray(rp, float) * 1000.0)) * 100
                    if not np.isfinite(d_cm):
                        d_cm = 1e30       # the native model returns NaN where the reference gives a state
                    which = text
                    # several propagators alive at once: the one initialised EARLIER must still give its own orbit
                    if older is not None and older[1] != (case["l1"], case["l2"]):
                        ob = np.asarray(older[0].propagate(timedelta(seconds=off_s)), float)
                        osat = real_twoline2rv(older[1][0], older[1][1], wrapper_mod.wgs72)
                        orp, _ = ref_model(osat, off_s / 60.0)
                        d_old = float(np.linalg.norm(ob[:3] - np.asarray(orp, float) * 1000.0)) * 100
                        if osat.error or not np.all(np.isfinite(np.asarray(orp, float))):
                            d_old = 0.0
                        elif not np.isfinite(d_old):
                            d_old = 1e30
                        if d_old > d_cm:
                            d_cm, which = d_old, "\n".join(older[1]) + "   (propagator initialised before the current entry's)"
                    if k == len(case["queries"]) - 1:
                        older = (nat, (case["l1"], case["l2"]))
                    laws["checked"] += 1
                    laws["worst_cm"] = max(laws["worst_cm"], d_cm)
                    if d_cm > float(os.environ.get("VERIF_SGP4_CM", "1.0")):
                        laws["failed"] += 1
                        if len(laws["examples"]) < int(os.environ.get("VERIF_SGP4_EX", "4")):
                            laws["examples"].append({"tle": which, "offset_s": off_s, "difference_cm": d_cm, "perigee_km": perigee_km, "period_min": period_min})
                except Exception as e:
                    laws["checked"] += 1
                    laws["failed"] += 1
                    if len(laws["examples"]) < int(os.environ.get("VERIF_SGP4_EX", "4")):
                        laws["examples"].append({"tle": text, "offset_s": off_s, "error": f"{type(e).__name__}: {e}"})
        traces.append({"id": case["id"], "items": items})
    with open(outp, "w") as fh:
        json.dump({"traces": traces, "laws": laws, "laws2": laws2}, fh)


if __name__ == "__main__":
    main(sys.argv[1], sys.argv[2])
