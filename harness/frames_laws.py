"""Law-driven replay of frame walks on the built-in, topocentric and orbit-attached frames (property C02)."""
import json
import os
import sys
import warnings

import numpy as np

from beyond.config import config


def setup(job):
    mode = job["eop"]
    if mode == "real":
        config.update({"eop": {"folder": os.path.join(job["repo"], "tests", "data", "pole"), "type": "all", "missing_policy": "error"}})
    elif mode == "zero":
        config.update({"eop": {"missing_policy": "pass", "folder": "/nonexistent"}})
    else:
        config.update({"eop": {"missing_policy": "warning", "folder": "/nonexistent"}})
        import logging
        logging.getLogger("beyond.dates.eop").setLevel(logging.ERROR)


def main(inp, outp):
    with open(inp) as fh:
        job = json.load(fh)
    setup(job)
    from datetime import timedelta
    from beyond.dates import Date
    from beyond.orbits import StateVector, Orbit
    from beyond.frames import frames as fr
    from beyond.frames.stations import create_station

    res = {"evaluations": 0, "traces": 0, "clauses": {}, "violations": [], "samples": [], "nontrivial": []}

    def clause(name, ok, key, what, data):
        c = res["clauses"].setdefault(name, {"checked": 0, "failed": 0})
        c["checked"] += 1
        if not ok:
            c["failed"] += 1
            if sum(1 for v in res["violations"] if v["key"] == key) < 4:
                res["violations"].append({"key": key, "what": what, "data": data})

    station = create_station("VfSta", (43.604482, 1.443962, 172.0))
    _others = {}

    def others():
        """the Moon frame of the analytical solar system and two Earth-Moon Lagrange frames (synodic axes / EME2000 axes)"""
        if not _others:
            from beyond.env import solarsystem as sol
            from beyond.frames.lagrange import lagrange
            from beyond.frames.orient import EME2000 as O_EME
            f_e, f_m = sol.get_frame("Earth"), sol.get_frame("Moon")
            _others["Moon"] = f_m
            _others["EML1"] = lagrange(f_e, f_m, 1, name="VfEML1")
            _others["EML4e"] = lagrange(f_e, f_m, 4, name="VfEML4e", orientation=O_EME)
        return _others
    kinds = set()
    for di, dspec in enumerate(job["dates"]):
        date = Date(*dspec)
        ref = Orbit([7.3e6, 0.03, 1.1, 0.4, 1.2, 2.1], date, "keplerian", "EME2000", "Kepler")
        lofs = {"LofN": fr.orbit2frame(f"VfLofN{di}", ref, None, exists_warning=False),
                "LofQ": fr.orbit2frame(f"VfLofQ{di}", ref, "QSW", exists_warning=False),
                "LofT": fr.orbit2frame(f"VfLofT{di}", ref, "TNW", parent=fr.MOD, exists_warning=False)}
        # a frame attached to a plain StateVector (no propagator) that the user holds in ANOTHER frame than the parent: a supported
        # reference (hasattr(..., "propagate") branches of the library); the user's object must be left as it is
        sref = ref.copy(frame="TEME", form="cartesian").as_statevector()
        sref_snap = (np.asarray(sref, float).copy(), sref.frame.name, sref.form.name)
        lofs["LofS"] = fr.orbit2frame(f"VfLofS{di}", sref, "QSW", exists_warning=False)

        def F(name):
            if name == "Station":
                return station
            if name in ("Moon", "EML1", "EML4e"):
                return others()[name]
            if name in lofs:
                return lofs[name]
            return fr.get_frame(name)
        x0 = np.array([6524834.0, 686297.0, 2650000.0, -4901.0, 5533.0, -1976.0]) * (1.0 + 0.01 * di)
        for walk in job["walks"]:
            data = {"walk": walk, "date": dspec, "eop": job["eop"],
                    "how": "StateVector(x0, date, cartesian, walk[0]).copy(frame=walk[1])..."}
            try:
                frames = [F(w) for w in walk]
                sv = StateVector(x0, date, "cartesian", frames[0])
                cur = sv
                for f in frames[1:]:
                    cur = cur.copy(frame=f)
                direct = sv.copy(frame=frames[-1])
                back = direct.copy(frame=frames[0])
            except Exception as e:
                clause("conversion between connected frames succeeds", False, "frames/raises", f"{walk} at {dspec}: {type(e).__name__}: {e}", data)
                continue
            res["evaluations"] += 1
            res["traces"] += 1
            kinds.add((walk[0], walk[-1], len(walk)))
            a, b = np.asarray(cur, float), np.asarray(direct, float)
            dp, dv = np.linalg.norm(a[:3] - b[:3]), np.linalg.norm(a[3:] - b[3:])
            clause("A->B->C equals A->C (1e-6 m, 1e-9 m/s)", dp <= 1e-6 and dv <= 1e-9, "frames/path",
                   f"{walk} at {dspec} [{job['eop']}]: differs from direct by {dp:.3g} m {dv:.3g} m/s", data)
            c = np.asarray(back, float)
            dp, dv = np.linalg.norm(c[:3] - x0[:3]), np.linalg.norm(c[3:] - x0[3:])
            clause("A->B->A is the identity (1e-6 m, 1e-9 m/s)", dp <= 1e-6 and dv <= 1e-9, "frames/inverse",
                   f"{walk[0]}->{walk[-1]}->{walk[0]} at {dspec} [{job['eop']}]: off by {dp:.3g} m {dv:.3g} m/s", data)
            if len(walk) == 2:
                # a state held in an element form keeps denoting the same cartesian state when its frame changes - the elements being
                # re-expressed about the NEW frame's central body (keplerian where both centres carry a body, else spherical)
                bodies = [getattr(getattr(f, "center", None), "body", None) for f in frames]
                fo = "keplerian" if all(bd is not None for bd in bodies) else "spherical"
                try:
                    el = sv.copy(form=fo)
                    moved = el.copy(frame=frames[1])
                    m = np.asarray(moved.copy(form="cartesian"), float)
                    inplace = sv.copy(form=fo)
                    inplace.frame = frames[1]
                    m2 = np.asarray(inplace.copy(form="cartesian"), float)
                    sp, svl = max(np.linalg.norm(b[:3]), 1.0), max(np.linalg.norm(b[3:]), 1e-3)
                    okf = moved.form.name == fo and inplace.form.name == fo and max(np.linalg.norm(m[:3] - b[:3]), np.linalg.norm(m2[:3] - b[:3])) <= 1e-8 * sp \
                        and max(np.linalg.norm(m[3:] - b[3:]), np.linalg.norm(m2[3:] - b[3:])) <= 1e-8 * svl
                    clause("a state in an element form converted to another frame (copy or in place) denotes the same cartesian state, in the same form", okf,
                           "frames/form-carried", f"{walk} at {dspec}: {fo} state moved to {walk[1]}: off by {np.linalg.norm(m[:3] - b[:3]):.3g} m / "
                           f"{np.linalg.norm(m2[:3] - b[:3]):.3g} m (in place), forms {moved.form.name} / {inplace.form.name}", data)
                except Exception as e:
                    clause("a state in an element form converted to another frame (copy or in place) denotes the same cartesian state, in the same form", False,
                           "frames/form-carried", f"{walk} at {dspec}: {fo}: {type(e).__name__}: {e}", data)
                same_centre = all(w not in ("Station", "LofN", "LofQ", "LofT", "LofS", "Moon", "EML1", "EML4e") for w in walk)
                if same_centre:
                    # position map = proper rotation: images of the basis vectors
                    cols = []
                    for k in range(3):
                        e = np.zeros(6)
                        e[k] = 1.0e7
                        cols.append(np.asarray(StateVector(e, date, "cartesian", frames[0]).copy(frame=frames[1]), float)[:3] / 1.0e7)
                    R = np.array(cols).T
                    ortho = np.abs(R @ R.T - np.identity(3)).max()
                    clause("between frames sharing a centre the position map is a proper rotation", ortho <= 1e-12 and abs(np.linalg.det(R) - 1) <= 1e-12
                           and abs(np.linalg.norm(b[:3]) - np.linalg.norm(x0[:3])) <= 1e-9 * np.linalg.norm(x0[:3]), "frames/rotation",
                           f"{walk} at {dspec}: |RR^T-I|={ortho:.3g}, det={np.linalg.det(R)}", data)
                # velocity = d/dt of the converted position of a point moving uniformly in the source frame
                # the EOP tables are per-day step functions (UT1-UTC jumps by 1 s at a leap second, by ~1 ms on any other day):
                # a finite difference across midnight measures the table step, not the conversion - no stencil there
                secs = dspec[3] * 3600 + dspec[4] * 60 + dspec[5]
                if job.get("kinematics", True) and 200 <= secs <= 86400 - 200:
                    # seven-point stencil with h = 30 s: the library evaluates sidereal angles from float Julian dates
                    # (40 us resolution, i.e. ~2 cm of position jitter) which a short baseline would amplify, and
                    # orbit-attached centres move on a curved path (truncation ~ w_orb^7 h^6 R / 140 = 4e-8 m/s)
                    h = 30.0
                    wts = {1: 3.0 / 4, 2: -3.0 / 20, 3: 1.0 / 60}
                    vnum = np.zeros(3)
                    for kk, wk in wts.items():
                        for sgn in (-1, 1):
                            xs = x0.copy()
                            xs[:3] = x0[:3] + sgn * kk * h * x0[3:]
                            d2 = date + timedelta(seconds=sgn * kk * h)
                            p = np.asarray(StateVector(xs, d2, "cartesian", frames[0]).copy(frame=frames[1]), float)[:3]
                            vnum += sgn * wk * p / h
                    err = np.linalg.norm(vnum - b[3:])
                    # budget: Julian-date quantisation (<= 1.3e-3 m/s) + neglected precession / nutation / polar-motion rates
                    # (<= 6e-5 m/s); the Earth-rotation coupling itself is ~500 m/s.  Frames with QSW/TNW axes are excluded:
                    # the library's local orbital axes are instantaneous (no rotation-rate coupling) by design.
                    if not any(w in ("LofQ", "LofT", "LofS", "Moon", "EML1", "EML4e") for w in walk):
                        clause("converted velocity equals the time derivative of the converted position (3e-3 m/s)", err <= 3e-3,
                               "frames/kinematics", f"{walk} at {dspec} [{job['eop']}]: seven-point derivative differs by {err:.3g} m/s", data)
        if any("LofS" in w for w in job["walks"]):
            same = np.array_equal(np.asarray(sref, float), sref_snap[0]) and sref.frame.name == sref_snap[1] and sref.form.name == sref_snap[2]
            clause("the state vector a frame was attached to is left as the user holds it (frame, form, values)", same, "frames/reference-touched",
                   f"at {dspec}: the reference given in {sref_snap[1]}/{sref_snap[2]} is now in {sref.frame.name}/{sref.form.name}", {"date": dspec})
        # the two precession-nutation chains agree to the accuracy of the uncorrected 1980 model - whatever time scale the
        # date of the state is labelled with (the same instant)
        for scale in ("UTC", "TAI", "TT", "GPS", "UT1", "TDB"):
            dlab = date if scale == "UTC" else date.change_scale(scale)
            cols = []
            for k in range(3):
                e = np.zeros(6)
                e[k] = 1.0
                cols.append(np.asarray(StateVector(e, dlab, "cartesian", "GCRF").copy(frame="EME2000"), float)[:3])
            R = np.array(cols).T
            ang = np.degrees(np.arccos(min(1.0, (np.trace(R) - 1) / 2))) * 3600
            res["evaluations"] += 1
            clause("IAU-1980 and IAU-2010 chains agree within 0.1 arcsec (+0.03 arcsec frame bias)", ang <= 0.13, "frames/iau-chains",
                   f"GCRF->EME2000 through both chains rotates by {ang:.4f} arcsec at {dspec} labelled {scale} [{job['eop']}]",
                   {"date": dspec, "scale": scale, "eop": job["eop"]})
    # ---- independent formulas: Earth rotation angle (IAU 2000, a linear function of the UT1 Julian date) for TIRF <-> CIRF, and the
    #      IAU 1976 precession angles (cubic polynomials of TT centuries) for EME2000 <-> MOD
    def r1(a):
        return np.array([[1, 0, 0], [0, np.cos(a), np.sin(a)], [0, -np.sin(a), np.cos(a)]])

    def r2(a):
        return np.array([[np.cos(a), 0, -np.sin(a)], [0, 1, 0], [np.sin(a), 0, np.cos(a)]])

    def r3(a):
        return np.array([[np.cos(a), np.sin(a), 0], [-np.sin(a), np.cos(a), 0], [0, 0, 1]])

    def posmap(src, dst, date):
        cols = []
        for k in range(3):
            e = np.zeros(6)
            e[k] = 1.0e7
            cols.append(np.asarray(StateVector(e, date, "cartesian", src).copy(frame=dst), float)[:3] / 1.0e7)
        return np.array(cols).T
    for dspec in job["dates"]:
        date = Date(*dspec)
        for scale in ("UTC", "TT", "GPS"):
            dlab = date if scale == "UTC" else date.change_scale(scale)
            ut1 = date.change_scale("UT1")
            tu = (ut1.d - 51544) + (ut1.s - 43200.0) / 86400.0                     # days of UT1 since J2000.0
            era = 2 * np.pi * ((0.7790572732640 + 0.00273781191135448 * tu + (tu % 1.0)) % 1.0)
            got = posmap("TIRF", "CIRF", dlab)
            want = r3(-era)
            ang = np.degrees(np.linalg.norm(got @ want.T - np.identity(3)) / np.sqrt(2)) * 3600      # small-angle measure (arccos has a 0.004 arcsec floor)
            res["evaluations"] += 1
            clause("TIRF -> CIRF is the rotation by the Earth rotation angle of the IAU 2000 definition (0.001 arcsec)", ang <= 1e-3, "frames/era",
                   f"at {dspec} labelled {scale} [{job['eop']}]: {ang:.5f} arcsec from R3(-ERA)", {"date": dspec, "scale": scale, "eop": job["eop"]})
            tt = date.change_scale("TT")
            T = ((tt.d - 51544) + (tt.s - 43200.0) / 86400.0) / 36525.0
            asec = np.pi / 180 / 3600
            zeta = (2306.2181 * T + 0.30188 * T ** 2 + 0.017998 * T ** 3) * asec
            theta = (2004.3109 * T - 0.42665 * T ** 2 - 0.041833 * T ** 3) * asec
            z = (2306.2181 * T + 1.09468 * T ** 2 + 0.018203 * T ** 3) * asec
            wantp = r3(-z) @ r2(theta) @ r3(-zeta)
            gotp = posmap("EME2000", "MOD", dlab)
            angp = np.degrees(np.linalg.norm(gotp @ wantp.T - np.identity(3)) / np.sqrt(2)) * 3600
            clause("EME2000 -> MOD is the IAU 1976 precession (0.001 arcsec)", angp <= 1e-3, "frames/precession",
                   f"at {dspec} labelled {scale}: {angp:.5f} arcsec from R3(-z) R2(theta) R3(-zeta)", {"date": dspec, "scale": scale})
    # ---- histories: a conversion is a function of (frames, date, EOP in force) - not of what was converted before ------------------
    if job.get("histories", True) and job["dates"]:
        from beyond.dates.eop import EopDb, Eop, register

        if "VerifConstEop" not in getattr(EopDb, "_dbs", {}):
            @register("VerifConstEop")
            class VerifConstEop:
                """a second Earth-orientation source: constant, sizeable values"""
                def __getitem__(self, mjd):
                    # same TAI-UTC as the source it replaces (the same calendar date is then the same instant), other values differ
                    return Eop(x=0.12, y=0.31, dx=0.2, dy=-0.1, deps=-8.0, dpsi=-60.0, lod=1.5, ut1_utc=-0.35, tai_utc=TAI_UTC[0])
        TAI_UTC = [0.0]
        pairs = [("ITRF", "EME2000"), ("TIRF", "CIRF"), ("ITRF", "TOD"), ("PEF", "MOD"), ("ITRF", "G50"), ("ITRF", "GCRF"), ("EME2000", "ITRF")]
        x0 = np.array([6524834.0, 686297.0, 2650000.0, -4901.0, 5533.0, -1976.0])
        prev_db = config.get("eop", "dbname", fallback=EopDb.DEFAULT_DBNAME)

        def conv(pair, dspec):
            return np.asarray(StateVector(x0, Date(*dspec), "cartesian", pair[0]).copy(frame=pair[1]), float)
        for dspec in job["dates"][:2]:
            other = list(dspec)
            other[0] = other[0] - 1 if other[0] > 1975 else other[0] + 1
            for pair in pairs:
                data = {"pair": list(pair), "date": dspec, "eop": job["eop"],
                        "how": "convert under the configured EOP source; config eop.dbname -> a constant source; convert the same pair at the same "
                               "calendar date (A); convert it at another date; convert at the first date again (B); A must equal B"}
                try:
                    first = conv(pair, dspec)
                    TAI_UTC[0] = float(Date(*dspec).eop.tai_utc)
                    config.set("eop", "dbname", "VerifConstEop")
                    a_ = conv(pair, dspec)              # same pair, equal date, another EOP source: nothing else in between
                    conv(pair, other)
                    b_ = conv(pair, dspec)
                finally:
                    config.set("eop", "dbname", prev_db)
                back = conv(pair, other)
                again = conv(pair, dspec)
                res["evaluations"] += 1
                clause("a conversion does not depend on what was converted before (same pair and date under another EOP source)",
                       np.array_equal(a_, b_) and np.array_equal(first, again), "frames/history-eop",
                       f"{pair} at {dspec}: after a conversion under the previous EOP source the result differs by {np.linalg.norm(a_[:3] - b_[:3]):.4g} m "
                       f"from the same conversion made later (and {np.linalg.norm(first[:3] - again[:3]):.4g} m when switching back)", data)
        # ONE orbit-attached frame used at several dates (the frame follows its orbit): round trip and path independence at each
        date0 = Date(*job["dates"][0])
        oref = Orbit([7.3e6, 0.03, 1.1, 0.4, 1.2, 2.1], date0, "keplerian", "EME2000", "Kepler")
        for orientation in ("QSW", "TNW", None):
            fl = fr.orbit2frame(f"VfMulti{orientation or 'N'}", oref, orientation, exists_warning=False)
            for dt_s in (0.0, 60.0, 600.0, 3000.0, -450.0):
                d = date0 + timedelta(seconds=dt_s)
                a0 = StateVector(x0, d, "cartesian", "EME2000")
                there = a0.copy(frame=fl)
                back = np.asarray(there.copy(frame="EME2000"), float)
                via = np.asarray(a0.copy(frame="MOD").copy(frame=fl), float)
                res["evaluations"] += 1
                clause("one orbit-attached frame used at several dates: round trip is the identity and the path does not matter",
                       np.linalg.norm(back[:3] - x0[:3]) <= 1e-5 and np.linalg.norm(back[3:] - x0[3:]) <= 1e-8
                       and np.linalg.norm(via[:3] - np.asarray(there, float)[:3]) <= 1e-5, "frames/history-dates",
                       f"orientation {orientation}, {dt_s} s after the first date: round trip off by {np.linalg.norm(back[:3] - x0[:3]):.4g} m, "
                       f"via MOD differs by {np.linalg.norm(via[:3] - np.asarray(there, float)[:3]):.4g} m", {"orientation": orientation, "dt_s": dt_s})
        # a frame attached to an EPHEMERIS (Ephem.as_frame): the ephemeris goes on being used for other things - resampled, its points
        # converted in place by the consumer (what TopocentricFrame.visibility does), tabulated again - and the frame conversions at
        # the dates those uses touched must be what a fresh ephemeris + frame give
        ebase = oref.ephem(start=date0 - timedelta(seconds=1800), stop=timedelta(seconds=5400), step=timedelta(seconds=60))
        for orientation in ("QSW", None):
            tag = orientation or "N"
            fe = ebase.as_frame(f"VfEph{tag}", orientation=orientation, exists_warning=False)
            uses = []
            for use in ("none", "resampled-in-place", "visibility", "sub-ephem"):
                if use == "resampled-in-place":
                    last = None
                    for p_ in ebase.iter(start=date0, stop=timedelta(seconds=900), step=timedelta(seconds=45)):
                        p_.frame = "ITRF"
                        p_.form = "spherical"
                        last = p_.date
                    uses.append(last)
                elif use == "visibility":
                    last = None
                    for p_ in station.visibility(ebase, start=date0, stop=timedelta(seconds=1200), step=timedelta(seconds=50), events=True):
                        last = p_.date
                    uses.append(date0 + timedelta(seconds=1200))
                    if last is not None:
                        uses.append(last)
                elif use == "sub-ephem":
                    sub = ebase.ephem(start=date0 + timedelta(seconds=100), stop=timedelta(seconds=700), step=timedelta(seconds=35))
                    sub.frame = "TOD"
                    uses.append(sub.stop)
                # the date the last use ended on comes FIRST (nothing else is asked of the ephemeris in between)
                for dchk in [u for u in uses if u is not None][::-1] + [date0]:
                    a0 = StateVector(x0, dchk, "cartesian", "EME2000")
                    there = np.asarray(a0.copy(frame=fe), float)
                    again = np.asarray(a0.copy(frame=fe), float)
                    back = np.asarray(StateVector(there, dchk, "cartesian", fe).copy(frame="EME2000"), float)
                    efresh = oref.ephem(start=date0 - timedelta(seconds=1800), stop=timedelta(seconds=5400), step=timedelta(seconds=60))
                    ffresh = efresh.as_frame(f"VfEphFresh{tag}", orientation=orientation, exists_warning=False)
                    want = np.asarray(a0.copy(frame=ffresh), float)
                    res["evaluations"] += 1
                    clause("a frame attached to an ephemeris converts as a fresh one does, whatever the ephemeris was used for in between (round trip, repeatability)",
                           np.linalg.norm(there[:3] - want[:3]) <= 1e-5 and np.linalg.norm(there[3:] - want[3:]) <= 1e-8 and np.array_equal(there, again)
                           and np.linalg.norm(back[:3] - x0[:3]) <= 1e-5, "frames/history-ephem-frame",
                           f"orientation {orientation}, after '{use}', at {dchk}: {np.linalg.norm(there[:3] - want[:3]):.4g} m from the conversion through a fresh "
                           f"ephemeris and frame; repeated conversion differs by {np.linalg.norm(there[:3] - again[:3]):.4g} m; round trip off by "
                           f"{np.linalg.norm(back[:3] - x0[:3]):.4g} m", {"orientation": orientation, "use": use, "date": str(dchk)})
        # an orbit-attached frame registered again under the same name with another orbit
        date = Date(*job["dates"][0])
        o1 = Orbit([7.3e6, 0.03, 1.1, 0.4, 1.2, 2.1], date, "keplerian", "EME2000", "Kepler")
        o2 = Orbit([8.1e6, 0.10, 0.4, 2.4, 0.2, 4.1], date, "keplerian", "EME2000", "Kepler")
        for orientation in ("QSW", "TNW", None):
            tag = orientation or "N"
            f1 = fr.orbit2frame(f"VfSame{tag}", o1, orientation, exists_warning=False)
            g1 = np.asarray(StateVector(x0, date, "cartesian", "EME2000").copy(frame=f1), float)
            f2 = fr.orbit2frame(f"VfSame{tag}", o2, orientation, exists_warning=False)           # same name, another orbit
            g2 = np.asarray(StateVector(x0, date, "cartesian", "EME2000").copy(frame=f2), float)
            fresh = fr.orbit2frame(f"VfFresh{tag}", o2, orientation, exists_warning=False)
            want = np.asarray(StateVector(x0, date, "cartesian", "EME2000").copy(frame=fresh), float)
            back = np.asarray(StateVector(g2, date, "cartesian", f2).copy(frame="EME2000"), float)
            res["evaluations"] += 1
            clause("a frame registered again under an existing name is the new frame (conversions follow the new orbit; round trip holds)",
                   np.linalg.norm(g2[:3] - want[:3]) <= 1e-6 and np.linalg.norm(g2[3:] - want[3:]) <= 1e-9 and np.linalg.norm(back[:3] - x0[:3]) <= 1e-5,
                   "frames/history-reregistered", f"orientation {orientation}: {np.linalg.norm(g2[:3] - want[:3]):.4g} m from the conversion to the same "
                   f"frame under a fresh name; round trip off by {np.linalg.norm(back[:3] - x0[:3]):.4g} m", {"orientation": orientation})
    res["nontrivial"] = [json.dumps(list(k)) for k in sorted(kinds)]
    with open(outp, "w") as fh:
        json.dump(res, fh)


if __name__ == "__main__":
    main(sys.argv[1], sys.argv[2])
