"""Replay Tle.tla vectors and TleStream.tla texts on the real beyond.io.tle.Tle (property C12)."""
import json
import sys
from datetime import datetime, timedelta

import numpy as np

from beyond.config import config

config.set("eop", "missing_policy", "pass")

from beyond.io.tle import Tle, TleParseError  # noqa: E402

PIECES = ["", "A", "ZZZ", "AB", "C"]


def main(inp, outp):
    with open(inp) as fh:
        job = json.load(fh)
    res = {"evaluations": 0, "traces": 0, "clauses": {}, "violations": [], "samples": [], "nontrivial": []}
    kinds = set()

    def clause(name, ok, key, what, data):
        c = res["clauses"].setdefault(name, {"checked": 0, "failed": 0})
        c["checked"] += 1
        if not ok:
            c["failed"] += 1
            if sum(1 for v in res["violations"] if v["key"] == key) < 4:
                res["violations"].append({"key": key, "what": what, "data": data})

    for vi, v in enumerate(job.get("vectors", [])):
        f = v["fields"]
        l1, l2 = v["l1"], v["l2"]
        name = ["", "ISS (ZARYA)", "0 OBJECT A"][vi % 3]
        text = (name + "\n" if name else "") + l1 + "\n" + l2
        data = {"text": text, "fields": f, "how": "t = Tle(text); Tle.from_orbit(t.orbit())"}
        res["evaluations"] += 1
        res["traces"] += 1
        try:
            t = Tle(text)
        except Exception as e:
            clause("a well-formed TLE is accepted", False, "tle/rejected-valid", f"{type(e).__name__}: {e} for\n{text}", data)
            continue
        clause("a well-formed TLE is accepted", True, "", "", data)
        # ---- parsed fields equal the specification's, to printed precision --------------------------
        year = f["eyy"] + (1900 if f["eyy"] >= 57 else 2000)
        epoch = datetime(year, 1, 1) + timedelta(days=f["edoy"] - 1, microseconds=f["efrac"] * 864)
        want = {
            "norad_id": f["norad"],
            "cospar_id": "" if f["desig"] == 0 else f"{f['dyy'] + (1900 if f['dyy'] >= 57 else 2000)}-{f['dlaunch']:03d}{PIECES[f['desig']]}",
            "element_nb": f["elnb"], "revolutions": f["rev"], "classification": "UCS"[f.get("cls", 1) - 1],
        }
        for k, w in want.items():
            key = "tle/element-number" if k == "element_nb" else f"tle/field-{k}"
            clause(f"parsed {k} equals the printed field", getattr(t, k) == w, key, f"{k}: parsed {getattr(t, k)!r}, printed {w!r} in\n{l1}", data)
        num = {
            "ndot": (t.ndot, 2 * f["ndsgn"] * f["nd"] * 1e-8, 1e-9),
            "ndotdot": (t.ndotdot, 6 * f["nddsgn"] * f["nddmant"] * 1e-5 * 10.0 ** (f["nddesgn"] * f["nddexp"]), 1e-10),
            "bstar": (t.bstar, f["bssgn"] * f["bsmant"] * 1e-5 * 10.0 ** (f["bsesgn"] * f["bsexp"]), 1e-10),
            "i": (np.degrees(t.i), f["incl"] * 1e-4, 1e-9), "raan": (np.degrees(t.Ω), f["raan"] * 1e-4, 1e-9),
            "e": (t.e, f["ecc"] * 1e-7, 1e-12), "argp": (np.degrees(t.ω), f["argp"] * 1e-4, 1e-9),
            "M": (np.degrees(t.M), f["ma"] * 1e-4, 1e-9), "n": (t.n * 86400 / (2 * np.pi), f["mm"] * 1e-8, 1e-11),
        }
        for k, (got, w, tol) in num.items():
            clause(f"parsed {k} equals the printed field to its precision", abs(got - w) <= tol * max(1.0, abs(w)) + 1e-300,
                   f"tle/field-{k}", f"{k}: parsed {got!r}, printed {w!r}", data)
        de = (t.epoch.datetime - epoch).total_seconds()
        clause("parsed epoch equals the printed one to 1e-8 day", abs(de) <= 864e-6 / 2 + 1e-6 and t.epoch.scale.name == "UTC",
               "tle/epoch", f"epoch {t.epoch} vs {epoch} ({de} s)", data)
        clause("name line is kept", t.name == (name[2:] if name.startswith("0 ") else name), "tle/name", f"name {t.name!r}", data)
        # ---- writing the orbit back gives the identical lines -------------------------------------------
        try:
            # the doors of the writer, in turn: identification taken from the orbit's attributes / given as keyword arguments (the
            # object's own values, the identifier as a string or as an integer) / the orbit copied first / str() of the object itself
            door = vi % 4
            orb_ = t.orbit()
            if door == 0:
                back = Tle.from_orbit(orb_)
            elif door == 1:
                back = Tle.from_orbit(orb_, name=t.name or None, norad_id=str(t.norad_id) if vi % 8 == 1 else int(t.norad_id), cospar_id=t.cospar_id or None)
            elif door == 2:
                back = Tle.from_orbit(orb_.copy())
            elif name:
                back = Tle.from_orbit(orb_.copy(form="keplerian_mean").copy(form="TLE"))
            else:
                # an orbit built by hand with just what a TLE needs - no name, no identifiers attached - written with the
                # identification given as keyword arguments
                from beyond.orbits import Orbit
                hand = Orbit([float(x) for x in orb_], orb_.date, "TLE", "TEME", "Sgp4", bstar=t.bstar, ndot=t.ndot, ndotdot=t.ndotdot,
                             element_nb=t.element_nb, revolutions=t.revolutions, classification=t.classification)
                back = Tle.from_orbit(hand, norad_id=t.norad_id, cospar_id=t.cospar_id or None)
            btxt = str(back)
        except Exception as e:
            clause("the parsed orbit can be written back", False, "tle/writeback-raises", f"{type(e).__name__}: {e} for\n{text}", data)
            continue
        wtext = text[2:] if name.startswith("0 ") else text
        lines = btxt.splitlines()[-2:]
        clause("written lines are 69 characters with correct checksums", all(len(x) == 69 for x in lines), "tle/length",
               f"lengths {[len(x) for x in lines]}:\n{btxt}", data)
        same = btxt == wtext
        key = "tle/roundtrip"
        if not same and lines[1] == l2 and lines[0][:64] == l1[:64]:
            key = "tle/element-number"
        clause("parse -> orbit -> write gives the identical lines (name line included)", same, key,
               f"wrote\n{btxt}\ninstead of\n{wtext}", data)
        kinds.add(tuple(v["changed"]))
        if len(res["samples"]) < 2:
            res["samples"].append({"text": text, "changed_fields": v["changed"]})
        # ---- corruptions ----------------------------------------------------------------------------------
        if vi % job.get("corrupt_every", 10) == 0:
            for li, line in enumerate((l1, l2)):
                for col in range(68):
                    if line[col].isdigit():
                        for d in (str((int(line[col]) + 1) % 10), str((int(line[col]) + 7) % 10)):
                            bad = line[:col] + d + line[col + 1:]
                            pair = (bad, l2) if li == 0 else (l1, bad)
                            try:
                                Tle("\n".join(pair))
                                ok = False
                            except TleParseError:
                                ok = True
                            except Exception:
                                ok = False
                            res["evaluations"] += 1
                            clause("a single corrupted digit is rejected (checksum)", ok, "tle/corruption-accepted",
                                   f"accepted line {li+1} with column {col+1} changed to {d}:\n{bad}", data)
            for pair, what in (((l1[:-1], l2), "line 1 one character short"), ((l1, l2 + "0"), "line 2 one character long"),
                               (("3" + l1[1:], l2), "line number 3"), ((l2, l1), "lines swapped"), ((l1, "1" + l2[1:]), "second line numbered 1")):
                try:
                    Tle("\n".join(pair))
                    ok = False
                except TleParseError:
                    ok = True
                except Exception:
                    ok = False
                res["evaluations"] += 1
                clause("wrong length or line number is rejected", ok, "tle/structure-accepted", f"accepted {what}", data)
    # ---- multi-TLE texts --------------------------------------------------------------------------------------
    A1 = "1 25544U 98067A   18124.55610684  .00001524  00000-0  30197-4 0  9997"
    A2 = "2 25544  51.6421 236.2139 0003381  47.8509  47.6767 15.54198229111731"
    B1 = "1 24960U 97054A   18123.22759647  .00000163  00000-0  24467-3 0  9999"
    B2 = "2 24960  62.6812 182.7824 6470982 294.8616  12.8538  3.18684355160009"
    table = {"N": "SOME NAME", "C": "# a comment", "E": "", "A1": A1, "A2": A2, "B1": B1, "B2": B2,
             "X2": A2[:-1] + "0", "S1": A1[:40]}
    ids = {"A": 25544, "B": 24960}
    import logging
    logging.getLogger("beyond.io.tle").setLevel(logging.CRITICAL)
    for s in job.get("streams", []):
        text = "\n".join(table[k] for k in s["text"])
        data = {"kinds": s["text"], "text": text}
        res["evaluations"] += 1
        res["traces"] += 1
        for mode in ("warn", "ignore"):
            try:
                got = [t.norad_id for t in Tle.from_string(text, error=mode)]
            except Exception as e:
                got = f"{type(e).__name__}: {e}"
            clause("a multi-TLE text yields exactly its valid entries, in order", got == [ids[x] for x in s["expect"]],
                   "tle/stream", f"kinds {s['text']} (error={mode}) yielded {got}, expected {s['expect']}", data)
        try:
            got = [t.norad_id for t in Tle.from_string(text, error="raise")]
            raised = False
        except TleParseError:
            raised = True
        except Exception as e:
            raised = f"{type(e).__name__}"
        clause("error='raise' raises TleParseError iff some line 2 does not close a valid pair", raised == s["firstbad"],
               "tle/stream-raise", f"kinds {s['text']}: raised={raised}, expected {s['firstbad']}", data)
        kinds.add(("stream", len(s["text"]), len(s["expect"])))
    res["nontrivial"] = [json.dumps(list(map(str, k))) for k in sorted(kinds, key=str)]
    with open(outp, "w") as fh:
        json.dump(res, fh)


if __name__ == "__main__":
    main(sys.argv[1], sys.argv[2])
