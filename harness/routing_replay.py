"""Replay link histories on real beyond.utils.node.Node objects and project the observable state."""
import json
import sys

from beyond.utils.node import Node


# Node names are inputs too: scheme 0 = "1".."N"; scheme 1 mixes one-character names with longer names that
# contain those characters (frames are registered under arbitrary user names such as "T" or "Toulouse")
SCHEMES = [
    None,
    ["T", "Earth", "Toulouse", "C", "ITRF", "o", "MOD", "a"],
    ["EME2000", "E", "M", "ITRF", "2", "Moon", "I", "0"],
]


def names_for(n, scheme):
    if SCHEMES[scheme] is None:
        return [str(i) for i in range(1, n + 1)]
    return SCHEMES[scheme][:n]


def project(nodes):
    n = len(nodes)
    idx = {node.name: i + 1 for i, node in enumerate(nodes)}
    nb = [[idx[x.name] for x in node.neighbors] for node in nodes]
    rt = []
    for node in nodes:
        row = []
        for t in nodes:
            r = node.routes.get(t.name)
            row.append([0, 0] if r is None else [idx[r.direction.name], int(r.steps)])
        rt.append(row)
    return {"nb": nb, "rt": rt}


def api_view(nodes):
    """What a user sees: path() for every ordered pair (None when ValueError, "loop" when the walk does not end)."""
    n = len(nodes)
    idx = {node.name: i + 1 for i, node in enumerate(nodes)}
    out = []
    for a in nodes:
        row = []
        for t in nodes:
            # bounded re-implementation of the walk first: Node.path() would never return on a routing loop
            cur, hops, ok = a, 0, True
            while cur is not t:
                r = cur.routes.get(t.name)
                if r is None or hops > n:
                    ok = False
                    break
                cur = r.direction
                hops += 1
            if not ok:
                row.append(None if cur.routes.get(t.name) is None and hops <= n else "loop")
                continue
            try:
                row.append([idx[x.name] for x in a.path(t.name)])
            except ValueError:
                row.append(None)
        out.append(row)
    return out


def main(inp, outp):
    with open(inp) as fh:
        job = json.load(fh)
    n = job["N"]
    states = {}
    order = []
    steps = set()
    first_hist = {}

    def intern(p, hist):
        key = json.dumps(p, sort_keys=True)
        if key not in states:
            states[key] = len(order) + 1
            order.append(p)
            first_hist[states[key]] = hist
        return states[key]

    api_mismatch = []
    scheme = job.get("scheme", 0)
    import signal

    class Hang(Exception):
        pass

    def _alarm(signum, frame):
        raise Hang()
    signal.signal(signal.SIGALRM, _alarm)
    for hist in job["hists"]:
        nodes = [Node(nm) for nm in names_for(n, scheme)]
        cur = intern(project(nodes), [])
        hung = False
        for j, (a, b) in enumerate(hist):
            # a link that never returns (a table update that never stabilises) is reported, not waited for
            signal.alarm(20)
            try:
                ret = nodes[a - 1] + nodes[b - 1]
            except Hang:
                api_mismatch.append({"hist": hist[: j + 1], "what": f"linking {a} + {b} does not terminate (20 s)"})
                hung = True
                break
            finally:
                signal.alarm(0)
            if ret is not nodes[b - 1]:
                api_mismatch.append({"hist": hist[: j + 1], "what": "a + b did not return b"})
            p = project(nodes)
            nxt = intern(p, hist[: j + 1])
            steps.add((cur, nxt, a, b))
            cur = nxt
        if hung:
            continue
        # the public API must agree with the projected tables (path follows next hops)
        view = api_view(nodes)
        for a in range(n):
            for t in range(n):
                w = view[a][t]
                r = p["rt"][a][t] if hist else [0, 0]
                if w == "loop":
                    api_mismatch.append({"hist": hist, "what": f"path({a+1},{t+1}) never terminates (routing loop)"})
                elif a != t and ((w is None) != (r == [0, 0])):
                    api_mismatch.append({"hist": hist, "what": f"path({a+1},{t+1})={w} but route={r}"})
    with open(outp, "w") as fh:
        json.dump({
            "states": order,
            "steps": [{"pre": s[0], "post": s[1], "a": s[2], "b": s[3]} for s in sorted(steps)],
            "first_hist": first_hist,
            "api_mismatch": api_mismatch[:20],
            "replayed": len(job["hists"]),
            "scheme": scheme, "names": names_for(n, scheme),
        }, fh)


if __name__ == "__main__":
    main(sys.argv[1], sys.argv[2])
