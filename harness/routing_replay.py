"""Replay link histories on real beyond.utils.node.Node objects and project the observable state."""
import json
import sys

from beyond.utils.node import Node


def project(nodes):
    n = len(nodes)
    nb = [[int(x.name) for x in node.neighbors] for node in nodes]
    rt = []
    for node in nodes:
        row = []
        for t in range(1, n + 1):
            r = node.routes.get(str(t))
            row.append([0, 0] if r is None else [int(r.direction.name), int(r.steps)])
        rt.append(row)
    return {"nb": nb, "rt": rt}


def api_view(nodes):
    """What a user sees: path() for every ordered pair (None when ValueError)."""
    n = len(nodes)
    out = []
    for a in nodes:
        row = []
        for t in range(1, n + 1):
            try:
                row.append([int(x.name) for x in a.path(str(t))])
            except ValueError:
                row.append(None)
        out.append(row)
    return out


def main(inp, outp):
    with open(inp) as fh:
        job = json.load(fh)
    n = job["N"]
    states = {}
    order = []
    steps = set()
    first_hist = {}

    def intern(p, hist):
        key = json.dumps(p, sort_keys=True)
        if key not in states:
            states[key] = len(order) + 1
            order.append(p)
            first_hist[states[key]] = hist
        return states[key]

    api_mismatch = []
    for hist in job["hists"]:
        nodes = [Node(str(i)) for i in range(1, n + 1)]
        cur = intern(project(nodes), [])
        for j, (a, b) in enumerate(hist):
            ret = nodes[a - 1] + nodes[b - 1]
            if ret is not nodes[b - 1]:
                api_mismatch.append({"hist": hist[: j + 1], "what": "a + b did not return b"})
            p = project(nodes)
            nxt = intern(p, hist[: j + 1])
            steps.add((cur, nxt, a, b))
            cur = nxt
        # the public API must agree with the projected tables (path follows next hops)
        view = api_view(nodes)
        for a in range(n):
            for t in range(n):
                w = view[a][t]
                r = p["rt"][a][t] if hist else [0, 0]
                if a != t and ((w is None) != (r == [0, 0])):
                    api_mismatch.append({"hist": hist, "what": f"path({a+1},{t+1})={w} but route={r}"})
    with open(outp, "w") as fh:
        json.dump({
            "states": order,
            "steps": [{"pre": s[0], "post": s[1], "a": s[2], "b": s[3]} for s in sorted(steps)],
            "first_hist": first_hist,
            "api_mismatch": api_mismatch[:20],
            "replayed": len(job["hists"]),
        }, fh)


if __name__ == "__main__":
    main(sys.argv[1], sys.argv[2])
