"""Replay of Ccsds.tla: build the real object of a configuration, drive ccsds.dumps / loads along the encoding path and
compare the projected content after every load (property C13)."""
import json
import sys
from datetime import timedelta

import numpy as np

from beyond.config import config

config.set("eop", "missing_policy", "pass")

from beyond.dates import Date  # noqa: E402
from beyond.orbits import Orbit, StateVector, Ephem  # noqa: E402
from beyond.orbits.cov import Cov  # noqa: E402
from beyond.orbits.man import ImpulsiveMan, ContinuousMan  # noqa: E402
from beyond.io import ccsds  # noqa: E402
from beyond.io.tle import Tle  # noqa: E402
from beyond.frames.stations import create_station  # noqa: E402
from beyond.utils.measures import MeasureSet, Range, Azimut, Elevation, Doppler  # noqa: E402

EPOCH = Date(2016, 5, 4, 13, 20, 47, 362496)
TLE = """ISS (ZARYA)
1 25544U 98067A   18124.55610684  .00001524  00000-0  30197-4 0  9997
2 25544  51.6421 236.2139 0003381  47.8509  47.6767 15.54198229111731"""
L = np.tril(np.arange(1.0, 37.0).reshape(6, 6) * 0.37 + 2.0)
COV = (L @ L.T) * np.outer([10, 10, 10, 0.01, 0.01, 0.01], [10, 10, 10, 0.01, 0.01, 0.01])
# frames about other centres than the Earth: the bodies of the planetary kernel shipped with the repository's tests (a message names
# its centre in CENTER_NAME and the reader maps it to the frame of that name)
import beyond as _beyond  # noqa: E402
from pathlib import Path  # noqa: E402
_jd = Path(_beyond.__file__).resolve().parent.parent / "tests" / "data" / "jpl"
config.set("env", "jpl", "files", [str(_jd / "de403_2000-2020.bsp"), str(_jd / "pck00010.tpc"), str(_jd / "gm_de431.tpc")])
from beyond.env import jpl as _jpl  # noqa: E402
_jpl.create_frames()
station = create_station("VfCcsds", (43.604482, 1.443962, 172.0))
station2 = create_station("VfCcsds2", (5.25, -52.8, 15.0))


def covframe(cfg, sv, k=0):
    c = cfg["cov"]
    if c == "none":
        return None
    if c == "mixed":       # successive covariances of one message in different frames: local, own frame, other local, ...
        return ["QSW", sv.frame, "TNW", sv.frame, "QSW"][k % 5]
    return {"same": sv.frame, "QSW": "QSW", "TNW": "TNW", "other": "TOD" if sv.frame.name != "TOD" else "MOD"}[c]


def mk_state(cfg, k=0):
    date = (EPOCH + timedelta(seconds=97.123456 * k)).change_scale(cfg["scale"]) if cfg["scale"] != "UTC" else EPOCH + timedelta(seconds=97.123456 * k)
    base = Orbit([7.2e6, 0.02, 0.9, 1.0, 2.0, 0.7 + 0.1 * k], date, "keplerian", "EME2000", "Kepler")
    sv = base.copy(frame=cfg["frame"], form="cartesian")
    sv.name = "SAT-1"
    sv.cospar_id = "2016-025A"
    return sv


def build(cfg):
    t = cfg["type"]
    if t == "opm":
        sv = mk_state(cfg)
        cf = covframe(cfg, sv)
        if cf is not None:
            sv.cov = Cov(sv, COV, cf)
        mans = []
        for i in range(cfg["nman"]):
            d = sv.date + timedelta(seconds=600.5 * (i + 1))
            fr_ = None if cfg["manframe"] == "none" else cfg["manframe"]
            com = f"burn number {i + 1}" if cfg["comment"] else None
            if cfg["mankind"] == "impulsive" or (cfg["mankind"] == "mixed" and i % 2 == 0):
                mans.append(ImpulsiveMan(d, [0.28, -0.01, 0.123456], frame=fr_, comment=com))
            else:
                mans.append(ContinuousMan(d, timedelta(seconds=120.25), dv=[1.5, 0.25, -0.75], frame=fr_, comment=com, date_pos=cfg.get("manpos", "start")))
        if mans:
            sv.maneuvers = mans
        if cfg["nud"]:
            sv._data["ccsds_user_defined"] = {f"FIELD{i}": f"value {i}" for i in range(cfg["nud"])}
        if cfg["kind"] == "statevector":
            sv = sv.as_statevector()
        if cfg.get("form", "cartesian") != "cartesian":
            sv.form = cfg["form"]             # the object is held in another element form when it is written
        return sv
    if t == "oem":
        ephs = []
        for e in range(cfg["nephem"]):
            pts = []
            for k in range(cfg["npoints"]):
                p = mk_state(cfg, k + 20 * e)
                cf = covframe(cfg, p, k)
                if cf is not None and (cfg["ncov"] == "all" or (cfg["ncov"] == "one" and k == 0)):
                    p.cov = Cov(p, COV * (k + 1), cf)
                pts.append(p)
            method, order = ("linear", None) if cfg["interp"] == "linear" else ("lagrange", int(cfg["interp"][8:]))
            if cfg.get("form", "cartesian") != "cartesian":
                for p in pts:
                    p.form = cfg["form"]
            eph = Ephem(pts, method=method, order=order)
            eph.name, eph.cospar_id = "SAT-1", "2016-025A"      # an ephemeris carries its name / identifier itself (as the reader sets them)
            ephs.append(eph)
        return ephs[0] if cfg["nephem"] == 1 else ephs
    if t == "omm":
        orb = Tle(TLE).orbit()
        cf = covframe(cfg, orb)
        if cf is not None:
            orb.cov = Cov(orb, COV, cf)
        if cfg["nud"]:
            orb._data["ccsds_user_defined"] = {f"FIELD{i}": f"value {i}" for i in range(cfg["nud"])}
        return orb
    # tdm
    sat = "2016-025A"
    path = {"one-way": [station.name, sat], "two-way": [station.name, sat, station.name]}[cfg["tdmpath"]]
    ms = MeasureSet([])
    for k in range(3):
        d = (EPOCH + timedelta(seconds=5.25 * k))
        d = d.change_scale(cfg["scale"]) if cfg["scale"] != "UTC" else d
        ms.append(Range(path, d, 1234567.891 + 1000 * k))
        ms.append(Azimut(path, d, -1.234567 + 0.01 * k))
        ms.append(Elevation(path, d, 0.345678 + 0.01 * k))
        if cfg["tdmdoppler"]:
            ms.append(Doppler(path, d, -1234.5678 + k))
    how = cfg.get("grown", "no")
    if how != "no":
        # history: the set has been written once, then measurements on ANOTHER path are merged into the same object in place
        ccsds.dumps(ms)
        path2 = [station2.name, sat] if cfg["tdmpath"] == "one-way" else [station2.name, sat, station2.name]
        extra = []
        for k in range(2):
            d = (EPOCH + timedelta(seconds=40 + 5.25 * k))
            d = d.change_scale(cfg["scale"]) if cfg["scale"] != "UTC" else d
            extra += [Range(path2, d, 2234567.891 + 1000 * k), Azimut(path2, d, 0.5 + 0.01 * k), Elevation(path2, d, 0.7 + 0.01 * k)]
        if how == "extend":
            ms.extend(extra)
        elif how == "iadd":
            ms += extra
        else:
            for x in extra:
                ms.insert(len(ms), x)
    return ms


def inst(d):
    return (d._d, round(d._s * 1e6))


def proj_state(sv):
    c = np.asarray(sv.copy(form="cartesian"), float)
    out = {"frame": sv.frame.name, "scale": sv.date.scale.name, "epoch": inst(sv.date),
           "pos_mm": [round(x * 1e3) for x in c[:3]], "vel_mmps": [round(x * 1e3) for x in c[3:]]}
    cov = sv.cov
    if cov is None:
        out["cov"] = None
    else:
        out["cov"] = {"frame": cov.frame if isinstance(cov.frame, str) else cov.frame.name,
                      "values": [float(f"{x:.11e}") for x in np.asarray(cov, float)[np.tril_indices(6)]]}
    return out


def project(obj, t):
    if t in ("opm", "omm"):
        out = proj_state(obj)
        out["name"] = getattr(obj, "name", None)
        out["cospar_id"] = getattr(obj, "cospar_id", None)
        mans = []
        for m in obj.maneuvers:
            if isinstance(m, ContinuousMan):
                mans.append({"kind": "continuous", "epoch": inst(m.start), "duration_ms": round(m.duration.total_seconds() * 1e3),
                             "dv_mmps": [round(x * 1e3) for x in m._dv], "frame": m.frame, "comment": m.comment})
            else:
                mans.append({"kind": "impulsive", "epoch": inst(m.date), "duration_ms": 0,
                             "dv_mmps": [round(x * 1e3) for x in m._dv], "frame": m.frame, "comment": m.comment})
        out["maneuvers"] = mans
        out["user_defined"] = dict(obj._data.get("ccsds_user_defined", {}))
        if t == "omm":
            tl = [float(x) for x in obj.copy(form="tle")]
            out["tle"] = [round(tl[0], 6), round(tl[1], 6), round(tl[2], 9), round(tl[3], 6), round(tl[4], 6), round(tl[5] * 86400 / (2 * np.pi), 8)]
            out["bstar"] = round(obj.bstar, 10)
            out["norad_id"] = int(obj.norad_id)
            del out["pos_mm"], out["vel_mmps"]
        return out
    if t == "oem":
        ephs = [obj] if isinstance(obj, Ephem) else list(obj)
        return [{"method": e.method.lower(), "order": None if e.method.lower() == "linear" else e.order,
                 "name": getattr(e, "name", None), "cospar_id": getattr(e, "cospar_id", None),
                 "points": [proj_state(p) for p in e]} for e in ephs]
    # written precision: .6f km for ranges, .6f for Doppler, .2f degrees for azimuth / elevation (integers: last written digit)
    def val(m):
        if m.type == "Range":
            return round(m.value * 1e3)
        if m.type == "Doppler":
            return round(m.value * 1e6)
        return round(np.degrees(m.value) % 360 * 100) % 36000
    # a message with several paths (one segment each) is read back as a list of measurement sets: the content is what is compared
    flat = [m for part in obj for m in part] if isinstance(obj, list) else list(obj)
    return sorted([{"type": m.type, "path": [str(getattr(p, "name", p)) for p in m.path], "epoch": inst(m.date), "scale": m.date.scale.name,
                    "value": val(m)} for m in flat], key=lambda x: (x["epoch"], x["type"], x["path"]))


def diff(a, b, pre=""):
    """list of paths where two projections differ"""
    out = []
    if isinstance(a, dict) and isinstance(b, dict):
        for k in sorted(set(a) | set(b)):
            if k not in a or k not in b:
                out.append(pre + k)
            else:
                out += diff(a[k], b[k], pre + k + ".")
    elif isinstance(a, (list, tuple)) and isinstance(b, (list, tuple)):
        if len(a) != len(b):
            out.append(pre + f"len({len(a)}!={len(b)})")
        else:
            for i, (x, y) in enumerate(zip(a, b)):
                out += diff(x, y, pre + f"{i}.")
    elif isinstance(a, float) or isinstance(b, float):
        if a is None or b is None or abs(a - b) > 1e-10 * max(abs(a), abs(b), 1e-300) * 10:
            out.append(pre[:-1])
    elif isinstance(a, int) and isinstance(b, int) and not isinstance(a, bool):
        if abs(a - b) > 1:       # one unit of the written precision (mm, mm/s, us)
            out.append(pre[:-1])
    elif a != b:
        out.append(pre[:-1])
    return out


def door_dumps(obj, filedoor, **kw):
    """the two doors of the writer: dumps(obj) / dump(obj, file object)"""
    if not filedoor:
        return ccsds.dumps(obj, **kw)
    import io
    fp = io.StringIO()
    ccsds.dump(obj, fp, **kw)
    return fp.getvalue()


def door_loads(text, filedoor):
    if not filedoor:
        return ccsds.loads(text)
    import io
    return ccsds.load(io.StringIO(text))


def main(inp, outp):
    with open(inp) as fh:
        job = json.load(fh)
    res = {"evaluations": 0, "traces": 0, "clauses": {}, "violations": [], "samples": [], "nontrivial": []}

    def clause(name, ok, key, what, data):
        c = res["clauses"].setdefault(name, {"checked": 0, "failed": 0})
        c["checked"] += 1
        if not ok:
            c["failed"] += 1
            if sum(1 for v in res["violations"] if v["key"] == key) < 3:
                res["violations"].append({"key": key, "what": what, "data": data})

    import re

    def norm(p):
        return re.sub(r"\d+\.", "", p)
    for ci, case in enumerate(job["cases"]):
        cfg, path = case["cfg"], case["path"]
        t = cfg["type"]
        # every third case goes through the file-object doors (dump / load), another third mixes them
        fd1, fd2 = ci % 3 == 1, ci % 3 in (1, 2)
        data = {"cfg": cfg, "path": path, "file_object_doors": [fd1, fd2],
                "how": "harness/ccsds_replay.py build(cfg); ccsds.dumps(obj, fmt=f1) [or dump(obj, fp)] -> loads [load(fp)] -> dumps(fmt=f2) -> loads"}
        config["io"] = {}
        try:
            obj = build(cfg)
            want = project(obj, t)
        except Exception as e:
            clause("the object of the configuration can be built", False, f"ccsds/{t}-build", f"{type(e).__name__}: {e} for {cfg}", data)
            continue
        res["evaluations"] += 1
        res["traces"] += 1
        # one case in five names the object through the keyword arguments of the writer (name=, cospar_id=), which take precedence
        # over the attributes the object carries (set to decoys here); a single ephemeris or state only
        idkw = {}
        if ci % 5 == 4 and t in ("opm", "oem", "omm") and not isinstance(obj, (list, tuple)):
            idkw = {"name": getattr(obj, "name", None), "cospar_id": getattr(obj, "cospar_id", None)}
            try:
                if None in idkw.values():
                    raise ValueError("no identification on the object")
                obj.name, obj.cospar_id = "DECOY", "1999-999Z"
                data["identification"] = "name= / cospar_id= keyword arguments (decoy attributes on the object)"
            except Exception:
                idkw = {}
        try:
            if path["src"] == "config":
                config["io"] = {"ccsds_default_format": path["f1"]}
                txt1 = door_dumps(obj, fd1, **idkw)
                config["io"] = {}
            else:
                txt1 = door_dumps(obj, fd1, fmt=path["f1"], **idkw)
            isxml = txt1.lstrip().startswith("<")
            clause("the encoding follows the fmt argument / the configured default", isxml == (path["f1"] == "xml"), f"ccsds/{t}-format",
                   f"asked {path['f1']} via {path['src']}, got {'xml' if isxml else 'kvn'}", data)
            back1 = door_loads(txt1, fd2)
        except Exception as e:
            clause("dumps then loads completes", False, f"ccsds/{t}-{path['f1']}-raises[{type(e).__name__}]", f"{type(e).__name__}: {e} for {cfg} {path}", data)
            continue
        d1 = diff(want, project(back1, t))
        for p in sorted(set(norm(x) for x in d1)) or [None]:
            clause("loads(dumps(x)) restores the same content (epochs to the us in the same scale, frame, name/id, coordinates to mm, covariance "
                   "values and frame, maneuvers, interpolation settings, user-defined fields)", p is None,
                   f"ccsds/{t}-{path['f1']}:{p}", f"{t} {path['f1']}: field {p} not restored ({[x for x in d1 if norm(x) == p][:3]}) for {cfg}", data)
        try:
            txt2 = door_dumps(back1, fd2, fmt=path["f2"])
            back2 = door_loads(txt2, fd1)
        except Exception as e:
            clause("anything that was read can be written again and read back", False, f"ccsds/{t}-redump-{path['f2']}-raises[{type(e).__name__}]",
                   f"{type(e).__name__}: {e} for {cfg} {path}", data)
            continue
        d2 = diff(project(back1, t), project(back2, t))
        for p in sorted(set(norm(x) for x in d2)) or [None]:
            clause("re-dumping what was read (same or other encoding) and reading it again gives the same content: KVN and XML decode to the same object",
                   p is None, f"ccsds/{t}-re{path['f2']}:{p}", f"{t} {path['f1']}->{path['f2']}: field {p} changed ({[x for x in d2 if norm(x) == p][:3]}) for {cfg}", data)
        res["nontrivial"].append(json.dumps([t, path["f1"], path["f2"], cfg["cov"], cfg["nman"], cfg["scale"], cfg["frame"]]))
        if len(res["samples"]) < 2:
            res["samples"].append({"cfg": cfg, "path": path, "text_head": txt1[:300]})
    res["nontrivial"] = sorted(set(res["nontrivial"]))[:500]
    with open(outp, "w") as fh:
        json.dump(res, fh)


if __name__ == "__main__":
    main(sys.argv[1], sys.argv[2])
