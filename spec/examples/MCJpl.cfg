INIT Init
NEXT Next
CONSTANTS
 Seg <- MC_Seg
INVARIANT TreeOK
INVARIANT Antisymmetric
INVARIANT Triangle
INVARIANT NonEmpty
CHECK_DEADLOCK FALSE
