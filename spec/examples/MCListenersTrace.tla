---- MODULE MCListenersTrace ----
EXTENDS ListenersTrace
MC_Samples == <<0, 8, 16, 24>>
MC_NL == 1
MC_MaxFlips == 0
MC_Passes == 1
====
