INIT Init
NEXT Next
CONSTANTS
 Lo <- MC_Lo
 Hi <- MC_Hi
 Steps <- MC_Steps
 Probe <- MC_Probe
INVARIANT IterInMembers
INVARIANT LenIsFormula
INVARIANT FirstLast
CHECK_DEADLOCK FALSE
