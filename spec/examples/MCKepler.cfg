SPECIFICATION Spec
CONSTANTS
 Primes <- MC_Primes
 Ks <- MC_Ks
 Ecc <- MC_Ecc
 Sin2 <- MC_Sin2
 Dts <- MC_Dts
 MaxSteps <- MC_MaxSteps
INVARIANT ElapsedIsSum
INVARIANT CriticalInclination
CHECK_DEADLOCK FALSE
