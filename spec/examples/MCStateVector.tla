---- MODULE MCStateVector ----
EXTENDS StateVector
MC_MaxH == 3
MC_MaxLen == 2
MC_Forms == {"cartesian", "keplerian", "keplerian_mean", "spherical"}
MC_Frames == {"EME2000", "ITRF", "TOD"}
====
