INIT Init
NEXT Next
CONSTANTS
 H <- MC_H
 N <- MC_N
 ImpTimes <- MC_ImpTimes
 BurnStarts <- MC_BurnStarts
 BurnDurs <- MC_BurnDurs
 MaxMans <- MC_MaxMans
INVARIANT ImplInWindow
CHECK_DEADLOCK FALSE
