INIT Init
NEXT Next
CONSTANTS
 Base <- MC_Base
 Corner <- MC_Corner
INVARIANT RoundTrip
INVARIANT WellFormed
CHECK_DEADLOCK FALSE
