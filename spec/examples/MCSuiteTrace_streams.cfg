INIT TInit
NEXT TNext
CONSTANTS
 Days <- MC_Days
 Sods <- MC_Sods
 EdgeSods <- MC_EdgeSods
 Deltas <- MC_Deltas
 MaxSteps <- MC_MaxSteps
INVARIANT Report
CHECK_DEADLOCK FALSE
