SPECIFICATION Spec
CONSTANTS
 Days <- MC_Days
 Sods <- MC_Sods
 EdgeSods <- MC_EdgeSods
 Deltas <- MC_Deltas
 MaxSteps <- MC_MaxSteps
CONSTRAINT InQuantifier
INVARIANT RdInverse
INVARIANT OffsetValues
PROPERTY UniformArithmetic
PROPERTY UtcArithmetic
PROPERTY RelabelKeepsInstant
CHECK_DEADLOCK FALSE
