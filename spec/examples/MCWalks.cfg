SPECIFICATION Spec
CONSTANTS
 Labels <- MC_Labels
 MaxLen <- MC_MaxLen
INVARIANT TokenInvariant
CHECK_DEADLOCK FALSE
