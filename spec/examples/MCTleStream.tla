---- MODULE MCTleStream ----
EXTENDS TleStream
MC_MaxLen == 4
====
