SPECIFICATION Spec
CONSTANTS
 Days <- MC_Days
 Sods <- MC_Sods
 EdgeSods <- MC_EdgeSods
 Deltas <- MC_Deltas
 MaxSteps <- MC_MaxSteps
CONSTRAINT InQuantifier
CONSTRAINT TableOnly
INVARIANT RdInverse
CHECK_DEADLOCK FALSE
