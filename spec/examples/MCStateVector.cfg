SPECIFICATION Spec
CONSTANTS
 MaxH <- MC_MaxH
 MaxLen <- MC_MaxLen
 Forms <- MC_Forms
 Frames <- MC_Frames
PROPERTY OthersUntouched
PROPERTY FailuresAreAtomic
PROPERTY CopiesEqualSource
CHECK_DEADLOCK FALSE
