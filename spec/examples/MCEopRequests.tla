---- MODULE MCEopRequests ----
EXTENDS Eop
MC_Names == {"a"}
MC_MaxSteps == 6
====
