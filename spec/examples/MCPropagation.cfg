SPECIFICATION Spec
CONSTANTS
 H <- MC_H
 ELo <- MC_ELo
 EHi <- MC_EHi
 EN <- MC_EN
 Order <- MC_Order
 Orbits <- MC_Orbits
 Starts <- MC_Starts
 Spans <- MC_Spans
 StepsOut <- MC_StepsOut
 PropTimes <- MC_PropTimes
 DateLists <- MC_DateLists
 MaxCalls <- MC_MaxCalls
INVARIANT ContractShape
CHECK_DEADLOCK FALSE
