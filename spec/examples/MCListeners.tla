---- MODULE MCListeners ----
EXTENDS Listeners
MC_Samples == <<0, 8, 16, 24>>
MC_NL == 1
MC_MaxFlips == 3
MC_Passes == 2
====
