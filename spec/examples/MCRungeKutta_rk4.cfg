INIT Init
NEXT Next
CONSTANTS
 Primes <- MC_Primes
 TA <- MC_TA
 TB <- MC_TB
 TBS <- MC_TBS
 TC <- MC_TC
 Order <- MC_Order
 OrderStar <- MC_OrderStar
 Problems <- MC_Problems
INVARIANT OrderConditions
INVARIANT NotHigherOrder
CHECK_DEADLOCK FALSE
