SPECIFICATION Spec
CONSTANTS
 PrivateFollows <- MC_PrivateFollows
 Rot <- MC_Rot
 Pos <- MC_Pos
 Vel <- MC_Vel
 C0 <- MC_C0
 Attach <- MC_Attach
 MaxHops <- MC_MaxHops
INVARIANT WellFormed
INVARIANT ModelMeetsContract
CHECK_DEADLOCK FALSE
