INIT TInit
NEXT TNext
CONSTANTS
 Samples <- MC_Samples
 NL <- MC_NL
 MaxFlips <- MC_MaxFlips
 Passes <- MC_Passes
INVARIANT Report
CHECK_DEADLOCK FALSE
