SPECIFICATION Spec
CONSTANTS
 Names <- MC_Names
 MaxSteps <- MC_MaxSteps
INVARIANT ValuesOnlyWhenCovered
CONSTRAINT RequestsOnly
CHECK_DEADLOCK FALSE
