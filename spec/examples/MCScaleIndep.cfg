SPECIFICATION Spec
CONSTANTS
 Ops <- MC_Ops
 Scales <- MC_Scales
PROPERTY ResultIgnoresLabels
CHECK_DEADLOCK FALSE
