---- MODULE MCNumMan ----
EXTENDS NumMan
MC_H == 60
MC_N == 10
MC_ImpTimes == {119, 300, 345, 60, 61, 90}
MC_BurnStarts == {120, 240}
MC_BurnDurs == {120, 60}
MC_MaxMans == 2
====
