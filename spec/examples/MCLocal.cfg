INIT Init
NEXT Next
CONSTANTS
 States <- MC_States
 Dvs <- MC_Dvs
 Others <- MC_Others
INVARIANT ProperRotations
INVARIANT MagnitudeKept
CHECK_DEADLOCK FALSE
