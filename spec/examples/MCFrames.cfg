INIT Init
NEXT Next
CONSTANTS
 NF <- MC_NF
 Palette <- MC_Palette
 Rates <- MC_Rates
 Offsets <- MC_Offsets
 State <- MC_State
INVARIANT PathIndependent
INVARIANT Invertible
INVARIANT EdgeInverse
INVARIANT ProperRotation
CHECK_DEADLOCK FALSE
