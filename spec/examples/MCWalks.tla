---- MODULE MCWalks ----
EXTENDS Walks
MC_Labels == {"cartesian", "cylindrical", "equinoctial", "keplerian", "keplerian_circular", "keplerian_eccentric", "keplerian_mean", "keplerian_mean_circular", "spherical", "tle"}
MC_MaxLen == 3
====
