---- MODULE MCInterleave ----
EXTENDS Interleave
MC_Ranges == {<<0, 6, 2>>, <<3, -3, 3>>}
MC_PropTimes == {1}
MC_MaxLen == 5
====
