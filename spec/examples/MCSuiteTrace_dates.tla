---- MODULE MCSuiteTrace_dates ----
EXTENDS SuiteTrace
MC_Days == {}
MC_Sods == {}
MC_EdgeSods == {}
MC_Deltas == {}
MC_MaxSteps == 0
====
