SPECIFICATION Spec
CONSTANTS
 Samples <- MC_Samples
 NL <- MC_NL
 MaxFlips <- MC_MaxFlips
 Passes <- MC_Passes
INVARIANT ContractOK
CHECK_DEADLOCK FALSE
