SPECIFICATION Spec
CONSTANTS
 Ranges <- MC_Ranges
 PropTimes <- MC_PropTimes
 MaxLen <- MC_MaxLen
INVARIANT Consistent
CHECK_DEADLOCK FALSE
