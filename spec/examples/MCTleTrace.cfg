INIT TInit
NEXT TNext
CONSTANTS
 Base <- MC_Base
 Corner <- MC_Corner
INVARIANT Report
CHECK_DEADLOCK FALSE
