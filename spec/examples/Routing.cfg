SPECIFICATION Spec
CONSTANTS
 N = 4
 MaxLinks = 3
 ForestOnly = TRUE
 SinglePass = FALSE
INVARIANT Symmetric
INVARIANT Valid
INVARIANT Unconnected
INVARIANT TreeUnique
INVARIANT StepsExact
INVARIANT IsForest
PROPERTY NbrsMonotone
CHECK_DEADLOCK FALSE
