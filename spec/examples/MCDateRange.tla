---- MODULE MCDateRange ----
EXTENDS DateRange
MC_Lo == -8
MC_Hi == 8
MC_Steps == {-2, -4, -6, 2, 4, 6}
MC_Probe == 20
====
