---- MODULE MCMission ----
EXTENDS Mission
MC_Grid == 300
MC_MaxT == 30
====
