INIT Init
NEXT Next
CONSTANTS
 Times <- MC_Times
 MaxMans <- MC_MaxMans
 Durations <- MC_Durations
INVARIANT PhiSolvesHill
INVARIANT GamSolvesHill
INVARIANT SemigroupOnLattice
INVARIANT ExactlyOnce
INVARIANT TimeAddsUp
CHECK_DEADLOCK FALSE
