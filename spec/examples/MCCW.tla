---- MODULE MCCW ----
EXTENDS CW
MC_Times == {0, 12, 2, 3, 5, 8}
MC_MaxMans == 2
MC_Durations == {2, 3}
ASSUME ExportTables
====
