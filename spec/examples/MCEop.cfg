SPECIFICATION Spec
CONSTANTS
 Names <- MC_Names
 MaxSteps <- MC_MaxSteps
INVARIANT ValuesOnlyWhenCovered
PROPERTY FailedIsSticky
CHECK_DEADLOCK FALSE
