INIT Init
NEXT Next
CONSTANTS
 Primes <- MC_Primes
 Ecc <- MC_Ecc
 Hs <- MC_Hs
 Incs <- MC_Incs
 Angs <- MC_Angs
 Nus <- MC_Nus
INVARIANT DefinitionsHold
CHECK_DEADLOCK FALSE
