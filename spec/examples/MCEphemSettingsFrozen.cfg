SPECIFICATION Spec
CONSTANTS
 Orders <- MC_Orders
 Queries <- MC_Queries
 MaxLen <- MC_MaxLen
 FreezeAtFirstUse <- MC_FreezeAtFirstUse
 Reprs <- MC_Reprs
INVARIANT UsesCurrentSettings
CHECK_DEADLOCK FALSE
