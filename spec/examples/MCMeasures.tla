---- MODULE MCMeasures ----
EXTENDS Measures
MC_StationTypes == {"Doppler", "Range"}
MC_PvtTypes == {"X"}
MC_Srcs == {"S1", "S2"}
MC_SigPaths == {<<"S1", "sat", "S1">>, <<"S1", "sat", "S2">>, <<"S2", "sat", "S2">>}
MC_Ticks == {0, 1}
MC_MultiIsUnion == FALSE
MC_PathNeedsPaths == FALSE
MC_MaxMeasures == 2
MC_MaxSets == 1
MC_MaxCalls == 0
====
