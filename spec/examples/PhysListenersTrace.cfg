INIT TInit
NEXT TNext
INVARIANT Report
CHECK_DEADLOCK FALSE
