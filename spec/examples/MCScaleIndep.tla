---- MODULE MCScaleIndep ----
EXTENDS ScaleIndep
MC_Ops == {"cw", "ephem", "events", "frame", "j2", "kepler", "keplernum", "moon", "none", "oem", "opm", "sgp4", "sgp4-newyear", "sgp4beta", "sun", "tle", "tle-newyear"}
MC_Scales == {"GPS", "TAI", "TDB", "TT", "UT1", "UTC"}
====
