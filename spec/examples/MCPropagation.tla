---- MODULE MCPropagation ----
EXTENDS Propagation
MC_H == 4
MC_ELo == -40
MC_EHi == 80
MC_EN == 4
MC_Order == 8
MC_Orbits == {1, 2}
MC_Starts == {-4, -9, 0, 3, 8}
MC_Spans == {-13, -8, 0, 12, 30, 37, 5}
MC_StepsOut == {2, 3, 4, 5}
MC_PropTimes == {-37, -4, 0, 26, 5}
MC_DateLists == {<<0, 4, 8>>, <<3, 1, 2>>, <<-8, -4, 12, 13>>, <<5>>}
MC_MaxCalls == 1
====
