INIT Init
NEXT Next
CONSTANTS
 Grids <- MC_Grids
 Orders <- MC_Orders
 Primes <- MC_Primes
INVARIANT SearchOK
INVARIANT WindowOK
INVARIANT LagrangeOK
CHECK_DEADLOCK FALSE
