INIT Init
NEXT Next
CONSTANTS
 Grid <- MC_Grid
 MaxT <- MC_MaxT
INVARIANT LtanInverse
INVARIANT WalkerOK
CHECK_DEADLOCK FALSE
