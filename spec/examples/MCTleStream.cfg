INIT Init
NEXT Next
CONSTANTS
 MaxLen <- MC_MaxLen
INVARIANT Sane
CHECK_DEADLOCK FALSE
