---- MODULE MCEphemSettingsFrozen ----
EXTENDS EphemSettings
MC_Orders == {11, 2, 6}
MC_Queries == {15, 3}
MC_MaxLen == 4
MC_FreezeAtFirstUse == TRUE
MC_Reprs == {<<"EME2000", "cartesian">>, <<"EME2000", "keplerian">>, <<"TOD", "cartesian">>, <<"ITRF", "spherical">>}
====
