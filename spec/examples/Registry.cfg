SPECIFICATION Spec
CONSTANTS
 MaxCreate = 2
 MaxObserve = 1
INVARIANT OrientForest
INVARIANT CentreForest
INVARIANT AllConnected
INVARIANT AllRouted
PROPERTY ChainsStable
CHECK_DEADLOCK FALSE
