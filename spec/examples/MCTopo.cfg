INIT Init
NEXT Next
CONSTANTS
 Primes <- MC_Primes
 Lats <- MC_Lats
 Lons <- MC_Lons
 Targets <- MC_Targets
 MaskTables <- MC_MaskTables
 Queries <- MC_Queries
INVARIANT AxesAgree
INVARIANT AxesOrthonormal
INVARIANT MaskBounded
CHECK_DEADLOCK FALSE
