INIT TInit
NEXT TNext
CONSTANTS
 N = 4
 MaxLinks = 0
 ForestOnly = FALSE
 SinglePass = FALSE
INVARIANT Report
CHECK_DEADLOCK FALSE
