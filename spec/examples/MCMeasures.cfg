SPECIFICATION Spec
CONSTANTS
 StationTypes <- MC_StationTypes
 PvtTypes <- MC_PvtTypes
 Srcs <- MC_Srcs
 SigPaths <- MC_SigPaths
 Ticks <- MC_Ticks
 MultiIsUnion <- MC_MultiIsUnion
 PathNeedsPaths <- MC_PathNeedsPaths
 MaxMeasures <- MC_MaxMeasures
 MaxSets <- MC_MaxSets
 MaxCalls <- MC_MaxCalls
INVARIANT FilterAgrees
INVARIANT SortIsStablePermutation
INVARIANT FilteredIsSubsequence
PROPERTY FilterKeepsReceiver
CHECK_DEADLOCK FALSE
