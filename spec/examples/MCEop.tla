---- MODULE MCEop ----
EXTENDS Eop
MC_Names == {"a", "b"}
MC_MaxSteps == 4
====
