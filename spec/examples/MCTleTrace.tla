---- MODULE MCTleTrace ----
EXTENDS TleTrace
MC_Base == [norad |-> 25544, desig |-> 1, dyy |-> 98, dlaunch |-> 67, eyy |-> 18, edoy |-> 124, efrac |-> 55610684, ndsgn |-> 1, nd |-> 1524, nddsgn |-> 1, nddmant |-> 0, nddesgn |-> -1, nddexp |-> 0, bssgn |-> 1, bsmant |-> 30197, bsesgn |-> -1, bsexp |-> 4, elnb |-> 999, incl |-> 516421, raan |-> 2362139, ecc |-> 3381, argp |-> 478509, ma |-> 476767, mm |-> 1554198229, rev |-> 11173]
MC_Corner == ("norad" :> {0} @@ "desig" :> {0} @@ "dyy" :> {0} @@ "dlaunch" :> {1} @@ "eyy" :> {0} @@ "edoy" :> {1} @@ "efrac" :> {0} @@ "ndsgn" :> {1} @@ "nd" :> {0} @@ "nddsgn" :> {1} @@ "nddmant" :> {0} @@ "nddesgn" :> {1} @@ "nddexp" :> {0} @@ "bssgn" :> {1} @@ "bsmant" :> {0} @@ "bsesgn" :> {1} @@ "bsexp" :> {0} @@ "elnb" :> {0} @@ "incl" :> {0} @@ "raan" :> {0} @@ "ecc" :> {0} @@ "argp" :> {0} @@ "ma" :> {0} @@ "mm" :> {1000000000} @@ "rev" :> {0})
====
