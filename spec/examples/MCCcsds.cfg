SPECIFICATION Spec
CONSTANTS
 Bases <- MC_Bases
 Dims <- MC_Dims
PROPERTY ContentPreserved
CONSTRAINT Sensible
CHECK_DEADLOCK FALSE
