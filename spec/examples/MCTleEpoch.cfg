INIT GInit
NEXT GNext
CONSTANTS
 Years <- MC_Years
 Doys <- MC_Doys
 Secs <- MC_Secs
 Uss <- MC_Uss
INVARIANT FracSane
CHECK_DEADLOCK FALSE
