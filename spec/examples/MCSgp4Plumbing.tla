---- MODULE MCSgp4Plumbing ----
EXTENDS Sgp4Plumbing
MC_Days == {}
MC_Sods == {}
MC_EdgeSods == {}
MC_Deltas == {}
MC_MaxSteps == 0
====
