-------------------------------- MODULE Dates --------------------------------
(***************************************************************************)
(* Time scales and date arithmetic of beyond.dates.date.Date.              *)
(*                                                                         *)
(* A time value is <<day, second, tick>> with tick = 0.1 microsecond       *)
(* (the printed resolution of UT1-UTC in the IERS files); 32-bit safe.     *)
(* The state of the model is ONE INSTANT (in TAI) together with the scale  *)
(* LABEL under which the user holds it.  Relabelling never changes the     *)
(* instant; arithmetic is performed on the clock reading of the label      *)
(* scale, as the library does.                                             *)
(*                                                                         *)
(* Offsets are the contract of property C03:                               *)
(*    TT-TAI = 32.184 s, TAI-GPS = 19 s, TAI-UTC and UT1-UTC as tabulated  *)
(*    by IERS for that day (module EopData, generated from the data files  *)
(*    by an independent reader), TDB-TT a periodic term < 1.7 ms (opaque). *)
(***************************************************************************)
EXTENDS Integers, Sequences, FiniteSets, TLC, EopData

CONSTANTS Days,        \* days (MJD) used for initial clock readings
          Sods,        \* seconds-of-day <<s, tick>> used for initial clock readings, any scale
          EdgeSods,    \* carry-boundary readings, used only with the exact scales
          Deltas,      \* timedeltas <<d, s, tick>> (normalised, d may be negative)
          MaxSteps

TPS == 10000000
AllScales   == {"UTC", "TAI", "TT", "GPS", "UT1", "TDB"}
ExactScales == {"UTC", "TAI", "TT", "GPS"}
Uniform     == {"TAI", "TT", "GPS"}

Norm(d, s, t) ==
  LET s2 == s + (t \div TPS)
  IN <<d + (s2 \div 86400), s2 % 86400, t % TPS>>
Add(x, y) == Norm(x[1] + y[1], x[2] + y[2], x[3] + y[3])
Neg(x)    == Norm(-x[1], -x[2], -x[3])
Sub(x, y) == Add(x, Neg(y))
Less(x, y) == \/ x[1] < y[1]
              \/ x[1] = y[1] /\ x[2] < y[2]
              \/ x[1] = y[1] /\ x[2] = y[2] /\ x[3] < y[3]
Cmp(x, y) == IF x = y THEN 0 ELSE IF Less(x, y) THEN -1 ELSE 1
AbsLeq(x, bound) == ~Less(bound, x) /\ ~Less(x, Neg(bound))   \* |x| <= bound

\* TAI-UTC on a day: the last step at or before it
TaiUtc(day) ==
  LET idx == {i \in 1..Len(TaiUtcSteps) : TaiUtcSteps[i][1] <= day}
      last == CHOOSE i \in idx : \A j \in idx : j <= i
  IN TaiUtcSteps[last][2]
LeapDays == {TaiUtcSteps[i][1] : i \in 2..Len(TaiUtcSteps)}
Ut1Utc(day) == Ut1UtcTable[day]

\* TAI minus <scale>, on the day of the clock reading (the library looks EOP up at the label-scale MJD)
OffToTai(lab, day) ==
  CASE lab = "TAI" -> <<0, 0, 0>>
    [] lab = "UTC" -> <<0, TaiUtc(day), 0>>
    [] lab = "GPS" -> <<0, 19, 0>>
    [] lab = "TT"  -> Neg(<<0, 32, 1840000>>)
    [] lab = "TDB" -> Neg(<<0, 32, 1840000>>)     \* nominal; the periodic term is bounded, see TdbBound
    [] lab = "UT1" -> Sub(<<0, TaiUtc(day), 0>>, Norm(0, 0, Ut1Utc(day)))
TdbBound == <<0, 0, 17000>>                       \* 1.7 ms

Inst(rd, lab) == Add(rd, OffToTai(lab, rd[1]))
Rd(inst, lab) ==
  LET r0 == Sub(inst, OffToTai(lab, inst[1]))
  IN Sub(inst, OffToTai(lab, r0[1]))

\* the documented exclusion: within 2 minutes of a leap second nothing is promised
NearLeap(inst) ==
  \E L \in LeapDays :
     LET leapInstant == <<L, TaiUtc(L), 0>>       \* TAI reading of 00:00:00 UTC on the leap day
     IN AbsLeq(Sub(inst, leapInstant), <<0, 180, 0>>)
\* UT1-UTC is tabulated per day: nothing is promised across a day boundary of any scale
NearMidnight(inst) == inst[2] < 200 \/ inst[2] > 86200

VARIABLES inst,   \* the instant, TAI
          lab,    \* current scale label
          lab0, rd0,  \* how the behaviour started: Date(rd0, scale = lab0)
          hist,   \* actions so far: <<"scale", name>> or <<"plus", delta>>
          rd      \* the clock reading the user sees now: Rd(inst, lab) (exported for the replay)

vars == <<inst, lab, lab0, rd0, hist, rd>>

Init ==
  /\ lab0 \in AllScales
  /\ \E day \in Days :
       \/ \E sod \in Sods : rd0 = <<day, sod[1], sod[2]>>
       \/ lab0 \in ExactScales /\ \E sod \in EdgeSods : rd0 = <<day, sod[1], sod[2]>>
  /\ lab = lab0
  /\ inst = Inst(rd0, lab0)
  /\ hist = <<>>
  /\ rd = rd0

\* reading-level exclusions: an edge reading only with exact scales all along
EdgeStart == rd0[2] < 200 \/ rd0[2] > 86200

Relabel(new) ==
  /\ Len(hist) < MaxSteps
  /\ new # lab
  /\ EdgeStart => new \in ExactScales
  /\ lab' = new
  /\ inst' = inst
  /\ rd' = Rd(inst, new)
  /\ hist' = Append(hist, <<"scale", new>>)
  /\ UNCHANGED <<lab0, rd0>>

\* d + timedelta: performed on the clock reading of the label scale
Plus(dt) ==
  /\ Len(hist) < MaxSteps
  /\ \A k \in {-1, 0, 1} : Add(rd, dt)[1] + k \in DOMAIN Ut1UtcTable
  /\ rd' = Add(rd, dt)
  /\ inst' = Inst(Add(rd, dt), lab)
  /\ hist' = Append(hist, <<"plus", dt>>)
  /\ UNCHANGED <<lab, lab0, rd0>>

Next == (\E new \in AllScales : Relabel(new)) \/ (\E dt \in Deltas : Plus(dt))

Spec == Init /\ [][Next]_vars

\* states the property speaks about (CONSTRAINT): outside leap windows; UT1/TDB away from day boundaries
InQuantifier ==
  /\ ~NearLeap(inst)
  /\ (lab \in {"UT1", "TDB"} \/ lab0 \in {"UT1", "TDB"}) => ~NearMidnight(inst) /\ ~NearMidnight(Rd(inst, lab))
  /\ inst[1] - 1 \in DOMAIN Ut1UtcTable /\ inst[1] + 1 \in DOMAIN Ut1UtcTable /\ inst[1] \in DOMAIN Ut1UtcTable

-----------------------------------------------------------------------------
(* Spec-level checks (validate the model itself) *)

\* the clock reading of an instant is well defined: converting it back gives the instant
RdInverse == Inst(Rd(inst, lab), lab) = inst /\ rd = Rd(inst, lab)
\* offsets are antisymmetric/transitive by construction; exact values
OffsetValues ==
  /\ Sub(OffToTai("TAI", 0), OffToTai("TT", 0)) = <<0, 32, 1840000>>
  /\ OffToTai("GPS", 0) = <<0, 19, 0>>
  /\ \A d \in Days : OffToTai("UTC", d) = <<0, TaiUtc(d), 0>> /\ TaiUtc(d) \in 10..37
\* (d + t) - d = t in the uniform scales: the instant advances by exactly the timedelta
UniformArithmetic ==
  [][\A dt \in Deltas : (lab \in Uniform /\ hist' = Append(hist, <<"plus", dt>>)) => inst' = Add(inst, dt)]_vars
\* in UTC the same holds when TAI-UTC is the same before and after
UtcArithmetic ==
  [][\A dt \in Deltas :
        (lab = "UTC" /\ hist' = Append(hist, <<"plus", dt>>)
         /\ TaiUtc(Rd(inst, lab)[1]) = TaiUtc(Rd(inst', lab)[1])) => inst' = Add(inst, dt)]_vars
RelabelKeepsInstant ==
  [][\A s \in AllScales : hist' = Append(hist, <<"scale", s>>) => inst' = inst]_vars
=============================================================================
