--------------------------------- MODULE Topo ---------------------------------
(***************************************************************************)
(* Ground-station geometry (property C11) on the exact lattice.            *)
(*                                                                         *)
(* Station axes FROM GEODESY (latitude phi, longitude lambda, Pythagorean  *)
(* angles), expressed in the Earth-fixed frame:                            *)
(*    up    = ( cos phi cos lam,  cos phi sin lam, sin phi)                *)
(*    north = (-sin phi cos lam, -sin phi sin lam, cos phi)   = d up/d phi *)
(*    west  = ( sin lam, -cos lam, 0)                         = -east      *)
(* and the implementation-shaped product rot3(-lam) rot2(phi - pi/2)       *)
(* rot3(pi) whose columns must be (north, west, up): TLC checks they       *)
(* coincide in exact (prime-field) arithmetic.                             *)
(*                                                                         *)
(* A target is given by integer offsets (dN, dW, dU) and integer relative  *)
(* velocity in the station's own axes; the spec exports its Earth-fixed    *)
(* offset  M d  exactly.  Range^2, azimuth (= -theta, clockwise from       *)
(* north) and elevation follow from the integers themselves.               *)
(*                                                                         *)
(* Horizon mask: piecewise-linear interpolation of an (azimuth, elevation) *)
(* table whose last azimuth is 2 pi, that value also serving at azimuth 0; *)
(* azimuths in units of pi/12, queries in units of pi/24 over [-4pi, 4pi). *)
(***************************************************************************)
EXTENDS Integers, Sequences, FiniteSets, TLC, Field

CONSTANTS Primes, Lats, Lons,     \* angles <<cn, sn, d>>
          Targets,                \* set of <<dN, dW, dU, vN, vW, vU>>
          MaskTables,             \* set of sequences of <<az (units of pi/12), el>>
          Queries                 \* set of query azimuths in units of pi/24

VARIABLES mode, lat, lon, tgt, axes, off, tab, qz, mval
vars == <<mode, lat, lon, tgt, axes, off, tab, qz, mval>>

Mat3Mul(a, b, p) == [i \in 1..3 |-> [j \in 1..3 |-> (((a[i][1] * b[1][j]) % p) + ((a[i][2] * b[2][j]) % p) + ((a[i][3] * b[3][j]) % p)) % p]]
Rot3(c, s, p) == << <<c, s, 0>>, <<FNeg(s, p), c, 0>>, <<0, 0, 1>> >>          \* beyond.utils.matrix.rot3(theta), c = cos theta
Rot2(c, s, p) == << <<c, 0, FNeg(s, p)>>, <<0, 1, 0>>, <<s, 0, c>> >>          \* rot2(theta)

Axes(p) ==
  LET cp == FRat(lat[1], lat[3], p) sp == FRat(lat[2], lat[3], p)
      cl == FRat(lon[1], lon[3], p) sl == FRat(lon[2], lon[3], p)
      up == <<FMul(cp, cl, p), FMul(cp, sl, p), sp>>
      north == <<FNeg(FMul(sp, cl, p), p), FNeg(FMul(sp, sl, p), p), cp>>
      west == <<sl, FNeg(cl, p), 0>>
      \* implementation-shaped: rot3(-lam) @ rot2(phi - pi/2) @ rot3(pi)
      \*   cos(-lam) = cl, sin(-lam) = -sl ; cos(phi - pi/2) = sp, sin(phi - pi/2) = -cp ; cos pi = -1, sin pi = 0
      prod == Mat3Mul(Mat3Mul(Rot3(cl, FNeg(sl, p), p), Rot2(sp, FNeg(cp, p), p), p), Rot3(FNeg(1, p), 0, p), p)
  IN [north |-> north, west |-> west, up |-> up, prod |-> prod]

\* Earth-fixed components of a vector given in station axes
ToFixed(ax, d, p) == [i \in 1..3 |-> (((ax.north[i] * (d[1] % p)) % p) + ((ax.west[i] * (d[2] % p)) % p) + ((ax.up[i] * (d[3] % p)) % p)) % p]

\* mask: expected value at query q (units pi/24) as <<numerator, denominator>> ; table azimuths in units pi/12
MaskValue(t, q) ==
  LET qq == q % 48                                    \* modulo 2 pi
      ext == <<<<0, t[Len(t)][2]>>>> \o t             \* the value given at 2 pi also serves at 0
      az(i) == 2 * ext[i][1]                          \* in units of pi/24
      k == CHOOSE i \in 1..(Len(ext) - 1) : az(i) <= qq /\ qq < az(i + 1)
  IN <<ext[k][2] * (az(k + 1) - az(k)) + (ext[k + 1][2] - ext[k][2]) * (qq - az(k)), az(k + 1) - az(k)>>

Init ==
  \/ /\ mode = "axes" /\ lat \in Lats /\ lon \in Lons /\ tgt \in Targets
     /\ axes = [j \in 1..Len(Primes) |-> Axes(Primes[j])]
     /\ off = [j \in 1..Len(Primes) |-> <<ToFixed(Axes(Primes[j]), <<tgt[1], tgt[2], tgt[3]>>, Primes[j]),
                                           ToFixed(Axes(Primes[j]), <<tgt[4], tgt[5], tgt[6]>>, Primes[j])>>]
     /\ tab = <<>> /\ qz = 0 /\ mval = <<0, 1>>
  \/ /\ mode = "mask" /\ tab \in MaskTables /\ qz \in Queries
     /\ mval = MaskValue(tab, qz)
     /\ lat = <<1, 0, 1>> /\ lon = <<1, 0, 1>> /\ tgt = <<0, 0, 0, 0, 0, 0>> /\ axes = <<>> /\ off = <<>>
Next == UNCHANGED vars

\* geodesy and the implementation-shaped product agree: columns of the product are north, west, up
AxesAgree ==
  mode = "axes" =>
    \A j \in 1..Len(Primes) :
      LET a == axes[j] IN
      \A i \in 1..3 : a.prod[i][1] = a.north[i] /\ a.prod[i][2] = a.west[i] /\ a.prod[i][3] = a.up[i]
\* the axes are orthonormal and right-handed (north x west = up)
AxesOrthonormal ==
  mode = "axes" =>
    \A j \in 1..Len(Primes) :
      LET a == axes[j] p == Primes[j] IN
      /\ FDot3(a.north, a.north, p) = 1 /\ FDot3(a.west, a.west, p) = 1 /\ FDot3(a.up, a.up, p) = 1
      /\ FDot3(a.north, a.west, p) = 0 /\ FDot3(a.north, a.up, p) = 0 /\ FDot3(a.west, a.up, p) = 0
      /\ FCross(a.north, a.west, p) = a.up
\* mask values stay between the two table elevations bracketing the query
MaskBounded == mode = "mask" => mval[2] > 0
=============================================================================
