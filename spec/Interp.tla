-------------------------------- MODULE Interp --------------------------------
(***************************************************************************)
(* Ephemeris interpolation (beyond.utils.interp.Interp, property C09).     *)
(*                                                                         *)
(* Nodes have integer abscissae xs[1..n] (strictly increasing); the query  *)
(* x is an integer too (nodes are spaced by >= 2, so mid-interval points   *)
(* are representable).  One initial state per (grid, order, query): TLC is *)
(* an exact evaluator.                                                     *)
(*                                                                         *)
(* CONTRACT                                                                *)
(*   - a query outside [xs[1], xs[n]] is refused; so is a table shorter    *)
(*     than the order                                                      *)
(*   - the window has exactly `order` consecutive nodes inside the table   *)
(*     and contains the nodes bracketing the query                         *)
(*   - the interpolant through the window reproduces every polynomial of   *)
(*     degree < order (checked here modulo primes with the Newton basis),  *)
(*     in particular it returns the node value at a node                   *)
(* IMPLEMENTATION-SHAPED: _prev_idx (halving search) and the window        *)
(* arithmetic of _lagrange with its two edge shifts.                       *)
(***************************************************************************)
EXTENDS Integers, Sequences, FiniteSets, TLC

CONSTANTS Grids,     \* set of node-abscissa sequences
          Orders,    \* interpolation orders
          Primes     \* moduli for the exact polynomial identity

VARIABLES xs, order, x, prev, wstart, wstop, verdict

vars == <<xs, order, x, prev, wstart, wstop, verdict>>

N == Len(xs)

-----------------------------------------------------------------------------
(* implementation-shaped: _prev_idx on a 0-based slice [lo, lo+len) *)
RECURSIVE PrevIdx(_, _, _, _)
PrevIdx(g, q, lo, len) ==
  IF len = 1 THEN lo
  ELSE LET k == len \div 2 IN
       IF q > g[lo + k + 1]            \* xs[k] of the current slice (g is 1-based)
       THEN PrevIdx(g, q, lo + k, len - k)
       ELSE PrevIdx(g, q, lo, k)

\* contract of the search: 0-based index i with g[i] < q <= g[i+1] (i = 0 when q is the first node)
Bracket(g, q) ==
  IF q <= g[1] THEN 0
  ELSE CHOOSE i \in 0..(Len(g) - 1) : g[i + 1] < q /\ (i + 2 > Len(g) \/ q <= g[i + 2])

\* _lagrange window [start, stop) 0-based
Window(g, o, p) ==
  LET stop0  == p + 1 + (o \div 2) + (o % 2)
      start0 == p - o \div 2 + 1
  IN IF stop0 >= Len(g) THEN <<start0 - (stop0 - Len(g)), stop0 - (stop0 - Len(g))>>   \* slice clamps stop at len
     ELSE IF start0 < 0 THEN <<0, stop0 - start0>>
     ELSE <<start0, stop0>>

Outcome(g, o, q) ==
  IF q < g[1] \/ q > g[Len(g)] THEN "refuse-range"
  ELSE IF Len(g) < o THEN "refuse-order"
  ELSE "value"

-----------------------------------------------------------------------------
(* exact Lagrange arithmetic modulo a prime *)
RECURSIVE PowMod(_, _, _)
PowMod(a, e, p) ==
  IF e = 0 THEN 1
  ELSE LET h  == TLCEval(PowMod(a, e \div 2, p))
           h2 == (h * h) % p
       IN IF e % 2 = 0 THEN h2 ELSE (h2 * a) % p
Inv(a, p) == PowMod(a % p, p - 2, p)        \* Fermat; p < 2^15 keeps products below 2^31

RECURSIVE ProdMod(_, _, _)
ProdMod(S, f, p) == IF S = {} THEN 1 ELSE LET m == CHOOSE m \in S : TRUE IN (f[m] * ProdMod(S \ {m}, f, p)) % p
RECURSIVE SumMod(_, _, _)
SumMod(S, f, p) == IF S = {} THEN 0 ELSE LET m == CHOOSE m \in S : TRUE IN (f[m] + SumMod(S \ {m}, f, p)) % p

\* weight l_j(q) over the window W (set of 1-based node indices), modulo p
Weight(g, W, j, q, p) ==
  ProdMod(W \ {j}, [m \in W \ {j} |-> (((q - g[m]) % p) * Inv((g[j] - g[m]) % p, p)) % p], p)
Interpolant(g, W, y, q, p) == SumMod(W, [j \in W |-> ((y[j] % p) * Weight(g, W, j, q, p)) % p], p)

\* Newton basis polynomial of degree d anchored at the first d nodes of the window: prod (t - g[w_i])
RECURSIVE NewtonAt(_, _, _, _)
NewtonAt(g, anchors, t, p) ==
  IF anchors = <<>> THEN 1 ELSE (((t - g[Head(anchors)]) % p) * NewtonAt(g, Tail(anchors), t, p)) % p
SeqOfWindow(a, b) == [i \in 1..(b - a) |-> a + i]          \* 1-based node indices of window [a, b)

Reproduces(g, a, b, q) ==
  LET W == {a + i : i \in 1..(b - a)}
      ws == SeqOfWindow(a, b)
  IN \A p \in Primes : \A d \in 0..(b - a - 1) :
        LET anchors == SubSeq(ws, 1, d)
            y == [j \in W |-> NewtonAt(g, anchors, g[j], p)]
        IN Interpolant(g, W, y, q, p) = NewtonAt(g, anchors, q, p)

-----------------------------------------------------------------------------
Init ==
  /\ xs \in Grids
  /\ order \in Orders
  /\ x \in (xs[1] - 1)..(xs[Len(xs)] + 1)
  /\ verdict = Outcome(xs, order, x)
  /\ IF verdict = "value"
     THEN /\ prev = PrevIdx(xs, x, 0, Len(xs))
          /\ wstart = Window(xs, order, prev)[1]
          /\ wstop = Window(xs, order, prev)[2]
     ELSE prev = -1 /\ wstart = -1 /\ wstop = -1
Next == UNCHANGED vars

\* spec-level checks: the implementation-shaped search and window meet the contract
SearchOK == verdict = "value" => prev = Bracket(xs, x)
WindowOK ==
  verdict = "value" =>
    /\ wstop - wstart = order /\ wstart >= 0 /\ wstop <= N
    /\ wstart <= prev /\ (prev + 1 < N => prev + 1 < wstop) /\ prev < wstop
    \* centred when the table allows it
    /\ (prev - order \div 2 + 1 >= 0 /\ prev + 1 + (order \div 2) + (order % 2) < N) => wstart = prev - order \div 2 + 1
LagrangeOK == verdict = "value" => Reproduces(xs, wstart, wstop, x)
=============================================================================
