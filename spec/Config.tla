-------------------------------- MODULE Config --------------------------------
(***************************************************************************)
(* beyond.config.Config (beyond the listed properties; DESIGN.md section   *)
(* 5 item 4): a nested dictionary with path access.                        *)
(*                                                                         *)
(* The configuration is a prefix-closed set of paths (sequences of keys,   *)
(* at most Depth long), each holding "dict" or a leaf value.               *)
(*   Set(path, v)       creates the intermediate sections and stores v     *)
(*   Get(path, fb)      CONTRACT, from the doc-string ("retrieve a value,  *)
(*                      if the value is not available give the fallback"): *)
(*        - the value held at the path, a section being returned as the    *)
(*          section it is;                                                 *)
(*        - the fallback when some key of the path does not exist;         *)
(*        - a ConfigError ("dict structure mismatch") when the path runs   *)
(*          through a leaf.                                                *)
(* TLC enumerates the histories; harness/config_replay.py replays them on  *)
(* a real Config object and compares every Get.                            *)
(***************************************************************************)
EXTENDS Integers, Sequences, FiniteSets, TLC

CONSTANTS Keys, Leaves, Depth, MaxLen

VARIABLES tree,    \* function: path -> "dict" | leaf value   (domain = the paths that exist)
          hist     \* <<"set", path, v>> | <<"get", path, fallback, outcome>>

vars == <<tree, hist>>

Paths == UNION {[1..n -> Keys] : n \in 1..Depth}
Prefixes(p) == {SubSeq(p, 1, n) : n \in 1..(Len(p) - 1)}

Init == tree = [q \in {<<>>} |-> "dict"] /\ hist = <<>>          \* only the root section exists

Exists(p) == p \in DOMAIN tree
\* setting a value: the intermediate sections are created; what was below the path disappears
CanSet(p) == \A q \in Prefixes(p) : IF Exists(q) THEN tree[q] = "dict" ELSE TRUE        \* otherwise the path runs through a leaf
Set(p, v) ==
  /\ Len(hist) < MaxLen /\ CanSet(p)
  /\ LET keep == {q \in DOMAIN tree : ~(Len(q) > Len(p) /\ SubSeq(q, 1, Len(p)) = p)}
         dom  == keep \cup Prefixes(p) \cup {p} \cup {<<>>}
     IN tree' = [q \in dom |-> IF q = p THEN v ELSE IF q \in Prefixes(p) \/ q = <<>> THEN "dict" ELSE tree[q]]
  /\ hist' = Append(hist, <<"set", p, v>>)

\* CONTRACT of get
Outcome(p, fb) ==
  IF \E q \in Prefixes(p) : Exists(q) /\ tree[q] # "dict" THEN <<"error">>
  ELSE IF ~Exists(p) THEN <<"value", fb>>
  ELSE IF tree[p] = "dict" THEN <<"section", p>>
  ELSE <<"value", tree[p]>>
Get(p, fb) ==
  /\ Len(hist) < MaxLen
  /\ hist' = Append(hist, <<"get", p, fb, Outcome(p, fb)>>)
  /\ UNCHANGED tree

Next == \E p \in Paths : (\E v \in Leaves : Set(p, v)) \/ (\E fb \in Leaves \cup {"none"} : Get(p, fb))
Spec == Init /\ [][Next]_vars

PrefixClosed == \A p \in DOMAIN tree : \A q \in Prefixes(p) : Exists(q) /\ tree[q] = "dict"
GetIsPure == [][hist' # hist /\ hist'[Len(hist')][1] = "get" => tree' = tree]_vars
=============================================================================
