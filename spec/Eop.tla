--------------------------------- MODULE Eop ---------------------------------
(***************************************************************************)
(* beyond.dates.eop.EopDb: registry of Earth-orientation databases, lazy    *)
(* instantiation with a cached failure, and the documented policy for      *)
(* dates the tables do not cover (property C03):                            *)
(*   "pass"    -> zero corrections silently                                 *)
(*   "warning" -> zero corrections and a warning                            *)
(*   "error"   -> an exception                                              *)
(***************************************************************************)
EXTENDS Naturals, Sequences, TLC

CONSTANTS Names, MaxSteps

VARIABLES dbs,      \* name -> "none" | "class_ok" | "class_bad" | "inst" | "failed"
          policy,   \* config eop.missing_policy
          dbname,   \* config eop.dbname
          hist,     \* actions so far
          outcome,  \* result of the last Get: "values" | "zeros" | "zeros+warn" | "raise" | "-"
          db0       \* initial eop.dbname (needed to replay a behaviour)

vars == <<dbs, policy, dbname, hist, outcome, db0>>

Init ==
  /\ dbs = [n \in Names |-> "none"]
  /\ policy = "pass"
  /\ dbname \in Names
  /\ db0 = dbname
  /\ hist = <<>>
  /\ outcome = "-"

\* registering under a taken name is skipped (with a warning), the first registration stays
Register(n, kind) ==
  /\ dbs' = [dbs EXCEPT ![n] = IF @ = "none" THEN kind ELSE @]
  /\ hist' = Append(hist, <<"register", n, kind>>)
  /\ outcome' = "-"
  /\ UNCHANGED <<policy, dbname, db0>>

SetPolicy(p) ==
  /\ p # policy
  /\ policy' = p
  /\ hist' = Append(hist, <<"policy", p, "-">>)
  /\ outcome' = "-"
  /\ UNCHANGED <<dbs, dbname, db0>>

SetDb(n) ==
  /\ n # dbname
  /\ dbname' = n
  /\ hist' = Append(hist, <<"dbname", n, "-">>)
  /\ outcome' = "-"
  /\ UNCHANGED <<dbs, policy, db0>>

\* EopDb.get(mjd): covered says whether the selected database has the day
Get(covered) ==
  LET st == dbs[dbname]
      st2 == IF st = "class_ok" THEN "inst" ELSE IF st = "class_bad" THEN "failed" ELSE st
      available == st2 = "inst" /\ covered
  IN /\ dbs' = [dbs EXCEPT ![dbname] = st2]
     /\ outcome' = IF available THEN "values"
                   ELSE CASE policy = "pass" -> "zeros"
                          [] policy = "warning" -> "zeros+warn"
                          [] policy = "error" -> "raise"
     /\ hist' = Append(hist, <<"get", IF covered THEN "covered" ELSE "missing", "-">>)
     /\ UNCHANGED <<policy, dbname, db0>>

Next ==
  /\ Len(hist) < MaxSteps
  /\ \/ \E n \in Names, k \in {"class_ok", "class_bad"} : Register(n, k)
     \/ \E p \in {"pass", "warning", "error"} : SetPolicy(p)
     \/ \E n \in Names : SetDb(n)
     \/ \E c \in BOOLEAN : Get(c)

Spec == Init /\ [][Next]_vars

\* CONSTRAINT for the deep runs on one database: register it first, then only requests and policy changes
RequestsOnly ==
  /\ Len(hist) >= 1 => (hist[1][1] = "register" /\ hist[1][3] = "class_ok" /\ hist[1][2] = db0)
  /\ \A i \in 2..Len(hist) : hist[i][1] \in {"get", "policy"}

\* a failed instantiation is never retried and never becomes usable
FailedIsSticky == [][\A n \in Names : dbs[n] = "failed" => dbs'[n] = "failed"]_vars
\* values are only ever returned by an instantiated database that covers the day
ValuesOnlyWhenCovered == outcome = "values" => dbs[dbname] = "inst"
=============================================================================
