-------------------------------- MODULE Forms --------------------------------
(***************************************************************************)
(* Orbital element forms (property C01) on an exact rational lattice, in   *)
(* canonical units (mu = 1, unit length L0).                               *)
(*                                                                         *)
(* A lattice orbit is given by: eccentricity e with s = sqrt|1 - e^2|      *)
(* rational, angular momentum h rational (p = h^2), and inclination, node, *)
(* perigee and true anomaly as Pythagorean angles (rational cos and sin).  *)
(* From these the specification derives, by the TEXTBOOK DEFINITIONS and   *)
(* independently of the code: the cartesian state, and the defining        *)
(* quantities of every other form (eccentric / hyperbolic anomaly, e- and  *)
(* i-vectors, radius and angle rates, ...), plus the relations obeyed by   *)
(* the derived orbit quantities (vis-viva, energy, apsides, flight-path    *)
(* angle, ...).  All arithmetic is exact, in the prime fields of Field.tla.*)
(*                                                                         *)
(* TLC checks on the specification that the definitions are mutually       *)
(* consistent (angular momentum, node, eccentricity vector and energy      *)
(* computed FROM the cartesian state give back the elements), and exports  *)
(* every quantity as residues modulo three primes.                         *)
(***************************************************************************)
EXTENDS Integers, Sequences, FiniteSets, TLC, Field

CONSTANTS Primes,   \* sequence of three primes
          Ecc,      \* set of <<en, ed, sn, sd>> : e = en/ed, s = sqrt|1-e^2| = sn/sd
          Hs,       \* set of <<hn, hd>> : h = hn/hd
          Incs,     \* inclinations as <<cn, sn, d>> (cos = cn/d, sin = sn/d), sin > 0
          Angs,     \* angles for node / perigee
          Nus       \* true anomalies

VARIABLES ecc, hh, inc, node, peri, nu, q
vars == <<ecc, hh, inc, node, peri, nu, q>>

\* exact sign test (integers): 1 + e cos(nu) > 0, i.e. the anomaly exists on a hyperbola
Reachable(e, a) == e[2] * a[3] + e[1] * a[1] > 0

\* all quantities for one prime
Q(p) ==
  LET e  == FRat(ecc[1], ecc[2], p)
      s  == FRat(ecc[3], ecc[4], p)
      hyp == ecc[1] > ecc[2]
      h  == FRat(hh[1], hh[2], p)
      pp == FMul(h, h, p)
      ci == FRat(inc[1], inc[3], p)   si == FRat(inc[2], inc[3], p)
      cO == FRat(node[1], node[3], p) sO == FRat(node[2], node[3], p)
      cw == FRat(peri[1], peri[3], p) sw == FRat(peri[2], peri[3], p)
      cn == FRat(nu[1], nu[3], p)     sn == FRat(nu[2], nu[3], p)
      one == 1
      den == FAdd(one, FMul(e, cn, p), p)                     \* 1 + e cos nu
      r  == FDiv(pp, den, p)
      \* argument of latitude u = w + nu
      cu == FSub(FMul(cw, cn, p), FMul(sw, sn, p), p)
      su == FAdd(FMul(sw, cn, p), FMul(cw, sn, p), p)
      \* unit vectors: radial P1 and transverse P2 in the inertial frame
      rx == FSub(FMul(cO, cu, p), FMul(FMul(sO, su, p), ci, p), p)
      ry == FAdd(FMul(sO, cu, p), FMul(FMul(cO, su, p), ci, p), p)
      rz == FMul(si, su, p)
      tx == FNeg(FAdd(FMul(cO, su, p), FMul(FMul(sO, cu, p), ci, p), p), p)
      ty == FAdd(FNeg(FMul(sO, su, p), p), FMul(FMul(cO, cu, p), ci, p), p)
      tz == FMul(si, cu, p)
      \* radial and transverse velocity: vr = (1/h) e sin nu ; vt = h / r   (mu = 1)
      vr == FDiv(FMul(e, sn, p), h, p)
      vt == FDiv(h, r, p)
      x == FMul(r, rx, p)  y == FMul(r, ry, p)  z == FMul(r, rz, p)
      vx == FAdd(FMul(vr, rx, p), FMul(vt, tx, p), p)
      vy == FAdd(FMul(vr, ry, p), FMul(vt, ty, p), p)
      vz == FAdd(FMul(vr, rz, p), FMul(vt, tz, p), p)
      \* semi-major axis a = p / (1 - e^2)  (negative on a hyperbola)
      a == FDiv(pp, FSub(one, FMul(e, e, p), p), p)
      \* eccentric (hyperbolic) anomaly: cos E (cosh H), sin E (sinh H)
      cE == FDiv(FAdd(e, cn, p), den, p)
      sE == FDiv(FMul(sn, s, p), den, p)
      \* equinoctial: tan(i/2) = sin i / (1 + cos i)
      thi == FDiv(si, FAdd(one, ci, p), p)
      cOw == FSub(FMul(cO, cw, p), FMul(sO, sw, p), p)
      sOw == FAdd(FMul(sO, cw, p), FMul(cO, sw, p), p)
      cl == FSub(FMul(cOw, cn, p), FMul(sOw, sn, p), p)
      sl == FAdd(FMul(sOw, cn, p), FMul(cOw, sn, p), p)
      rho2 == FAdd(FMul(x, x, p), FMul(y, y, p), p)
      rv == FAdd(FAdd(FMul(x, vx, p), FMul(y, vy, p), p), FMul(z, vz, p), p)
      v2 == FAdd(FAdd(FMul(vx, vx, p), FMul(vy, vy, p), p), FMul(vz, vz, p), p)
  IN [x |-> x, y |-> y, z |-> z, vx |-> vx, vy |-> vy, vz |-> vz,
      a |-> a, e |-> e, r |-> r,
      cE |-> cE, sE |-> sE,
      ex |-> FMul(e, cw, p), ey |-> FMul(e, sw, p), cu |-> cu, su |-> su,
      qex |-> FMul(e, cOw, p), qey |-> FMul(e, sOw, p), ix |-> FMul(thi, cO, p), iy |-> FMul(thi, sO, p), cl |-> cl, sl |-> sl,
      rdot |-> vr, sinphi |-> rz, rho2 |-> rho2,
      thetadot |-> FDiv(FSub(FMul(x, vy, p), FMul(y, vx, p), p), rho2, p),
      phinum |-> FSub(FMul(vz, rho2, p), FMul(z, FAdd(FMul(x, vx, p), FMul(y, vy, p), p), p), p),
      cylrr |-> FAdd(FMul(x, vx, p), FMul(y, vy, p), p),
      v2 |-> v2, rv |-> rv,
      n2 |-> FInv(FMul(FMul(a, a, p), a, p), p),                           \* n^2 = mu / |a|^3 (sign of a^3 handled by the harness)
      energy |-> FNeg(FInv(FMul(2, a, p), p), p),
      rp |-> FMul(a, FSub(one, e, p), p), ra |-> FMul(a, FAdd(one, e, p), p),
      tanfpa |-> FDiv(FMul(e, sn, p), den, p),
      dinf |-> FMul(a, s, p)]

Init ==
  /\ ecc \in Ecc /\ hh \in Hs /\ inc \in Incs /\ node \in Angs /\ peri \in Angs /\ nu \in Nus
  /\ Reachable(ecc, nu)
  /\ q = <<>>
Eval == q = <<>> /\ q' = [k \in 1..Len(Primes) |-> Q(Primes[k])] /\ UNCHANGED <<ecc, hh, inc, node, peri, nu>>
Next == Eval

-----------------------------------------------------------------------------
(* consistency of the textbook definitions, from the cartesian state (checked in every prime field) *)
FailingDefs(k) ==
      LET p == Primes[k]
          m == q[k]
          R == <<m.x, m.y, m.z>>
          V == <<m.vx, m.vy, m.vz>>
          Hv == FCross(R, V, p)
          h == FRat(hh[1], hh[2], p)
          ci == FRat(inc[1], inc[3], p)   si == FRat(inc[2], inc[3], p)
          cO == FRat(node[1], node[3], p) sO == FRat(node[2], node[3], p)
          cw == FRat(peri[1], peri[3], p) sw == FRat(peri[2], peri[3], p)
          \* eccentricity vector  e = v x h - r/|r|
          VH == FCross(V, Hv, p)
          Ev == <<FSub(VH[1], FDiv(m.x, m.r, p), p), FSub(VH[2], FDiv(m.y, m.r, p), p), FSub(VH[3], FDiv(m.z, m.r, p), p)>>
          Nd == <<cO, sO, 0>>                                   \* node direction
      IN UNION {IF FDot3(R, R, p) = FMul(m.r, m.r, p) THEN {} ELSE {"radius"},
                IF FDot3(Hv, Hv, p) = FMul(h, h, p) THEN {} ELSE {"hnorm"},
                IF Hv[3] = FMul(h, ci, p) THEN {} ELSE {"hz"},
                IF Hv[1] = FMul(FMul(h, si, p), sO, p) THEN {} ELSE {"hx"},
                IF Hv[2] = FNeg(FMul(FMul(h, si, p), cO, p), p) THEN {} ELSE {"hy"},
                IF FDot3(Ev, Ev, p) = FMul(m.e, m.e, p) THEN {} ELSE {"enorm"},
                IF FDot3(Ev, Nd, p) = FMul(m.e, cw, p) THEN {} ELSE {"enode"},
                IF Ev[3] = FMul(FMul(m.e, sw, p), si, p) THEN {} ELSE {"ez"},
                IF FSub(FMul(FInv(2, p), m.v2, p), FInv(m.r, p), p) = m.energy THEN {} ELSE {"visviva"},
                IF m.rv = FMul(m.r, m.rdot, p) THEN {} ELSE {"rdot"},
                IF (ecc[1] < ecc[2] => FAdd(FMul(m.cE, m.cE, p), FMul(m.sE, m.sE, p), p) = 1) THEN {} ELSE {"trig"},
                IF (ecc[1] > ecc[2] => FSub(FMul(m.cE, m.cE, p), FMul(m.sE, m.sE, p), p) = 1) THEN {} ELSE {"hyptrig"},
                IF m.r = FMul(m.a, FSub(1, FMul(m.e, m.cE, p), p), p) THEN {} ELSE {"kepler_r"}}
DefinitionsHold == q # <<>> => \A k \in 1..Len(Primes) : FailingDefs(k) = {}
WhichFail == q # <<>> => (\A k \in 1..Len(Primes) : FailingDefs(k) = {}) \/ PrintT(<<"VERIF", "defs", [k \in 1..Len(Primes) |-> FailingDefs(k)]>>)
=============================================================================
