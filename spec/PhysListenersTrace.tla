------------------------- MODULE PhysListenersTrace -------------------------
(***************************************************************************)
(* Trace validation of the PHYSICAL listeners of beyond (Node, Apside,     *)
(* Anomaly, Light umbra/penumbra, Terminator, Station signal / max / mask, *)
(* RadialVelocity) against the contract of property C10.                   *)
(*                                                                         *)
(* A trace is the output stream of one real iteration, recorded by         *)
(* harness/listeners_physical.py:                                          *)
(*   sample item  [k |-> "S", s, us, sg |-> <<sign of every listener's own *)
(*                 function at the sample>>, gd |-> <<its visibility guard *)
(*                 at the sample>>]                                        *)
(*   event item   [k |-> "E", s, us, l |-> listener index, lab |-> label,  *)
(*                 before, after |-> sign of the listener's function a few *)
(*                 microseconds before / after the event date]             *)
(* The trace machine consumes one item per step; `bad` accumulates the     *)
(* failing clauses (total verdict, printed at the end of the trace).       *)
(***************************************************************************)
EXTENDS Integers, Sequences, FiniteSets, TLC, Json, IOUtils

Data == JsonDeserialize(IOEnv.TRACE_FILE)
Traces == Data.traces

VARIABLES tr, i, lastS, seen, bad
vars == <<tr, i, lastS, seen, bad>>

None == [k |-> "none"]
Items == Traces[tr].items
Cls == Traces[tr].classes
NL == Len(Cls)

TLess(a, b) == a.s < b.s \/ (a.s = b.s /\ a.us < b.us)
TLeq(a, b) == ~TLess(b, a)

\* direction tables, written from the class doc-strings
LabelOK(c, lab, after) ==
  CASE c = "node"       -> lab = (IF after > 0 THEN "Asc Node" ELSE "Desc Node")
    [] c = "apside"     -> lab = (IF after > 0 THEN "Periapsis" ELSE "Apoapsis")
    [] c = "umbra"      -> lab = (IF after < 0 THEN "Umbra entry" ELSE "Umbra exit")
    [] c = "penumbra"   -> lab = (IF after < 0 THEN "Penumbra entry" ELSE "Penumbra exit")
    [] c = "terminator" -> lab = (IF after < 0 THEN "Night Terminator" ELSE "Day Terminator")
    [] c = "signal"     -> lab = (IF after > 0 THEN "AOS" ELSE "LOS")
    [] c = "mask"       -> lab = (IF after > 0 THEN "AOS" ELSE "LOS")
    [] c = "max"        -> lab = "MAX" /\ after < 0
    [] c = "radial"     -> lab = "Radial Velocity"
    [] c = "anomaly"    -> lab = "ok"          \* the harness compares the printed angle with the listener's value
    [] OTHER            -> FALSE

Count(l) == Cardinality({j \in 1..Len(seen) : seen[j].l = l})

\* clauses failing when sample S closes the interval opened by lastS
IntervalBad(S) ==
  IF lastS = None
  THEN (IF seen = <<>> THEN {} ELSE {<<"event-before-first-sample", i>>})
  ELSE
    UNION {
      LET decided == lastS.sg[l] # 0 /\ S.sg[l] # 0
          need == lastS.sg[l] # S.sg[l] /\ S.gd[l]
      IN IF ~decided THEN {}
         ELSE (IF need /\ Count(l) = 0 THEN {<<"missing-event", i, l>>} ELSE {})
              \cup (IF ~need /\ Count(l) > 0 THEN {<<"spurious-event", i, l>>} ELSE {})
              \cup (IF Count(l) > 1 THEN {<<"duplicate-event", i, l>>} ELSE {})
      : l \in 1..NL }
    \cup (IF \A j \in 1..Len(seen) : TLess(lastS, seen[j]) /\ TLeq(seen[j], S) THEN {} ELSE {<<"event-outside-interval", i>>})
    \cup (IF \A j \in 1..(Len(seen) - 1) : TLeq(seen[j], seen[j + 1]) THEN {} ELSE {<<"events-not-sorted", i>>})
    \cup (IF TLess(lastS, S) THEN {} ELSE {<<"samples-not-increasing", i>>})

EventBad(E) ==
  (IF E.before = 0 \/ E.after = 0 \/ E.before # E.after THEN {} ELSE {<<"not-sharp", i, E.l>>})   \* 0 = undecided
  \cup (IF E.after = 0 \/ LabelOK(Cls[E.l], E.lab, E.after) THEN {} ELSE {<<"label", i, E.l>>})

TInit == tr \in 1..Len(Traces) /\ i = 1 /\ lastS = None /\ seen = <<>> /\ bad = {}

Consume ==
  /\ i <= Len(Items)
  /\ LET it == Items[i] IN
       IF it.k = "S"
       THEN /\ bad' = bad \cup IntervalBad(it)
            /\ lastS' = it /\ seen' = <<>>
       ELSE /\ bad' = bad \cup EventBad(it)
            /\ seen' = Append(seen, it) /\ lastS' = lastS
  /\ i' = i + 1 /\ tr' = tr

TNext == Consume
TSpec == TInit /\ [][TNext]_vars

\* total verdict, printed once per trace when all items are consumed
Final == bad \cup (IF seen = <<>> THEN {} ELSE {<<"event-after-last-sample", i>>})
Report == (i = Len(Items) + 1 /\ Final # {}) => PrintT(<<"VERIF", tr, Final>>)
\* every line must be consumed (binding check: a trace that stops early is rejected by the POSTCONDITION of the cfg)
=============================================================================
