--------------------------- MODULE ListenersTrace ---------------------------
(***************************************************************************)
(* Trace validation for property C10: output streams recorded from the     *)
(* REAL Speaker machinery (AnalyticalPropagator.iter, Ephem.iter) driven   *)
(* with pattern listeners on the microsecond grid are judged with the      *)
(* contract operators of Listeners.tla.  Verdicts are total.               *)
(***************************************************************************)
EXTENDS Listeners, Json, IOUtils

Data == JsonDeserialize(IOEnv.TRACE_FILE)
Runs == Data.runs     \* each: [pat |-> <<[init, flips(seq)]>>, out |-> << <<t, l, dir>> >>]

VARIABLE r

PatOf(run) == [l \in 1..Len(run.pat) |-> [init |-> run.pat[l].init,
                                          flips |-> {run.pat[l].flips[i] : i \in 1..Len(run.pat[l].flips)}]]

Failing(run) ==
  LET o == run.out
      p == PatOf(run)
  IN (IF Ordered(o) THEN {} ELSE {"ordered"})
     \cup (IF Between(o) THEN {} ELSE {"between"})
     \cup (IF Sharp(o, p) THEN {} ELSE {"sharp"})
     \cup (IF Label(o, p) THEN {} ELSE {"label"})
     \cup (IF SoundComplete(o, p) THEN {} ELSE {"sound-complete"})
     \cup (IF Fresh(o) THEN {} ELSE {"fresh"})

TInit == r \in 1..Len(Runs) /\ pat = <<>> /\ prev = <<>> /\ k = 0 /\ pass = 0 /\ out = <<>>
TNext == UNCHANGED <<r, pat, prev, k, pass, out>>
Report == LET f == Failing(Runs[r]) IN IF f = {} THEN TRUE ELSE PrintT(<<"VERIF", r, f>>)
=============================================================================
