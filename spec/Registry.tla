------------------------------ MODULE Registry ------------------------------
(***************************************************************************)
(* Process-global frame registries of beyond.frames: the orientation graph *)
(* (orient.Orientation nodes), the centre graph (center.Center.node), and  *)
(* the creations that extend them at run time:                             *)
(*    create_station(name, ..., parent_frame)                              *)
(*    orbit2frame(name, ref_orbit, None | "QSW" | "TNW", parent)           *)
(*    Frame(name, orientation, centre)   a user-defined frame: an EXISTING *)
(*                        orientation and an EXISTING centre under a new   *)
(*                        name (no graph changes; the frame's name differs *)
(*                        from its orientation's - as for Moon / Mars)     *)
(*    jpl.create_frames() the centres of a planetary kernel                *)
(* interleaved with conversions between frames.  A station may stand on a  *)
(* built-in Earth-fixed frame, on a user-defined frame or on a frame       *)
(* attached to an orbit.                                                   *)
(*                                                                         *)
(* Both graphs are instances of the Routing model (same Node class).  The  *)
(* link sequences below are the ones the real constructors perform, in     *)
(* their order and orientation (station: centre  new+parent ; orientation  *)
(* parent+new then new+parent again).                                      *)
(*                                                                         *)
(* Contract (property C20, last sentence): a creation under a new name     *)
(* never changes the result of a conversion between frames that already    *)
(* existed; every frame is convertible into every other one.               *)
(***************************************************************************)
EXTENDS Naturals, Sequences, FiniteSets, TLC

CONSTANTS MaxCreate,   \* number of creations in a behaviour (stations and orbit frames: they add graph nodes)
          MaxObserve,  \* number of interleaved ObserveAll actions
          MaxUser,     \* number of user-defined frames
          WithJpl      \* may a planetary kernel be loaded during the session?

\* built-in orientation nodes 1..10 ; created orientations 11..(10+MaxCreate)
OrientNames == <<"ITRF", "PEF", "TOD", "MOD", "EME2000", "G50", "TEME", "TIRF", "CIRF", "GCRF">>
NBuiltO == 10
NO == NBuiltO + MaxCreate
\* centre nodes: 1 = Earth ; created centres 2..(1+MaxCreate) ; three centres of a planetary kernel (its Earth, its barycentre,
\* Mars) that jpl.create_frames() adds and links to the built-in Earth - at any moment of the session
NC == 1 + MaxCreate + 3
JE == NC - 2
JS == NC - 1
JM == NC

\* links of beyond/frames/orient.py in source order:  ITRF+PEF+TOD+MOD+EME2000+G50 ; TOD+TEME ; ITRF+TIRF+CIRF+GCRF
BuiltinOLinks == <<<<1, 2>>, <<2, 3>>, <<3, 4>>, <<4, 5>>, <<5, 6>>, <<3, 7>>, <<1, 8>>, <<8, 9>>, <<9, 10>>>>

VARIABLES onb, ort,   \* orientation graph (neighbour order, route tables)
          cnb, crt,   \* centre graph
          ohist,      \* unused history slot of the Routing instances
          frames,     \* sequence of frame records [kind, o, c, parent, ref]: index = frame id
          acts,       \* the behaviour so far (replayed on the real library)
          nobs

RO == INSTANCE Routing WITH N <- NO, MaxLinks <- 0, ForestOnly <- TRUE, SinglePass <- FALSE,
                            nbrs <- onb, routes <- ort, hist <- ohist
RC == INSTANCE Routing WITH N <- NC, MaxLinks <- 0, ForestOnly <- TRUE, SinglePass <- FALSE,
                            nbrs <- cnb, routes <- crt, hist <- ohist

vars == <<onb, ort, cnb, crt, ohist, frames, acts, nobs>>

\* built-in frames: one per built-in orientation, all centred on Earth
BuiltinFrames == [i \in 1..NBuiltO |-> [kind |-> "builtin", o |-> i, c |-> 1, parent |-> 0, ref |-> 0]]

LinkO(nb, rt, a, b) ==
  LET nb2 == TLCEval([nb EXCEPT ![a] = RO!AppendUnique(@, b), ![b] = RO!AppendUnique(@, a)])
  IN TLCEval(<<nb2, RO!Upd(nb2, rt, {}, a)[1]>>)
LinkC(nb, rt, a, b) ==
  LET nb2 == TLCEval([nb EXCEPT ![a] = RC!AppendUnique(@, b), ![b] = RC!AppendUnique(@, a)])
  IN TLCEval(<<nb2, RC!Upd(nb2, rt, {}, a)[1]>>)

RECURSIVE FoldO(_, _, _)
FoldO(nb, rt, links) ==
  IF links = <<>> THEN <<nb, rt>>
  ELSE LET r == TLCEval(LinkO(nb, rt, Head(links)[1], Head(links)[2])) IN FoldO(r[1], r[2], Tail(links))

Init ==
  LET e == TLCEval(FoldO([a \in 1..NO |-> <<>>], [a \in 1..NO |-> [b \in 1..NO |-> RO!NoRoute]], BuiltinOLinks))
  IN /\ onb = e[1] /\ ort = e[2]
     /\ cnb = [a \in 1..NC |-> <<>>]
     /\ crt = [a \in 1..NC |-> [b \in 1..NC |-> RC!NoRoute]]
     /\ ohist = <<>>
     /\ frames = BuiltinFrames
     /\ acts = <<>>
     /\ nobs = 0

NCreated == Cardinality({i \in 1..Len(frames) : frames[i].kind \in {"station", "orbit"}})
JplLoaded == \E i \in 1..Len(acts) : acts[i].op = "loadjpl"
NewO == NBuiltO + NCreated + 1
NewC == 1 + NCreated + 1

\* create_station(name, latlonalt, parent_frame = p): the parent must be a frame (any existing frame works in
\* the code; documented use: a planetocentric rotating frame).  Orientation: parent+new (constructor) then new+parent.
CreateStation(p) ==
  /\ NCreated < MaxCreate
  /\ LET c == TLCEval(LinkC(cnb, crt, NewC, frames[p].c))
         o1 == TLCEval(LinkO(onb, ort, frames[p].o, NewO))
         o2 == TLCEval(LinkO(o1[1], o1[2], NewO, frames[p].o))
     IN /\ cnb' = c[1] /\ crt' = c[2]
        /\ onb' = o2[1] /\ ort' = o2[2]
  /\ frames' = Append(frames, [kind |-> "station", o |-> NewO, c |-> NewC, parent |-> p, ref |-> 0])
  /\ acts' = Append(acts, [op |-> "station", parent |-> p, ref |-> 0, lof |-> "-"])
  /\ UNCHANGED <<ohist, nobs>>

\* create_station(name, latlonalt, parent_frame = p, equatorial = TRUE): the station's own centre, but the axes of EME2000 (no new
\* orientation node) - the frame in which right ascension / declination are measured from a site
CreateStationEq(p) ==
  /\ NCreated < MaxCreate
  /\ LET c == TLCEval(LinkC(cnb, crt, NewC, frames[p].c)) IN cnb' = c[1] /\ crt' = c[2]
  /\ frames' = Append(frames, [kind |-> "station", o |-> 5, c |-> NewC, parent |-> p, ref |-> 0])
  /\ acts' = Append(acts, [op |-> "station-eq", parent |-> p, ref |-> 0, lof |-> "-"])
  /\ UNCHANGED <<onb, ort, ohist, nobs>>

\* orbit2frame(name, ref_orbit given in frame r, orientation lof, parent = p)
\*   lof = "None": no new orientation node, the frame re-uses the orientation of r
\*   centre: new + centre(r)
CreateOrbitFrame(r, lof, p) ==
  /\ NCreated < MaxCreate
  /\ LET c == TLCEval(LinkC(cnb, crt, NewC, frames[r].c))
     IN /\ cnb' = c[1] /\ crt' = c[2]
  /\ IF lof = "None"
     THEN /\ UNCHANGED <<onb, ort>>
          /\ frames' = Append(frames, [kind |-> "orbit", o |-> frames[r].o, c |-> NewC, parent |-> p, ref |-> r])
     ELSE /\ LET o == TLCEval(LinkO(onb, ort, frames[p].o, NewO)) IN onb' = o[1] /\ ort' = o[2]
          /\ frames' = Append(frames, [kind |-> "orbit", o |-> NewO, c |-> NewC, parent |-> p, ref |-> r])
  /\ acts' = Append(acts, [op |-> "orbit", parent |-> p, ref |-> r, lof |-> lof])
  /\ UNCHANGED <<ohist, nobs>>

\* jpl.create_frames(): the kernel's centres are linked among themselves (target.add_link(centre)), then the built-in Earth
\* centre - with whatever already hangs from it - is attached to the kernel's Earth; two of the new frames are kept for observation
LoadJpl ==
  /\ WithJpl /\ ~JplLoaded
  /\ LET c1 == TLCEval(LinkC(cnb, crt, JM, JS))
         c2 == TLCEval(LinkC(c1[1], c1[2], JE, JS))
         c3 == TLCEval(LinkC(c2[1], c2[2], 1, JE))
     IN cnb' = c3[1] /\ crt' = c3[2]
  /\ frames' = frames \o << [kind |-> "jpl", o |-> 5, c |-> JM, parent |-> 0, ref |-> 0], [kind |-> "jpl", o |-> 5, c |-> JS, parent |-> 0, ref |-> 0] >>
  /\ acts' = Append(acts, [op |-> "loadjpl", parent |-> 0, ref |-> 0, lof |-> "-"])
  /\ UNCHANGED <<onb, ort, ohist, nobs>>

\* Frame(name, orientation of frame po, centre of frame pc): nothing is linked, the registry of frames grows
NUser == Cardinality({i \in 1..Len(frames) : frames[i].kind = "user"})
CreateUserFrame(po, pc) ==
  /\ NUser < MaxUser
  /\ frames' = Append(frames, [kind |-> "user", o |-> frames[po].o, c |-> frames[pc].c, parent |-> po, ref |-> pc])
  /\ acts' = Append(acts, [op |-> "user", parent |-> po, ref |-> pc, lof |-> "-"])
  /\ UNCHANGED <<onb, ort, cnb, crt, ohist, nobs>>

\* conversions of a fixed state between every ordered pair of existing frames (pure observation)
ObserveAll ==
  /\ nobs < MaxObserve
  /\ acts # <<>> => acts[Len(acts)].op # "observe"
  /\ nobs' = nobs + 1
  /\ acts' = Append(acts, [op |-> "observe", parent |-> 0, ref |-> 0, lof |-> "-"])
  /\ UNCHANGED <<onb, ort, cnb, crt, ohist, frames>>

\* which parents the replay can realise: stations on Earth-fixed built-in frames ; local orbital frames on
\* inertial built-in frames ; reference orbits expressed in any non-station frame or in a station frame
StationParents == {1, 2, 8}              \* ITRF, PEF, TIRF
    \cup {i \in (NBuiltO + 1)..Len(frames) : frames[i].kind = "user" \/ (frames[i].kind = "orbit" /\ frames[i].o <= NBuiltO)}
UserOrients == {1, 5}                    \* a user-defined frame re-uses ITRF or EME2000 axes ...
UserCentres == {1} \cup {i \in (NBuiltO + 1)..Len(frames) : frames[i].kind \in {"station", "jpl"}}     \* ... about Earth, a station or a planet
InertialParents == {5, 4, 3, 10}         \* EME2000, MOD, TOD, GCRF
RefFrames == {5, 1, 10} \cup {i \in (NBuiltO + 1)..Len(frames) : TRUE}

Next ==
  \/ \E p \in StationParents : CreateStation(p)
  \/ \E p \in {1, 2, 8} : CreateStationEq(p)
  \/ \E r \in RefFrames, lof \in {"None", "QSW", "TNW"}, p \in InertialParents : CreateOrbitFrame(r, lof, p)
  \/ \E po \in UserOrients, pc \in UserCentres : CreateUserFrame(po, pc)
  \/ ObserveAll
  \/ LoadJpl

Spec == Init /\ [][Next]_vars

-----------------------------------------------------------------------------
(* Contract at model level *)

UsedO == {frames[i].o : i \in 1..Len(frames)}
UsedC == {frames[i].c : i \in 1..Len(frames)}

\* both graphs stay forests with unique chains, so a conversion's chain is determined by the endpoints
OrientForest == RO!ForestP(onb) /\ RO!ShortestP(onb, ort) /\ RO!UnconnectedP(onb, ort)
CentreForest == RC!ForestP(cnb) /\ RC!ShortestP(cnb, crt) /\ RC!UnconnectedP(cnb, crt)

\* every frame is convertible into every other
AllConnected ==
  /\ \A a, b \in UsedO : RO!Connected(onb, a, b)
  /\ \A a, b \in UsedC : RC!Connected(cnb, a, b)
AllRouted ==
  /\ \A a, b \in UsedO : a # b => RO!WalkOK(onb, RO!Walk(ort, a, b), a, b)
  /\ \A a, b \in UsedC : a # b => RC!WalkOK(cnb, RC!Walk(crt, a, b), a, b)

\* a creation never changes the chain between frames that already existed
ChainsStable ==
  [][/\ \A a, b \in UsedO : a # b => RO!Walk(ort', a, b) = RO!Walk(ort, a, b)
     /\ \A a, b \in UsedC : a # b => RC!Walk(crt', a, b) = RC!Walk(crt, a, b)]_vars

=============================================================================
