--------------------------------- MODULE Ccsds ---------------------------------
(***************************************************************************)
(* CCSDS messages (property C13): the abstract CONTENT of an OPM / OEM /    *)
(* OMM / TDM and the round-trip machine                                    *)
(*      New --Dump(f1)--> Text --Load--> Obj --Dump(f2)--> Text --Load-->  *)
(* in which the content token never changes, whatever the encodings        *)
(* (KVN / XML) and wherever the default encoding comes from (argument or   *)
(* configuration).  A configuration is a record of independent dimensions; *)
(* TLC enumerates all PAIRS of deviations from a base configuration (and   *)
(* the four encoding paths); the harness builds the corresponding real     *)
(* object, drives ccsds.dumps / ccsds.loads along the path and compares    *)
(* the projected content after every Load.                                 *)
(***************************************************************************)
EXTENDS Naturals, Sequences, FiniteSets, TLC

CONSTANTS Bases,    \* set of base configurations (records): one per message family, so that pairs of deviations reach
                    \* e.g. "several covariances in different frames inside one ephemeris"
          Dims      \* dimension name -> set of alternative values

VARIABLES cfg, path, stage, token
vars == <<cfg, path, stage, token>>

Formats == {"kvn", "xml"}
\* path: first encoding, where it comes from, second encoding
Paths == [f1 : Formats, src : {"arg", "config"}, f2 : Formats]

Init ==
  /\ \E base \in Bases : \E a \in DOMAIN Dims, b \in DOMAIN Dims : \E va \in Dims[a], vb \in Dims[b] :
        cfg = [[base EXCEPT ![a] = va] EXCEPT ![b] = vb]
  /\ path \in Paths
  /\ stage = "new" /\ token = 0

Dump == stage \in {"new", "loaded"} /\ stage' = (IF stage = "new" THEN "text1" ELSE "text2") /\ UNCHANGED <<cfg, path, token>>
Load == stage \in {"text1", "text2"} /\ stage' = (IF stage = "text1" THEN "loaded" ELSE "reloaded") /\ UNCHANGED <<cfg, path, token>>
Next == Dump \/ Load
Spec == Init /\ [][Next]_vars

\* the contract: dumping and loading never change the content
ContentPreserved == [][token' = token]_vars
\* configurations that make sense (kept out of the explored space otherwise)
Sensible ==
  /\ cfg.type = "opm" \/ (cfg.nman = 0)                       \* only OPMs carry maneuvers
  /\ cfg.type \in {"opm", "omm"} \/ cfg.nud = 0               \* user-defined fields: OPM / OMM
  /\ cfg.type = "oem" \/ (cfg.npoints = 1 /\ cfg.nephem = 1 /\ cfg.interp = "lagrange8")
  /\ cfg.type # "tdm" \/ (cfg.cov = "none")
  /\ cfg.type = "tdm" \/ cfg.tdmpath = "one-way"
  /\ cfg.type = "tdm" \/ cfg.grown = "no"                    \* only measurement sets are grown in place between two dumps
  /\ cfg.type # "omm" \/ (cfg.frame = "TEME" /\ cfg.scale = "UTC")
  /\ cfg.type = "omm" \/ cfg.frame # "TEME" \/ TRUE
=============================================================================
