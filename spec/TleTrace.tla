------------------------------ MODULE TleTrace ------------------------------
(***************************************************************************)
(* Trace validation of the TLE reader on the texts the repository's own    *)
(* test-suite parses (recorded by harness/suite_plugin.py at the return of *)
(* Tle.__init__): the fields the library obtained must be the ones the     *)
(* column table of Tle.tla reads (Parse), and an accepted text must be     *)
(* Valid (lengths, line numbers, checksums).  Angles / rates are logged in *)
(* the printed unit (1e-4 deg, 1e-7, 1e-8 rev/day): +-1 for the rounding   *)
(* of the recorder.                                                        *)
(***************************************************************************)
EXTENDS Tle, Json, IOUtils

Data == JsonDeserialize(IOEnv.TRACE_FILE)
Ev == Data.events
VARIABLE k

Close(a, b, tol) == a - b <= tol /\ b - a <= tol
Verdict(e) ==
  LET p == Parse(e.l1, e.l2) IN
  (IF Valid(e.l1, e.l2) THEN {} ELSE {"accepted-invalid"})
  \cup (IF p.norad = e.norad THEN {} ELSE {"norad"})
  \cup (IF p.elnb = e.elnb THEN {} ELSE {"element-number"})
  \cup (IF p.rev = e.rev THEN {} ELSE {"revolutions"})
  \cup (IF Close(p.nd, e.nd, 1) /\ (p.nd = 0 \/ p.ndsgn = e.ndsgn) THEN {} ELSE {"ndot"})
  \cup (IF Close(p.incl, e.incl, 1) THEN {} ELSE {"inclination"})
  \cup (IF Close(p.raan, e.raan, 1) THEN {} ELSE {"raan"})
  \cup (IF Close(p.ecc, e.ecc, 1) THEN {} ELSE {"eccentricity"})
  \cup (IF Close(p.argp, e.argp, 1) THEN {} ELSE {"argp"})
  \cup (IF Close(p.ma, e.ma, 1) THEN {} ELSE {"mean-anomaly"})
  \cup (IF Close(p.mm, e.mm, 2) THEN {} ELSE {"mean-motion"})
  \cup (IF p.eyy = e.epoch[1] /\ p.edoy = e.epoch[2] /\ Close(p.efrac, e.epoch[3], 2) THEN {} ELSE {"epoch"})

TInit == k \in 1..Len(Ev) /\ fields = <<>> /\ l1 = <<>> /\ l2 = <<>>
TNext == UNCHANGED <<k, fields, l1, l2>>
Report == LET f == Verdict(Ev[k]) IN IF f = {} THEN TRUE ELSE PrintT(<<"VERIF", k, f>>)
=============================================================================
