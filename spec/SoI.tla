--------------------------------- MODULE SoI ---------------------------------
(***************************************************************************)
(* Sphere-of-influence propagators (beyond/propagators/soi.py), beyond the *)
(* listed properties (DESIGN.md section 5 item 3).                         *)
(*                                                                         *)
(* Time is a tick grid; the only thing the model knows about the           *)
(* trajectory is Inside[t]: is the spacecraft, at tick t, within the       *)
(* sphere of the alternate body?  (A pattern with a few crossings, like    *)
(* the sign patterns of Listeners.tla.)                                    *)
(*                                                                         *)
(* IMPLEMENTATION-SHAPED: _SoI._iter, one action per step of its loops -   *)
(*   OuterTest   while orb.date < stop:  current = soi                     *)
(*   InnerYield  for orb in super()._iter(start, stop, step): yield orb;   *)
(*               soi = _soi(orb); if soi != current: break                 *)
(*   InnerEnd    the inner generator is exhausted                          *)
(*   Switch      start = orb.date; self.orbit = orb   (sphere, frame, step)*)
(* with the two inner iterations of the library:                           *)
(*   Analytical  Date.range(start, stop, step, inclusive)                  *)
(*   Numerical   KeplerNum marching "while date < stop" on its own step    *)
(*               (the last point is the first one at or after stop)        *)
(*                                                                         *)
(* CONTRACT (what the iteration contract of property C08 would demand of   *)
(* these propagators too): strictly increasing dates, nothing beyond stop, *)
(* every point expressed in the frame of the sphere that contains it, and  *)
(* termination.  TLC shows which clauses the implementation-shaped model   *)
(* violates (they are named deviations, reproduced on the real classes by  *)
(* harness/soi_replay.py), and SoITrace.tla validates real streams against *)
(* this model's actions.                                                   *)
(***************************************************************************)
EXTENDS Integers, Sequences, FiniteSets, TLC

CONSTANTS Horizon,     \* ticks 0..Horizon carry an Inside value; beyond, the last value holds
          Stops,       \* requested stop ticks
          StepsC,      \* step (ticks) while in the central body's sphere
          StepsA,      \* step while in the alternate body's sphere (analytical: the same step is used for both)
          Numerical,   \* TRUE: SoINumerical (own step per sphere, marching inner loop); FALSE: SoIAnalytical
          MaxCross,    \* maximum number of sphere crossings in a pattern
          MaxOut,      \* bound on the recorded stream (safety runs); 0: the stream is not recorded (liveness runs)
          Patterns     \* set of Inside patterns explored: {} means "all with at most MaxCross crossings"

VARIABLES inside,   \* the pattern: sequence of BOOLEAN over ticks 0..Horizon (index t + 1)
          stop, stepC, stepA,
          pc,       \* "outer" | "inner" | "switch" | "done"
          start,    \* start of the inner iteration
          x,        \* next date of the inner iteration
          last,     \* date of the last orbit yielded (orb.date); initially the epoch 0
          cur, soi, \* spheres: "alt" | "central"
          active,   \* sphere the propagator is configured for (frame, step, attracting body)
          out,      \* stream yielded so far: <<t, frame>>
          ny        \* number of items yielded (kept when the stream itself is not)

vars == <<inside, stop, stepC, stepA, pc, start, x, last, cur, soi, active, out, ny>>

Sphere(t) == LET h == Len(inside) - 1 IN IF inside[(IF t > h THEN h ELSE t) + 1] THEN "alt" ELSE "central"
StepOf(a) == IF a = "alt" THEN stepA ELSE stepC

\* patterns with at most k crossings: constant pieces
RECURSIVE Pat(_, _, _)
Pat(t, v, k) ==      \* set of sequences over ticks t..Horizon starting with value v, at most k further crossings
  IF t > Horizon THEN {<<>>}
  ELSE {<<v>> \o s : s \in Pat(t + 1, v, k)} \cup (IF k > 0 /\ t > 0 THEN {<<~v>> \o s : s \in Pat(t + 1, ~v, k - 1)} ELSE {})
AllPatterns == IF Patterns # {} THEN Patterns ELSE Pat(0, TRUE, MaxCross) \cup Pat(0, FALSE, MaxCross)

Init ==
  /\ inside \in AllPatterns
  /\ stop \in Stops /\ stepC \in StepsC /\ stepA \in StepsA
  /\ (~Numerical => stepA = stepC)
  /\ pc = "outer" /\ start = 0 /\ x = 0 /\ last = 0
  /\ soi = Sphere(0) /\ cur = Sphere(0) /\ active = Sphere(0)       \* the orbit setter configured the propagator at the epoch
  /\ out = <<>> /\ ny = 0

Keep(item) == IF MaxOut = 0 THEN out ELSE Append(out, item)

OuterTest ==
  /\ pc = "outer"
  /\ IF last < stop
     THEN pc' = "inner" /\ cur' = soi /\ x' = start
     ELSE pc' = "done" /\ UNCHANGED <<cur, x>>
  /\ UNCHANGED <<inside, stop, stepC, stepA, start, last, soi, active, out, ny>>

\* does the inner iteration still have a date to yield?
InnerHas == IF Numerical THEN (x = start \/ x - StepOf(active) < stop)     \* marching: yields x while the previous one was < stop
            ELSE x <= stop                                                  \* inclusive range
InnerYield ==
  /\ pc = "inner" /\ InnerHas
  /\ out' = Keep(<<x, active>>) /\ ny' = (IF MaxOut = 0 THEN 0 ELSE ny + 1)       \* no counter in liveness runs: finite state space
  /\ last' = x
  /\ soi' = Sphere(x)
  /\ IF Sphere(x) # cur THEN pc' = "switch" /\ x' = x
     ELSE pc' = "inner" /\ x' = x + StepOf(active)
  /\ UNCHANGED <<inside, stop, stepC, stepA, start, cur, active>>

InnerEnd ==
  /\ pc = "inner" /\ ~InnerHas
  /\ pc' = "switch"
  /\ UNCHANGED <<inside, stop, stepC, stepA, start, x, last, cur, soi, active, out, ny>>

Switch ==
  /\ pc = "switch"
  /\ start' = last
  /\ active' = Sphere(last)            \* self.orbit = orb : the setter evaluates the sphere again and reconfigures
  /\ pc' = "outer"
  /\ UNCHANGED <<inside, stop, stepC, stepA, x, last, cur, soi, out, ny>>

Next == OuterTest \/ InnerYield \/ InnerEnd \/ Switch
Spec == Init /\ [][Next]_vars /\ WF_vars(Next)

Bounded == (MaxOut = 0 \/ Len(out) <= MaxOut) /\ ny <= 4 * (Horizon + 2)

-----------------------------------------------------------------------------
(* CONTRACT clauses, as invariants of the recorded stream *)
StrictlyIncreasing == \A i \in 1..(Len(out) - 1) : out[i][1] < out[i + 1][1]
NeverBack          == \A i \in 1..(Len(out) - 1) : out[i][1] <= out[i + 1][1]
NotBeyondStop      == \A i \in 1..Len(out) : out[i][1] <= stop
InOwnSphere        == \A i \in 1..Len(out) : out[i][2] = Sphere(out[i][1])
\* what the implementation does guarantee: a point is expressed in the frame of the sphere containing the PREVIOUS point
\* of its segment, and a transition point is yielded twice, first in the old frame then in the new one
LaggingSphere ==
  \A i \in 2..Len(out) :
     \/ out[i][2] = Sphere(out[i - 1][1])
     \/ out[i][1] = out[i - 1][1] /\ out[i][2] = Sphere(out[i][1])
Termination == <>(pc = "done")
\* when it stops, the whole request has been covered
Covered == pc = "done" => last >= stop
=============================================================================
