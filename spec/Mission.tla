--------------------------------- MODULE Mission ---------------------------------
(***************************************************************************)
(* Mission-design helpers (property C19), the parts that are exact modular *)
(* arithmetic.                                                             *)
(*                                                                         *)
(* LTAN: with angles measured in seconds of time (2 pi = 86400 s) the two  *)
(* conversions are affine maps modulo a day around the Sun's right         *)
(* ascension `sun` (mean or true - an opaque value here):                  *)
(*      ltan = (43200 + raan - sun) mod 86400                              *)
(*      raan = (ltan - 43200 + sun) mod 86400                              *)
(* TLC checks on a grid that they are inverse bijections and that noon     *)
(* (43200) is the local time of a node pointing at the Sun.                *)
(*                                                                         *)
(* Walker constellations t/p/f (p divides t, f < p): t members; plane i    *)
(* has node raan0 + i 2pi/p (Delta) or i pi/p (Star); satellite j of plane *)
(* i has phase 2 pi (j p + f i) / t.  TLC enumerates every triple up to a  *)
(* bound, checks membership count, distinctness, even spacing and the      *)
(* inter-plane phasing, and exports the fleet as integers.                 *)
(***************************************************************************)
EXTENDS Integers, Sequences, FiniteSets, TLC

CONSTANTS Grid,      \* grid step for the LTAN check, in seconds (divides 86400)
          MaxT       \* largest Walker total

Day == 86400
Ltan(raan, sun) == (43200 + raan - sun) % Day
Raan(ltan, sun) == (ltan - 43200 + sun) % Day
GridPts == {k * Grid : k \in 0..((Day \div Grid) - 1)}

VARIABLES mode, t, p, f, fleet, sun
vars == <<mode, t, p, f, fleet, sun>>

\* fleet of a Walker t/p/f : sequence over planes of sequences of phases, phase in units of 2 pi / t
Phase(i, j) == (j * p + f * i) % t
Fleet == [i \in 0..(p - 1) |-> [j \in 0..((t \div p) - 1) |-> Phase(i, j)]]

Init ==
  \/ /\ mode = "walker" /\ t \in 1..MaxT /\ p \in 1..MaxT /\ f \in 0..(MaxT - 1)
     /\ t % p = 0 /\ f < p
     /\ fleet = Fleet /\ sun = 0
  \/ /\ mode = "ltan" /\ sun \in GridPts /\ t = 0 /\ p = 0 /\ f = 0 /\ fleet = <<>>
Next == UNCHANGED vars

LtanInverse ==
  mode = "ltan" =>
    /\ \A r \in GridPts : Raan(Ltan(r, sun), sun) = r
    /\ \A l \in GridPts : Ltan(Raan(l, sun), sun) = l
    /\ Ltan(sun, sun) = 43200                                  \* a node pointing at the Sun has local time noon
    /\ \A r \in GridPts : Ltan((r + Grid) % Day, sun) = (Ltan(r, sun) + Grid) % Day      \* unit slope

WalkerOK ==
  mode = "walker" =>
    LET per == t \div p
        all == {<<i, fleet[i][j]>> : i \in 0..(p - 1), j \in 0..(per - 1)}
    IN /\ Cardinality(all) = t                                                       \* t distinct members
       /\ \A i \in 0..(p - 1) : \A j \in 0..(per - 2) : (fleet[i][j + 1] - fleet[i][j]) % t = p     \* even in-plane spacing 2pi/(t/p)
       /\ \A i \in 0..(p - 2) : (fleet[i + 1][0] - fleet[i][0]) % t = f % t          \* inter-plane phasing f 2pi/t
=============================================================================
