------------------------------ MODULE RungeKutta ------------------------------
(***************************************************************************)
(* Explicit Runge-Kutta methods of the numerical propagator (property C06).*)
(* The tableau (A, b, b*, c) is OBSERVED from the live class by the         *)
(* harness (each float recovered as the unique small rational within one   *)
(* ulp) and given to TLC as constants.  In exact (prime-field) arithmetic  *)
(* TLC checks the algebraic facts that imply convergence at the stated     *)
(* order for a smooth right-hand side:                                     *)
(*   - row sums  c_i = sum_j a_ij                                          *)
(*   - the rooted-tree order conditions up to order p for b (and up to     *)
(*     p-star for the embedded weights): 1, 1, 2, 4, 9 trees for orders 1..5 *)
(* and it EXECUTES one step of the generic method on linear test problems  *)
(*        x' = v ,  v' = kappa x + g0 + g1 t                               *)
(* exporting the exact result, which the real _make_step must reproduce    *)
(* (stage accumulation, use of c for the stage dates, h factors, weights). *)
(***************************************************************************)
EXTENDS Integers, Sequences, FiniteSets, TLC, Field

CONSTANTS Primes,
          TA,        \* sequence of rows, each a sequence of <<n, d>> (lower triangular part, row i has i-1 entries)
          TB, TBS,   \* weights b and embedded weights b* (TBS = <<>> when the method has none)
          TC,        \* nodes c
          Order, OrderStar,
          Problems   \* set of <<kappa, g0, g1, x0, v0, t0, h>> each a <<n, d>> rational

S == Len(TB)
VARIABLES prob, y1
vars == <<prob, y1>>

Rat(q, p) == FRat(q[1], q[2], p)
A(i, j, p) == IF j < i THEN Rat(TA[i][j], p) ELSE 0
B(w, i, p) == Rat(w[i], p)
C(i, p) == Rat(TC[i], p)

RECURSIVE SumF(_, _, _)
SumF(f, n, p) == IF n = 0 THEN 0 ELSE (f[n] + SumF(f, n - 1, p)) % p
\* vector helpers over the field
Ones == [i \in 1..S |-> 1]
Cv(p) == [i \in 1..S |-> C(i, p)]
Had(u, v, p) == [i \in 1..S |-> FMul(u[i], v[i], p)]
Av(v, p) == [i \in 1..S |-> SumF([j \in 1..S |-> FMul(A(i, j, p), v[j], p)], S, p)]
Bdot(w, v, p) == SumF([i \in 1..S |-> FMul(B(w, i, p), v[i], p)], S, p)

RowSums(p) == \A i \in 1..S : C(i, p) = SumF([j \in 1..S |-> A(i, j, p)], S, p)

\* rooted-tree order conditions: elementary weight = 1 / gamma(tree)
Cond(w, ord, p) ==
  LET c == Cv(p)
      c2 == Had(c, c, p)  c3 == Had(c2, c, p)  c4 == Had(c3, c, p)
      ac == Av(c, p)  ac2 == Av(c2, p)  ac3 == Av(c3, p)
      aac == Av(ac, p)  aac2 == Av(ac2, p)  aaac == Av(aac, p)
      cac == Had(c, ac, p)
  IN /\ (ord >= 1 => Bdot(w, Ones, p) = 1)
     /\ (ord >= 2 => Bdot(w, c, p) = FRat(1, 2, p))
     /\ (ord >= 3 => Bdot(w, c2, p) = FRat(1, 3, p) /\ Bdot(w, ac, p) = FRat(1, 6, p))
     /\ (ord >= 4 => /\ Bdot(w, c3, p) = FRat(1, 4, p) /\ Bdot(w, cac, p) = FRat(1, 8, p)
                     /\ Bdot(w, ac2, p) = FRat(1, 12, p) /\ Bdot(w, aac, p) = FRat(1, 24, p))
     /\ (ord >= 5 => /\ Bdot(w, c4, p) = FRat(1, 5, p) /\ Bdot(w, Had(c2, ac, p), p) = FRat(1, 10, p)
                     /\ Bdot(w, Had(c, ac2, p), p) = FRat(1, 15, p) /\ Bdot(w, Had(c, aac, p), p) = FRat(1, 30, p)
                     /\ Bdot(w, Had(ac, ac, p), p) = FRat(1, 20, p) /\ Bdot(w, ac3, p) = FRat(1, 20, p)
                     /\ Bdot(w, Av(cac, p), p) = FRat(1, 40, p) /\ Bdot(w, aac2, p) = FRat(1, 60, p)
                     /\ Bdot(w, aaac, p) = FRat(1, 120, p))

OrderConditions == \A k \in 1..Len(Primes) : RowSums(Primes[k]) /\ Cond(TB, Order, Primes[k])
                                             /\ (TBS # <<>> => Cond(TBS, OrderStar, Primes[k]))
\* the method is not of higher order than claimed (guards against a vacuous check): the next condition fails
NotHigherOrder == \E k \in 1..Len(Primes) : ~Cond(TB, Order + 1, Primes[k]) \/ Order >= 5

\* one step of the generic explicit method on  x' = v, v' = kappa x + g0 + g1 t
Step(pr, p) ==
  LET kap == Rat(pr[1], p) g0 == Rat(pr[2], p) g1 == Rat(pr[3], p)
      x0 == Rat(pr[4], p) v0 == Rat(pr[5], p) t0 == Rat(pr[6], p) h == Rat(pr[7], p)
      \* stages: K[i] = <<kx_i, kv_i>>
      K[i \in 1..S] ==
        LET xs == FAdd(x0, FMul(h, SumF([j \in 1..S |-> IF j < i THEN FMul(A(i, j, p), K[j][1], p) ELSE 0], S, p), p), p)
            vs == FAdd(v0, FMul(h, SumF([j \in 1..S |-> IF j < i THEN FMul(A(i, j, p), K[j][2], p) ELSE 0], S, p), p), p)
            ts == FAdd(t0, FMul(C(i, p), h, p), p)
        IN <<vs, FAdd(FAdd(FMul(kap, xs, p), g0, p), FMul(g1, ts, p), p)>>
  IN <<FAdd(x0, FMul(h, SumF([i \in 1..S |-> FMul(B(TB, i, p), K[i][1], p)], S, p), p), p),
       FAdd(v0, FMul(h, SumF([i \in 1..S |-> FMul(B(TB, i, p), K[i][2], p)], S, p), p), p)>>

Init == prob \in Problems /\ y1 = [k \in 1..Len(Primes) |-> Step(prob, Primes[k])]
Next == UNCHANGED vars
=============================================================================
