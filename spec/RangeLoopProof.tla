--------------------------- MODULE RangeLoopProof ---------------------------
(***************************************************************************)
(* Deductive part of RangeLoop.tla, checked by the TLA+ proof system       *)
(* (tlapm, SMT back end): for EVERY integer step S - not one run per       *)
(* constant as with Apalache - and every integer start / stop,             *)
(*    Initiation   Init => TInv                                            *)
(*    Consecution  TInv /\ [Next]_vars => TInv'                            *)
(*    Beyond       TInv => NeverBeyond     (no yielded date is beyond stop)*)
(* where TInv is RangeLoop!IndInv together with the types.  The remaining  *)
(* obligation, IndInv => (done => n = LenFormula), divides by the step: it *)
(* is outside what the SMT back end does with a symbolic divisor (tried:   *)
(* 1 of 30 obligations fails) and stays with Apalache, one constant step   *)
(* per run.  checks/c03.py runs tlapm on this module at every run.         *)
(***************************************************************************)
EXTENDS RangeLoop, TLAPS

ASSUME ConstTypes == S \in Int /\ Inc \in BOOLEAN

TypeOK == a \in Int /\ b \in Int /\ x \in Int /\ n \in Int /\ done \in BOOLEAN
TInv == TypeOK /\ IndInv

THEOREM Initiation == Init => TInv
  BY ConstTypes DEF Init, TInv, IndInv, TypeOK, Accepts, Continue, Sign

THEOREM Consecution == TInv /\ [Next]_vars => TInv'
<1> SUFFICES ASSUME TInv, [Next]_vars PROVE TInv'
  OBVIOUS
<1>1. CASE UNCHANGED vars
  BY <1>1 DEF TInv, IndInv, TypeOK, Accepts, Continue, Sign, vars
<1>2. CASE Next /\ ~done /\ Continue(x)
  <2>1. x' = x + S /\ n' = n + 1 /\ done' = FALSE /\ a' = a /\ b' = b
    BY <1>2 DEF Next
  <2>2. x' = a' + n' * S
    BY <2>1, ConstTypes DEF TInv, IndInv, TypeOK
  <2>3. x' - S = x
    BY <2>1, ConstTypes DEF TInv, IndInv, TypeOK
  <2> QED
    BY <1>2, <2>1, <2>2, <2>3, ConstTypes DEF TInv, IndInv, TypeOK, Accepts, Continue, Sign
<1>3. CASE Next /\ ~(~done /\ Continue(x))
  BY <1>3, ConstTypes DEF Next, TInv, IndInv, TypeOK, Accepts, Continue, Sign
<1> QED
  BY <1>1, <1>2, <1>3 DEF Next

THEOREM Beyond == TInv => NeverBeyond
  BY ConstTypes DEF TInv, IndInv, TypeOK, NeverBeyond, Continue
=============================================================================
