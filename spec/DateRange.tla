------------------------------ MODULE DateRange ------------------------------
(***************************************************************************)
(* beyond.dates.date.DateRange on an integer tick grid: iteration, length  *)
(* and membership for positive and negative steps, inclusive or not.       *)
(* Contract (property C03, last sentence; C08 uses Iter as the iteration   *)
(* contract of every propagator): the three views agree.                   *)
(* One initial state per (start, stop, step, inclusive): TLC is used as an *)
(* exact evaluator; every state is replayed on the real class.             *)
(***************************************************************************)
EXTENDS Integers, Sequences, FiniteSets, TLC

CONSTANTS Lo, Hi,      \* start, stop range over Lo..Hi
          Steps,       \* set of non-zero integer steps
          Probe        \* membership is probed on -Probe..Probe

VARIABLES start, stop, step, incl, seq, len, members

vars == <<start, stop, step, incl, seq, len, members>>

Sign(x) == IF x >= 0 THEN 1 ELSE -1
\* constructor accepts iff the step is non-zero and agrees with the direction (a zero span counts as forward)
Accepts(a, b, s) == s # 0 /\ Sign(b - a) = Sign(s)

\* iteration: first to last, inclusive of stop only if asked, never beyond stop
RECURSIVE IterFrom(_, _, _, _)
IterFrom(x, b, s, inc) ==
  IF (s > 0 /\ (x < b \/ (inc /\ x = b))) \/ (s < 0 /\ (x > b \/ (inc /\ x = b)))
  THEN <<x>> \o IterFrom(x + s, b, s, inc)
  ELSE <<>>
Iter(a, b, s, inc) == IterFrom(a, b, s, inc)

\* membership: every instant of the swept interval, closed at start, closed at stop iff inclusive
Member(x, a, b, s, inc) ==
  IF s > 0 THEN a <= x /\ (x < b \/ (inc /\ x = b))
           ELSE a >= x /\ (x > b \/ (inc /\ x = b))

\* implementation-shaped closed form used by __len__: ceil(dur / step) + (1 if inclusive and step divides dur)
CeilDiv(n, d) == IF d > 0 THEN (n + d - 1) \div d ELSE ((-n) + (-d) - 1) \div (-d)
LenFormula(a, b, s, inc) == CeilDiv(b - a, s) + (IF inc /\ (b - a) % (IF s > 0 THEN s ELSE -s) = 0 THEN 1 ELSE 0)

Init ==
  /\ start \in Lo..Hi /\ stop \in Lo..Hi /\ step \in Steps /\ incl \in BOOLEAN
  /\ Accepts(start, stop, step)
  /\ seq = Iter(start, stop, step, incl)
  /\ len = Len(seq)
  /\ members = {x \in (-Probe)..Probe : Member(x, start, stop, step, incl)}
Next == UNCHANGED vars

\* the three views agree (checked on the specification itself)
IterInMembers == \A i \in 1..Len(seq) : seq[i] \in members \/ seq[i] < -Probe \/ seq[i] > Probe
LenIsFormula == len = LenFormula(start, stop, step, incl)
FirstLast ==
  /\ seq # <<>> => seq[1] = start
  /\ \A i \in 1..Len(seq) : IF step > 0 THEN seq[i] <= stop ELSE seq[i] >= stop
  /\ (incl /\ (stop - start) % (IF step > 0 THEN step ELSE -step) = 0) => seq[Len(seq)] = stop
=============================================================================
