------------------------------ MODULE DateRange ------------------------------
(***************************************************************************)
(* beyond.dates.date.DateRange on an integer tick grid: iteration, length  *)
(* and membership for positive and negative steps, inclusive or not.       *)
(* Contract (property C03, last sentence; C08 uses Iter as the iteration   *)
(* contract of every propagator): the three views agree.                   *)
(* One initial state per (start, stop, step, inclusive): TLC is used as an *)
(* exact evaluator; every state is replayed on the real class.             *)
(***************************************************************************)
EXTENDS Integers, Sequences, FiniteSets, TLC, RangeOps

CONSTANTS Lo, Hi,      \* start, stop range over Lo..Hi
          Steps,       \* set of non-zero integer steps
          Probe        \* membership is probed on -Probe..Probe

VARIABLES start, stop, step, incl, seq, len, members

vars == <<start, stop, step, incl, seq, len, members>>

Init ==
  /\ start \in Lo..Hi /\ stop \in Lo..Hi /\ step \in Steps /\ incl \in BOOLEAN
  /\ Accepts(start, stop, step)
  /\ seq = Iter(start, stop, step, incl)
  /\ len = Len(seq)
  /\ members = {x \in (-Probe)..Probe : Member(x, start, stop, step, incl)}
Next == UNCHANGED vars

\* the three views agree (checked on the specification itself)
IterInMembers == \A i \in 1..Len(seq) : seq[i] \in members \/ seq[i] < -Probe \/ seq[i] > Probe
LenIsFormula == len = LenFormula(start, stop, step, incl)
FirstLast ==
  /\ seq # <<>> => seq[1] = start
  /\ \A i \in 1..Len(seq) : IF step > 0 THEN seq[i] <= stop ELSE seq[i] >= stop
  /\ (incl /\ (stop - start) % (IF step > 0 THEN step ELSE -step) = 0) => seq[Len(seq)] = stop
=============================================================================
