------------------------------ MODULE RangeLoop ------------------------------
(***************************************************************************)
(* The loop of beyond.dates.date.DateRange.__iter__ against the closed     *)
(* form of DateRange.__len__, for UNBOUNDED start and stop (property C03,  *)
(* last sentence: "a date range's length, iteration ... agree for positive *)
(* and negative steps, inclusive or not").                                 *)
(*                                                                         *)
(* DateRange.tla / RangeOps.tla let TLC enumerate every range of a bounded *)
(* grid.  Here the same statement is an INDUCTIVE argument discharged by   *)
(* Apalache (SMT) for all integers a, b at once, one run per step S and    *)
(* inclusive flag (a constant divisor keeps the arithmetic linear):        *)
(*    Init        => IndInv                      (--length=0)              *)
(*    IndInv /\ Next => IndInv'                  (--init=IndInit, length 1)*)
(*    IndInv      => Safe                        (--init=IndInit, length 0)*)
(* where Safe says: when the loop stops it has yielded exactly             *)
(* ceil((b-a)/S) + [inclusive and S | b-a] dates (LenFormula, the          *)
(* implementation-shaped __len__), and no yielded date is beyond stop.     *)
(* TLC checks the same module on a bounded grid (Init restricted), so the  *)
(* two tools see one text.  checks/c03.py runs both; selftest.py shows     *)
(* that dropping the "+1" of the formula is refuted.                       *)
(***************************************************************************)
EXTENDS Integers

CONSTANTS
  \* @type: Int;
  S,       \* step in ticks, non-zero
  \* @type: Bool;
  Inc      \* inclusive flag

VARIABLES
  \* @type: Int;
  a,       \* start
  \* @type: Int;
  b,       \* stop
  \* @type: Int;
  x,       \* `date` of the loop
  \* @type: Int;
  n,       \* dates yielded so far
  \* @type: Bool;
  done

vars == <<a, b, x, n, done>>

Sign(v) == IF v >= 0 THEN 1 ELSE -1
Abs(v) == IF v >= 0 THEN v ELSE -v
\* the constructor's test
Accepts == S /= 0 /\ Sign(b - a) = Sign(S)
\* while date <(=) stop   /   while date >(=) stop
Continue(xx) == IF S > 0 THEN (xx < b \/ (Inc /\ xx = b)) ELSE (xx > b \/ (Inc /\ xx = b))
CeilDiv(nn, d) == IF d > 0 THEN (nn + d - 1) \div d ELSE ((-nn) + (-d) - 1) \div (-d)
\* __len__ : int(ceil(dur / step)) + (1 if inclusive and dur % step == 0)
LenFormula == CeilDiv(b - a, S) + (IF Inc /\ (b - a) % Abs(S) = 0 THEN 1 ELSE 0)

Init == a \in Int /\ b \in Int /\ Accepts /\ x = a /\ n = 0 /\ done = FALSE
Next ==
  /\ UNCHANGED <<a, b>>
  /\ IF ~done /\ Continue(x)
     THEN x' = x + S /\ n' = n + 1 /\ done' = FALSE       \* yield date ; date += step
     ELSE done' = TRUE /\ UNCHANGED <<x, n>>

IndInv ==
  /\ Accepts
  /\ n >= 0 /\ x = a + n * S
  /\ (n > 0 => Continue(x - S))          \* the last date yielded passed the loop test
  /\ (done => ~Continue(x))
IndInit == a \in Int /\ b \in Int /\ x \in Int /\ n \in Int /\ done \in BOOLEAN /\ IndInv

Post == done => n = LenFormula
NeverBeyond == (n > 0) => (IF S > 0 THEN x - S <= b ELSE x - S >= b)
Safe == Post /\ NeverBeyond

\* the same text for TLC, on a bounded grid
CONSTANTS
  \* @type: Int;
  Bound
BInit == a \in (-Bound)..Bound /\ b \in (-Bound)..Bound /\ Accepts /\ x = a /\ n = 0 /\ done = FALSE
Termination == <>done
===============================================================================
