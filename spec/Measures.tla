------------------------------- MODULE Measures -------------------------------
(***************************************************************************)
(* beyond.utils.measures.MeasureSet (beyond the listed properties; it is   *)
(* the object a TDM message is read into and written from, property C13).  *)
(*                                                                         *)
(* A measure set is a SEQUENCE of measures; a measure has an identity, a   *)
(* type, the frame it was made from (`src`), a signal path (station        *)
(* measures only: PVT measures have none) and a date.                      *)
(*                                                                         *)
(*   Append(m)                 at the end of set 1                         *)
(*   Sort(i)                   by date, stable (list.sort)                 *)
(*   Filter(i, ty, src, path)  a NEW set, the receiver is not changed      *)
(*   observations              dates / types / sources / paths (each value *)
(*                             once, in order of first appearance),        *)
(*                             start / stop (first / last date)            *)
(*                                                                         *)
(* CONTRACT of Filter: the measures that match EVERY criterion that was    *)
(* given, in the order of the receiver.  (This is what the code does with  *)
(* one criterion and with three; its first branch shows the intent.)       *)
(* IMPLEMENTATION-SHAPED FilterImpl transcribes the if / elif chain; the   *)
(* two named deviations are constants:                                     *)
(*   MultiIsUnion     with two criteria - or three that do not all match - *)
(*                    the chain falls through to the single-criterion      *)
(*                    branches: the result is the UNION, not the           *)
(*                    intersection                                         *)
(*   PathNeedsPaths   a path criterion evaluates `m.path` on measures that *)
(*                    have none (PVT): AttributeError instead of "no match"*)
(* TLC enumerates the histories and shows where the implementation-shaped  *)
(* operator leaves the contract (FilterAgrees); harness/measures_replay.py *)
(* replays every history on the real class and says which of the two the   *)
(* code follows.                                                           *)
(***************************************************************************)
EXTENDS Integers, Sequences, FiniteSets, TLC

CONSTANTS StationTypes, PvtTypes,   \* measure classes with / without a signal path
          Srcs,                     \* frames
          SigPaths,                 \* signal paths: sequences of frames, the first one is the source
          Ticks,
          MultiIsUnion, PathNeedsPaths,
          MaxMeasures, MaxSets, MaxCalls     \* appended measures, live sets, calls other than append

VARIABLES sets,    \* sequence of measure sets (sequences of measure records)
          nm,      \* measures created so far (identities)
          hist

vars == <<sets, nm, hist>>

None == "-"          \* criterion not given (type, src)
PNone == <<"-">>     \* criterion not given (path)
NoPath == <<>>       \* the measure has no signal path
Types == StationTypes \cup PvtTypes

Init == sets = << <<>> >> /\ nm = 0 /\ hist = <<>>

NCalls == Cardinality({k \in 1..Len(hist) : hist[k][1] # "append"})
Can == NCalls < MaxCalls
Call(op, i, arg, out) == hist' = Append(hist, <<op, i, arg, out>>)

\* the measures one can make: a station measure's source is the head of its path
Makeable == {[type |-> ty, src |-> p[1], path |-> p, t |-> t] : ty \in StationTypes, p \in SigPaths, t \in Ticks}
       \cup {[type |-> ty, src |-> s, path |-> NoPath, t |-> t] : ty \in PvtTypes, s \in Srcs, t \in Ticks}

Append1(m) ==
  /\ nm < MaxMeasures
  /\ sets' = [sets EXCEPT ![1] = Append(@, [id |-> nm + 1, type |-> m.type, src |-> m.src, path |-> m.path, t |-> m.t])]
  /\ nm' = nm + 1
  /\ Call("append", 1, <<m.type, m.src, m.path, m.t>>, None)

\* stable sort by date: insertion from the left
Ids(s) == [j \in 1..Len(s) |-> s[j].id]
RECURSIVE Sorted(_)
Sorted(s) == IF s = <<>> THEN <<>> ELSE LET r == Sorted(SubSeq(s, 1, Len(s) - 1)) IN
               \* the last element goes after every element with date <= its own
               LET m == s[Len(s)] IN
               LET k == Cardinality({j \in 1..Len(r) : r[j].t <= m.t}) IN SubSeq(r, 1, k) \o <<m>> \o SubSeq(r, k + 1, Len(r))
Sort(i) ==
  /\ Can /\ sets[i] # Sorted(sets[i])
  /\ sets' = [sets EXCEPT ![i] = Sorted(@)]
  /\ UNCHANGED nm
  /\ Call("sort", i, None, Ids(Sorted(sets[i])))


\* CONTRACT
Matches(m, ty, src, path) ==
  /\ (ty # None => m.type = ty)
  /\ (src # None => m.src = src)
  /\ (path # PNone => m.path = path)      \* a PVT measure has no path: it matches no path criterion
FilterContract(s, ty, src, path) == LET T(m) == Matches(m, ty, src, path) IN <<"ok", SelectSeq(s, T)>>

\* IMPLEMENTATION-SHAPED: the if / elif chain of MeasureSet.filter, measure by measure; "raise" when m.path is evaluated
\* on a measure without one
HasPath(m) == m.path # NoPath
Branch(m, ty, src, path) ==       \* "in" | "out" | "raise"
  LET all3 == ty # None /\ src # None /\ path # PNone
      given == (IF ty # None THEN 1 ELSE 0) + (IF src # None THEN 1 ELSE 0) + (IF path # PNone THEN 1 ELSE 0) IN
  IF all3 /\ m.type = ty /\ m.src = src /\ ~HasPath(m) /\ PathNeedsPaths THEN "raise"
  ELSE IF all3 /\ m.type = ty /\ m.src = src /\ HasPath(m) /\ m.path = path THEN "in"
  ELSE IF ~MultiIsUnion /\ given > 1
       THEN (IF Matches(m, ty, src, path) THEN "in" ELSE "out")
  ELSE IF ty # None /\ m.type = ty THEN "in"
  ELSE IF src # None /\ m.src = src THEN "in"
  ELSE IF path # PNone THEN (IF ~HasPath(m) THEN (IF PathNeedsPaths THEN "raise" ELSE "out") ELSE IF m.path = path THEN "in" ELSE "out")
  ELSE "out"
FilterImpl(s, ty, src, path) ==
  IF \E j \in 1..Len(s) : Branch(s[j], ty, src, path) = "raise" /\ \A k \in 1..(j - 1) : Branch(s[k], ty, src, path) # "raise"
  THEN <<"raise", <<>>>>
  ELSE LET T(m) == Branch(m, ty, src, path) = "in" IN <<"ok", SelectSeq(s, T)>>

Criteria == {c \in (Types \cup {None}) \X (Srcs \cup {None}) \X (SigPaths \cup {PNone}) : c # <<None, None, PNone>>}

Filter(i, c) ==
  /\ Can
  /\ LET r == FilterImpl(sets[i], c[1], c[2], c[3]) IN
       /\ IF r[1] = "ok" /\ Len(sets) < MaxSets THEN sets' = Append(sets, r[2]) ELSE UNCHANGED sets
       /\ Call("filter", i, c, <<r[1], Ids(r[2]), FilterContract(sets[i], c[1], c[2], c[3])[1], Ids(FilterContract(sets[i], c[1], c[2], c[3])[2])>>)
  /\ UNCHANGED nm

\* each value once, in order of first appearance (dict keys)
RECURSIVE Uniq(_)
Uniq(s) == IF s = <<>> THEN <<>> ELSE LET r == Uniq(SubSeq(s, 1, Len(s) - 1)) IN
             IF \E j \in 1..Len(r) : r[j] = s[Len(s)] THEN r ELSE Append(r, s[Len(s)])
Observe(i) ==
  /\ Can /\ sets[i] # <<>>
  /\ LET s == sets[i] IN
     LET withpath == SelectSeq(s, HasPath) IN
       Call("observe", i, None,
            [dates |-> Uniq([j \in 1..Len(s) |-> s[j].t]), types |-> Uniq([j \in 1..Len(s) |-> s[j].type]),
             sources |-> Uniq([j \in 1..Len(s) |-> s[j].src]), paths |-> Uniq([j \in 1..Len(withpath) |-> withpath[j].path]),
             start |-> s[1].t, stop |-> s[Len(s)].t, ids |-> Ids(s)])
  /\ UNCHANGED <<sets, nm>>

Next ==
  \/ \E m \in Makeable : Append1(m)
  \/ \E i \in 1..Len(sets) : Sort(i) \/ Observe(i) \/ \E c \in Criteria : Filter(i, c)

Spec == Init /\ [][Next]_vars

-----------------------------------------------------------------------------
\* does the implementation-shaped filter satisfy the contract?  (Violated exactly through the two named deviations.)
FilterAgrees ==
  \A i \in 1..Len(sets), c \in Criteria : FilterImpl(sets[i], c[1], c[2], c[3]) = FilterContract(sets[i], c[1], c[2], c[3])
\* sanity of the model
SortIsStablePermutation ==
  \A i \in 1..Len(sets) : LET s == sets[i] r == Sorted(sets[i]) IN
     /\ Len(r) = Len(s) /\ {r[j].id : j \in 1..Len(r)} = {s[j].id : j \in 1..Len(s)}
     /\ \A a, b \in 1..Len(r) : a < b => (r[a].t < r[b].t \/ (r[a].t = r[b].t /\ \E x, y \in 1..Len(s) : x < y /\ s[x] = r[a] /\ s[y] = r[b]))
FilterKeepsReceiver == [][\A i \in 1..Len(sets) : hist' # hist /\ hist'[Len(hist')][1] \in {"filter", "observe"} => sets'[i] = sets[i]]_vars
FilteredIsSubsequence ==
  \A i \in 1..Len(sets), c \in Criteria : LET r == FilterImpl(sets[i], c[1], c[2], c[3])[2] IN
     \A a, b \in 1..Len(r) : a < b => \E x, y \in 1..Len(sets[i]) : x < y /\ sets[i][x] = r[a] /\ sets[i][y] = r[b]
=============================================================================
