----------------------------- MODULE StateVector -----------------------------
(***************************************************************************)
(* Value semantics of beyond StateVector / Orbit objects (property C15).   *)
(*                                                                         *)
(* This is the CONTRACT as a reference model: every handle owns its state  *)
(* (form, frame, coordinates token, maneuver list, list-valued and scalar  *)
(* metadata, covariance); copies duplicate it; an action on one handle     *)
(* changes that handle only; a failing form/frame change changes nothing.  *)
(* TLC enumerates the action sequences; the harness replays them on real   *)
(* objects and compares the projection of EVERY live handle after EVERY    *)
(* action with this model (so aliasing between copies, or a half-done      *)
(* failed conversion, shows up as a difference on some handle).            *)
(***************************************************************************)
EXTENDS Integers, Sequences, FiniteSets, TLC

CONSTANTS MaxH,       \* maximum number of handles
          MaxLen,     \* maximum number of actions
          Forms,      \* set of form names used
          Frames      \* set of frame names used

\* coordinate names of each form, in order (transcribed from the form doc-strings), and accepted aliases
Names == [cartesian |-> <<"x", "y", "z", "vx", "vy", "vz">>,
          keplerian |-> <<"a", "e", "i", "Ω", "ω", "ν">>,
          keplerian_mean |-> <<"a", "e", "i", "Ω", "ω", "M">>,
          spherical |-> <<"r", "θ", "φ", "r_dot", "θ_dot", "φ_dot">>]
Alias == [cartesian |-> <<"x", "y", "z", "x_dot", "y_dot", "z_dot">>,
          keplerian |-> <<"a", "e", "i", "raan", "omega", "nu">>,
          keplerian_mean |-> <<"a", "e", "i", "Omega", "omega", "M">>,
          spherical |-> <<"r", "theta", "phi", "r_dot", "theta_dot", "phi_dot">>]

VARIABLES h,      \* sequence of handle records
          tok,    \* next fresh token
          hist,   \* actions so far
          last    \* outcome of the last action: "ok" | "raise"

vars == <<h, tok, hist, last>>

NoCov == [present |-> FALSE, fr |-> "-", ver |-> 0]
Init ==
  /\ h = << [kind |-> "orbit", form |-> "keplerian", frame |-> "EME2000", val |-> 1, nmans |-> 1, lst |-> 2, scal |-> 0,
             cov |-> [present |-> TRUE, fr |-> "EME2000", ver |-> 2], grp |-> 1] >>
  /\ tok = 3 /\ hist = <<>> /\ last = "ok"

Live == 1..Len(h)
Can == Len(hist) < MaxLen
Rec(op, a, x, y) == [op |-> op, a |-> a, x |-> x, y |-> y]

\* a covariance expressed in its state's frame follows the state's frame change
CovAfterFrame(r, fr) == IF r.cov.present /\ r.cov.fr = r.frame THEN [r.cov EXCEPT !.fr = fr] ELSE r.cov

New(rec, op, a, x, y) ==
  /\ Len(h) < MaxH
  /\ h' = Append(h, rec)
  /\ hist' = Append(hist, Rec(op, a, x, y))
  /\ last' = "ok" /\ tok' = tok
Upd(a, rec, op, x, y) ==
  /\ h' = [h EXCEPT ![a] = rec]
  /\ hist' = Append(hist, Rec(op, a, x, y))
  /\ last' = "ok"
Fail(a, op, x) ==
  /\ h' = h /\ tok' = tok
  /\ hist' = Append(hist, Rec(op, a, x, "-"))
  /\ last' = "raise"

\* as_orbit / as_statevector return an object that shares its mutable metadata (maneuver list, list-valued entries,
\* covariance object) with the receiver: isolation is NOT part of the contract there (only values and metadata are
\* preserved), so in-place mutations of shared objects are kept out of the explored behaviours for such alias groups.
Aliased(a) == \E b \in Live : b # a /\ h[b].grp = h[a].grp
FreshGrp == Len(h) + 1
\* copy() has three DOORS - no argument, form= / frame= keywords, same=<an object whose form and frame are to be taken> - which
\* the contract does not tell apart: the door is part of the recorded action (TLC enumerates every choice), not of the effect
CopyDoors == {"copy", "copy-kw", "copy-same"}
CopyConvDoors == {"copyconv", "copyconv-same"}
Copy(a, door) == New([h[a] EXCEPT !.grp = FreshGrp], door, a, "-", "-")
CopyConv(a, f, fr, door) ==
  New([h[a] EXCEPT !.form = f, !.frame = fr, !.cov = CovAfterFrame(h[a], fr), !.grp = FreshGrp], door, a, f, fr)
SetForm(a, f) == f # h[a].form /\ tok' = tok /\ Upd(a, [h[a] EXCEPT !.form = f], "setform", f, "-")
SetFrame(a, fr) ==
  fr # h[a].frame /\ ~(Aliased(a) /\ h[a].cov.present /\ h[a].cov.fr = h[a].frame) /\ tok' = tok /\ Upd(a, [h[a] EXCEPT !.frame = fr, !.cov = CovAfterFrame(h[a], fr)], "setframe", fr, "-")
FailForm(a) == Fail(a, "failform", "no_such_form")
FailFrame(a, which) == Fail(a, "failframe", which)              \* unknown name | Hill | unconnected axes | unlinked centre (axes fine)
Assign(a, how, i) == tok' = tok + 1 /\ Upd(a, [h[a] EXCEPT !.val = tok], "assign", how, i)
WrongName(a) == Fail(a, "wrongname", "-")                        \* a coordinate name of another form
SetScalar(a) == tok' = tok /\ Upd(a, [h[a] EXCEPT !.scal = @ + 1], "setscalar", "-", "-")
MutList(a) == ~Aliased(a) /\ tok' = tok /\ Upd(a, [h[a] EXCEPT !.lst = @ + 1], "mutlist", "-", "-")
AppendMan(a) == ~Aliased(a) /\ tok' = tok /\ Upd(a, [h[a] EXCEPT !.nmans = @ + 1], "appendman", "-", "-")
ReplaceMans(a) == tok' = tok /\ Upd(a, [h[a] EXCEPT !.nmans = 0], "replacemans", "-", "-")
SetCov(a) == tok' = tok + 1 /\ Upd(a, [h[a] EXCEPT !.cov = [present |-> TRUE, fr |-> h[a].frame, ver |-> tok]], "setcov", "-", "-")
MutCov(a) == h[a].cov.present /\ ~Aliased(a) /\ tok' = tok + 1 /\ Upd(a, [h[a] EXCEPT !.cov.ver = tok], "mutcov", "-", "-")
CovFrame(a, fr) == h[a].cov.present /\ ~Aliased(a) /\ fr # h[a].cov.fr /\ tok' = tok
                   /\ Upd(a, [h[a] EXCEPT !.cov.fr = fr], "covframe", fr, "-")
Pickle(a) == New([h[a] EXCEPT !.grp = FreshGrp], "pickle", a, "-", "-")
\* as_orbit on a bare state vector gives it a propagator; on an orbit it gives a second orbit with another propagator - the
\* receiver keeps its kind (and, on the real objects, its own propagator: checked by the replay)
AsOrbit(a) == New([h[a] EXCEPT !.kind = "orbit"], "asorbit", a, "-", "-")
AsSV(a) == h[a].kind = "orbit" /\ New([h[a] EXCEPT !.kind = "statevector"], "assv", a, "-", "-")

Next ==
  /\ Can
  /\ \E a \in Live :
       \/ (\E d \in CopyDoors : Copy(a, d)) \/ Pickle(a) \/ AsOrbit(a) \/ AsSV(a)
       \/ \E f \in Forms, fr \in Frames, d \in CopyConvDoors : (f # h[a].form \/ fr # h[a].frame) /\ CopyConv(a, f, fr, d)
       \/ \E f \in Forms : SetForm(a, f)
       \/ \E fr \in Frames : SetFrame(a, fr)
       \/ FailForm(a) \/ \E w \in {"unknown", "Hill", "unconnected", "nocentre"} : FailFrame(a, w)
       \/ \E how \in {"index", "name", "alias"}, i \in {1, 4, 6} : Assign(a, how, i)
       \/ WrongName(a)
       \/ SetScalar(a) \/ MutList(a) \/ AppendMan(a) \/ ReplaceMans(a)
       \/ SetCov(a) \/ MutCov(a) \/ \E fr \in Frames \cup {"QSW"} : CovFrame(a, fr)

Spec == Init /\ [][Next]_vars

\* the contract as action properties of the reference model itself (sanity of the model)
OthersUntouched ==
  [][\A b \in 1..Len(h) : (hist' # hist /\ hist'[Len(hist')].a # b /\ hist'[Len(hist')].op \notin (CopyDoors \cup CopyConvDoors \cup {"pickle", "asorbit", "assv"}))
        => h'[b] = h[b]]_vars
FailuresAreAtomic == [][last' = "raise" => h' = h]_vars
CopiesEqualSource ==
  [][(Len(h') > Len(h)) => /\ h'[Len(h')].val = h[hist'[Len(hist')].a].val
                           /\ \A b \in 1..Len(h) : h'[b] = h[b]]_vars
=============================================================================
