------------------------------ MODULE Routing ------------------------------
(***************************************************************************)
(* Conversion routing of beyond.utils.node.Node (used by element forms,    *)
(* time scales, frame orientations and frame centres).                     *)
(*                                                                         *)
(* Two parts, kept apart on purpose:                                       *)
(*  - the CONTRACT: operators ValidP / ShortestP / ForestP ... over an     *)
(*    arbitrary (neighbour lists, route tables) pair.  These are what the  *)
(*    property C20 demands of ANY implementation and are the only thing    *)
(*    conformance of the real code is judged against (RoutingTrace.tla).   *)
(*  - an IMPLEMENTATION-SHAPED model of Node.__add__ / Node._update: the   *)
(*    depth-first rebuild with its shared lock set, neighbour insertion    *)
(*    order and the "<=" tie rule.  TLC checks it against the contract to  *)
(*    produce candidate counterexamples and behaviours to replay.          *)
(***************************************************************************)
EXTENDS Naturals, Sequences, FiniteSets, TLC

CONSTANTS N,          \* number of nodes (named 1..N)
          MaxLinks,   \* bound on the number of Link actions in a history
          ForestOnly, \* TRUE: a link either joins two components or repeats an existing link
          SinglePass  \* FALSE: Node.__add__ repeats the depth-first rebuild until no route table changes (the code since the
                      \* repair of the stale-table defect on cyclic graphs); TRUE: one sweep only, the behaviour before
                      \* the repair, kept as a named deviation (TLC finds the 5-ring counterexample to Shortest with it)

Nodes == 1..N
NoRoute == <<0, 0>>

VARIABLES nbrs,    \* nbrs[a]: neighbours of a in insertion order (keys of the OrderedDict)
          routes,  \* routes[a][b]: <<next hop, steps>> or NoRoute
          hist     \* the links performed so far, <<a, b>> meaning the expression  a + b

vars == <<nbrs, routes, hist>>

-----------------------------------------------------------------------------
(* Generic helpers over a neighbour table nb *)

SeqSet(s) == {s[i] : i \in 1..Len(s)}
Linked(nb, a, b) == b \in SeqSet(nb[a])

RECURSIVE ReachFrom(_, _)
ReachFrom(nb, S) ==
  LET S2 == S \cup UNION {SeqSet(nb[a]) : a \in S}
  IN IF S2 = S THEN S ELSE ReachFrom(nb, S2)

Connected(nb, a, b) == b \in ReachFrom(nb, {a})

\* breadth-first distance; defined only for connected pairs
RECURSIVE DistFrom(_, _, _, _)
DistFrom(nb, frontier, b, d) ==
  IF b \in frontier THEN d
  ELSE DistFrom(nb, frontier \cup UNION {SeqSet(nb[a]) : a \in frontier}, b, d + 1)
Dist(nb, a, b) == DistFrom(nb, {a}, b, 0)

NumEdges(nb) == Cardinality({e \in Nodes \X Nodes : e[1] < e[2] /\ Linked(nb, e[1], e[2])})
NumComponents(nb) == Cardinality({ReachFrom(nb, {a}) : a \in Nodes})
ForestP(nb) == NumEdges(nb) + NumComponents(nb) = N

\* the walk obtained by following next hops from a towards b; <<>> if it breaks or runs too long
RECURSIVE WalkFrom(_, _, _, _)
WalkFrom(rt, a, b, fuel) ==
  IF a = b THEN <<a>>
  ELSE IF fuel = 0 \/ rt[a][b] = NoRoute THEN <<0>>
  ELSE <<a>> \o WalkFrom(rt, rt[a][b][1], b, fuel - 1)
Walk(rt, a, b) == WalkFrom(rt, a, b, N)

WalkOK(nb, w, a, b) ==
  /\ Len(w) >= 1 /\ w[1] = a /\ w[Len(w)] = b
  /\ \A i \in 1..Len(w) : w[i] \in Nodes
  /\ \A i \in 1..(Len(w) - 1) : Linked(nb, w[i], w[i + 1])
  /\ \A i, j \in 1..Len(w) : i # j => w[i] # w[j]

-----------------------------------------------------------------------------
(* CONTRACT clauses of property C20, over any tables *)

SymmetricP(nb) == \A a, b \in Nodes : Linked(nb, a, b) <=> Linked(nb, b, a)

\* connected pairs are convertible along a valid chain of existing links
ValidPairs(nb, rt) == {p \in Nodes \X Nodes : p[1] # p[2] /\ Connected(nb, p[1], p[2])}
ValidP(nb, rt) == \A p \in ValidPairs(nb, rt) : WalkOK(nb, Walk(rt, p[1], p[2]), p[1], p[2])

\* unconnected pairs are reported as such (path() raises)
UnconnectedP(nb, rt) == \A a, b \in Nodes : (a # b /\ ~Connected(nb, a, b)) => rt[a][b] = NoRoute

\* the chain is a shortest one (on forests: the unique one)
ShortestP(nb, rt) ==
  \A p \in ValidPairs(nb, rt) :
     LET w == Walk(rt, p[1], p[2]) IN WalkOK(nb, w, p[1], p[2]) => Len(w) - 1 = Dist(nb, p[1], p[2])

\* implementation detail recorded as information only: the steps field equals the walk length
StepsExactP(nb, rt) ==
  \A p \in ValidPairs(nb, rt) :
     LET w == Walk(rt, p[1], p[2]) IN WalkOK(nb, w, p[1], p[2]) => rt[p[1]][p[2]][2] = Len(w) - 1

\* set of clause names failing on a projected state (used by the trace spec for total verdicts)
Failing(nb, rt) ==
  (IF SymmetricP(nb) THEN {} ELSE {"symmetric"})
  \cup (IF ValidP(nb, rt) THEN {} ELSE {"valid"})
  \cup (IF UnconnectedP(nb, rt) THEN {} ELSE {"unconnected"})
  \cup (IF ShortestP(nb, rt) THEN {} ELSE IF ForestP(nb) THEN {"tree-unique"} ELSE {"shortest"})

-----------------------------------------------------------------------------
(* IMPLEMENTATION-SHAPED model of Node.__add__ and Node._update *)

AppendUnique(s, x) == IF x \in SeqSet(s) THEN s ELSE Append(s, x)

\* self.routes rebuilt from the neighbours' CURRENT tables, neighbours in insertion order
Rebuild(nb, rt, s) ==
  LET NbSet == SeqSet(nb[s])
      Step[i \in 0..Len(nb[s])] ==
        IF i = 0 THEN [t \in Nodes |-> NoRoute]
        ELSE LET node == nb[s][i]
                 cur  == TLCEval(Step[i - 1])
             IN [t \in Nodes |->
                   IF t = node THEN <<node, 1>>
                   ELSE IF rt[node][t] = NoRoute THEN cur[t]
                   ELSE IF t = s \/ t \in NbSet THEN cur[t]
                   ELSE IF cur[t] # NoRoute /\ cur[t][2] <= rt[node][t][2] THEN cur[t]
                   ELSE <<node, rt[node][t][2] + 1>>]
  IN Step[Len(nb[s])]

\* _update(already_updated): returns <<route tables, lock set>>
RECURSIVE Upd(_, _, _, _)
Upd(nb, rt, lock, s) ==
  LET rt1   == TLCEval([rt EXCEPT ![s] = Rebuild(nb, rt, s)])
      lock1 == lock \cup {s}
      Visit[i \in 0..Len(nb[s])] ==
        IF i = 0 THEN <<rt1, lock1>>
        ELSE LET prev == TLCEval(Visit[i - 1])
                 n    == nb[s][i]
             IN IF n \in prev[2] THEN prev ELSE Upd(nb, prev[1], prev[2], n)
  IN Visit[Len(nb[s])]

\* repeat the sweep from a until nothing changes; at most N + 2 sweeps are ever needed (checked by SweepsBounded)
RECURSIVE Sweep(_, _, _, _)
Sweep(nb, rt, a, fuel) ==
  LET rt2 == TLCEval(Upd(nb, rt, {}, a)[1])
  IN IF rt2 = rt \/ fuel = 0 \/ SinglePass THEN <<rt2, fuel>> ELSE Sweep(nb, rt2, a, fuel - 1)

LinkAllowed(a, b) ==
  /\ a # b
  /\ ForestOnly => (Linked(nbrs, a, b) \/ ~Connected(nbrs, a, b))

Link(a, b) ==
  /\ Len(hist) < MaxLinks
  /\ LinkAllowed(a, b)
  /\ LET nb2 == TLCEval([nbrs EXCEPT ![a] = AppendUnique(@, b), ![b] = AppendUnique(@, a)])
     IN /\ nbrs' = nb2
        /\ routes' = Sweep(nb2, routes, a, N + 2)[1]
  /\ hist' = Append(hist, <<a, b>>)

Init ==
  /\ nbrs = [a \in Nodes |-> <<>>]
  /\ routes = [a \in Nodes |-> [b \in Nodes |-> NoRoute]]
  /\ hist = <<>>

Next == \E a, b \in Nodes : Link(a, b)

Spec == Init /\ [][Next]_vars

-----------------------------------------------------------------------------
(* Contract clauses instantiated on the model's state *)
Symmetric   == SymmetricP(nbrs)
Valid       == ValidP(nbrs, routes)
Unconnected == UnconnectedP(nbrs, routes)
Shortest    == ShortestP(nbrs, routes)
StepsExact  == StepsExactP(nbrs, routes)
TreeUnique  == ForestP(nbrs) => ShortestP(nbrs, routes)
IsForest    == ForestOnly => ForestP(nbrs)

\* the repeated sweep always reaches its fixed point within N + 2 passes (fuel never runs out)
SweepsBounded ==
  [][\A a, b \in Nodes : hist' = Append(hist, <<a, b>>) => Sweep(nbrs', routes, a, N + 2)[2] > 0]_vars

\* registering more links never changes an existing route's endpoints' connectivity: a link only adds
NbrsMonotone == [][\A a \in Nodes : SeqSet(nbrs[a]) \subseteq SeqSet(nbrs'[a])]_vars

=============================================================================
