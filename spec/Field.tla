-------------------------------- MODULE Field --------------------------------
(***************************************************************************)
(* Exact rational arithmetic for a 32-bit model checker: every rational is *)
(* carried as its residue modulo a prime p < 2^15 (products stay below     *)
(* 2^30).  An identity between rational expressions holds modulo every     *)
(* prime that divides no denominator; values are exported as residues      *)
(* modulo three primes and the conformance harness recovers the exact      *)
(* rational by the Chinese remainder theorem and rational reconstruction   *)
(* (and re-checks it against all residues).                                *)
(***************************************************************************)
EXTENDS Integers, TLC

FAdd(a, b, p) == (a + b) % p
FSub(a, b, p) == (a - b) % p
FNeg(a, p) == (-a) % p
FMul(a, b, p) == (a * b) % p
RECURSIVE FPow(_, _, _)
FPow(a, e, p) ==
  IF e = 0 THEN 1
  ELSE LET h  == TLCEval(FPow(a, e \div 2, p))
           h2 == (h * h) % p
       IN IF e % 2 = 0 THEN h2 ELSE (h2 * a) % p
FInv(a, p) == FPow(a % p, p - 2, p)
FDiv(a, b, p) == FMul(a, FInv(b, p), p)
FRat(n, d, p) == FMul(n % p, FInv(d % p, p), p)        \* the rational n/d
FDot3(u, v, p) == (((u[1] * v[1]) % p) + ((u[2] * v[2]) % p) + ((u[3] * v[3]) % p)) % p
FCross(u, v, p) == <<(u[2] * v[3] - u[3] * v[2]) % p, (u[3] * v[1] - u[1] * v[3]) % p, (u[1] * v[2] - u[2] * v[1]) % p>>
=============================================================================
