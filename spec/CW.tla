---------------------------------- MODULE CW ----------------------------------
(***************************************************************************)
(* Clohessy-Wiltshire relative motion (property C16), non-dimensional:     *)
(* tau = n t, lengths in L, velocities in L n, accelerations in L n^2.     *)
(*                                                                         *)
(* Every entry of the state-transition matrix Phi (6x6) and of the thrust  *)
(* response Gam (6x3) is a COEFFICIENT VECTOR <<a, b, d, e, q>> meaning    *)
(*        1/2 ( a sin tau + b cos tau + d tau + e + q tau^2 ).             *)
(* Differentiation is a linear map on these vectors, so TLC PROVES on the  *)
(* specification (ASSUME-like invariants evaluated once):                  *)
(*   Phi(0) = I, Gam(0) = 0, Phi' = A Phi, Gam' = A Gam + B                *)
(* with A the Hill matrix - i.e. the closed form below IS the solution of  *)
(* Hill's equations with constant thrust - and, at the lattice times       *)
(* tau = k pi/2 (values are polynomials in p = pi/2), the semigroup law    *)
(* Phi(t1 + t2) = Phi(t2) Phi(t1).                                         *)
(*                                                                         *)
(* Second part: maneuver SEQUENCING.  A timeline is a chronological list   *)
(* of impulsive / continuous maneuvers on an integer time grid; the        *)
(* contract turns (timeline, query date) into a PLAN of segments           *)
(*   coast dt | kick dv | thrust dt accel                                  *)
(* in which each impulse contributes exactly once iff query >= its date    *)
(* and each burn thrusts over [start, min(query, stop)).                   *)
(***************************************************************************)
EXTENDS Integers, Sequences, FiniteSets, TLC

Z == <<0, 0, 0, 0, 0>>
S1 == <<2, 0, 0, 0, 0>>          \* sin
C1 == <<0, 2, 0, 0, 0>>          \* cos
One == <<0, 0, 0, 2, 0>>

Phi == << << <<0, -6, 0, 8, 0>>, Z, Z, S1, <<0, -4, 0, 4, 0>>, Z >>,
          << <<12, 0, -12, 0, 0>>, One, Z, <<0, 4, 0, -4, 0>>, <<8, 0, -6, 0, 0>>, Z >>,
          << Z, Z, C1, Z, Z, S1 >>,
          << <<6, 0, 0, 0, 0>>, Z, Z, C1, <<4, 0, 0, 0, 0>>, Z >>,
          << <<0, 12, 0, -12, 0>>, Z, Z, <<-4, 0, 0, 0, 0>>, <<0, 8, 0, -6, 0>>, Z >>,
          << Z, Z, <<-2, 0, 0, 0, 0>>, Z, Z, C1 >> >>

Gam == << << <<0, -2, 0, 2, 0>>, <<-4, 0, 4, 0, 0>>, Z >>,
          << <<4, 0, -4, 0, 0>>, <<0, -8, 0, 8, -3>>, Z >>,
          << Z, Z, <<0, -2, 0, 2, 0>> >>,
          << S1, <<0, -4, 0, 4, 0>>, Z >>,
          << <<0, 4, 0, -4, 0>>, <<8, 0, -6, 0, 0>>, Z >>,
          << Z, Z, S1 >> >>

\* Hill's equations, first-order form X' = A X + B a  (non-dimensional)
A == << <<0, 0, 0, 1, 0, 0>>, <<0, 0, 0, 0, 1, 0>>, <<0, 0, 0, 0, 0, 1>>,
        <<3, 0, 0, 0, 2, 0>>, <<0, 0, 0, -2, 0, 0>>, <<0, 0, -1, 0, 0, 0>> >>
B == << <<0, 0, 0>>, <<0, 0, 0>>, <<0, 0, 0>>, <<1, 0, 0>>, <<0, 1, 0>>, <<0, 0, 1>> >>

\* linear algebra on coefficient vectors
CAdd(u, v) == [i \in 1..5 |-> u[i] + v[i]]
CScale(k, u) == [i \in 1..5 |-> k * u[i]]
\* d/dtau : sin -> cos, cos -> -sin, tau -> 1, 1 -> 0, tau^2 -> 2 tau
D(u) == <<-u[2], u[1], 2 * u[5], u[3], 0>>
RECURSIVE CSum(_, _)
CSum(f, n) == IF n = 0 THEN Z ELSE CAdd(f[n], CSum(f, n - 1))
\* (integer matrix) x (coefficient-vector matrix)
IMul(m, c) == [i \in 1..Len(m) |-> [j \in 1..Len(c[1]) |-> CSum([k \in 1..Len(c) |-> CScale(m[i][k], c[k][j])], Len(c))]]
DMat(c) == [i \in 1..Len(c) |-> [j \in 1..Len(c[1]) |-> D(c[i][j])]]
AtZero(u) == u[2] + u[4]                                  \* twice the value at tau = 0
ConstMat(m) == [i \in 1..Len(m) |-> [j \in 1..Len(m[1]) |-> CScale(m[i][j], One)]]
MatAdd(x, y) == [i \in 1..Len(x) |-> [j \in 1..Len(x[1]) |-> CAdd(x[i][j], y[i][j])]]

PhiSolvesHill == /\ DMat(Phi) = IMul(A, Phi)
                 /\ \A i, j \in 1..6 : AtZero(Phi[i][j]) = (IF i = j THEN 2 ELSE 0)
GamSolvesHill == /\ DMat(Gam) = MatAdd(IMul(A, Gam), ConstMat(B))
                 /\ \A i \in 1..6, j \in 1..3 : AtZero(Gam[i][j]) = 0

\* values at lattice times tau = k p, p = pi/2 : polynomials <<c0, c1, c2>> in p, all scaled by 1/2
SinK(k) == LET r == k % 4 IN IF r = 1 THEN 1 ELSE IF r = 3 THEN -1 ELSE 0
CosK(k) == LET r == k % 4 IN IF r = 0 THEN 1 ELSE IF r = 2 THEN -1 ELSE 0
ValAt(u, k) == <<u[1] * SinK(k) + u[2] * CosK(k) + u[4], u[3] * k, u[5] * k * k>>
PAdd(x, y) == <<x[1] + y[1], x[2] + y[2], x[3] + y[3]>>
\* product of two degree-1 polynomials scaled 1/2 each -> degree 2, scaled 1/4
PMul(x, y) == <<x[1] * y[1], x[1] * y[2] + x[2] * y[1], x[2] * y[2]>>
RECURSIVE PSum(_, _)
PSum(f, n) == IF n = 0 THEN <<0, 0, 0>> ELSE PAdd(f[n], PSum(f, n - 1))
PhiAt(k) == [i \in 1..6 |-> [j \in 1..6 |-> ValAt(Phi[i][j], k)]]
Semigroup(k1, k2) ==
  LET p1 == PhiAt(k1) p2 == PhiAt(k2) p12 == PhiAt(k1 + k2)
  IN \A i, j \in 1..6 :
        PSum([m \in 1..6 |-> PMul(p2[i][m], p1[m][j])], 6) = <<2 * p12[i][j][1], 2 * p12[i][j][2], 2 * p12[i][j][3]>>
SemigroupOnLattice == \A k1, k2 \in -4..4 : Semigroup(k1, k2)

\* the tables are exported to the conformance harness (which evaluates them in floating point at arbitrary times)
ExportTables == PrintT(<<"VERIF", "Phi", Phi>>) /\ PrintT(<<"VERIF", "Gam", Gam>>)

\* TNW orientation = fixed signed permutation of QSW:  x_TNW = P x_QSW
P3 == << <<0, 1, 0>>, <<-1, 0, 0>>, <<0, 0, 1>> >>

-----------------------------------------------------------------------------
(* maneuver sequencing *)
CONSTANTS Times,       \* integer dates (grid units) at which maneuvers may start / be queried
          MaxMans,
          Durations    \* burn durations (grid units)

VARIABLES mans,   \* chronological sequence of [kind |-> "imp", t, v] / [kind |-> "burn", t, dur, v]  (v = index of a vector)
          query,  \* date of the propagation request (may be before the epoch 0)
          plan    \* contract: sequence of segments <<"coast", dt>> | <<"kick", v>> | <<"thrust", dt, v>>

vars == <<mans, query, plan>>

EndOf(m) == IF m.kind = "imp" THEN m.t ELSE m.t + m.dur
Chrono(ms) == \A i \in 1..(Len(ms) - 1) : EndOf(ms[i]) <= ms[i + 1].t

\* contract: walk the timeline from the epoch (date 0)
RECURSIVE PlanFrom(_, _, _)
PlanFrom(ms, now, q) ==
  IF ms = <<>> THEN <<<<"coast", q - now>>>>
  ELSE LET m == Head(ms) IN
       IF m.kind = "imp"
       THEN IF q >= m.t THEN <<<<"coast", m.t - now>>, <<"kick", m.v>>>> \o PlanFrom(Tail(ms), m.t, q)
            ELSE PlanFrom(Tail(ms), now, q)
       ELSE IF q >= m.t
            THEN IF q < m.t + m.dur THEN <<<<"coast", m.t - now>>, <<"thrust", q - m.t, m.v>>>>
                 ELSE <<<<"coast", m.t - now>>, <<"thrust", m.dur, m.v>>>> \o PlanFrom(Tail(ms), m.t + m.dur, q)
            ELSE PlanFrom(Tail(ms), now, q)

Man == [kind : {"imp"}, t : Times, v : 1..3] \cup [kind : {"burn"}, t : Times, dur : Durations, v : 1..3]
Init ==
  /\ mans \in UNION {[1..n -> Man] : n \in 0..MaxMans}
  /\ Chrono(mans) /\ \A i \in 1..Len(mans) : mans[i].t >= 0      \* a maneuver may be dated at the epoch itself
  /\ query \in Times \cup {-t : t \in Times} \cup {0}
  /\ plan = PlanFrom(mans, 0, query)
Next == UNCHANGED vars

\* each impulse at or before the query is applied exactly once, later ones never; thrust time never exceeds the burn
ExactlyOnce ==
  \A i \in 1..Len(mans) :
     LET m == mans[i] IN
     IF m.kind = "imp"
     THEN Cardinality({j \in 1..Len(plan) : plan[j][1] = "kick" /\ plan[j][2] = m.v /\ j > 0}) >= (IF query >= m.t THEN 1 ELSE 0)
     ELSE TRUE
TimeAddsUp ==
  LET dts == [j \in 1..Len(plan) |-> IF plan[j][1] = "kick" THEN 0 ELSE plan[j][2]]
      RECURSIVE Tot(_)
      Tot(n) == IF n = 0 THEN 0 ELSE dts[n] + Tot(n - 1)
  IN Tot(Len(plan)) = query
=============================================================================
