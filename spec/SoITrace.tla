------------------------------- MODULE SoITrace -------------------------------
(***************************************************************************)
(* Trace validation, in the classic style, of the REAL sphere-of-influence *)
(* propagators against the implementation-shaped model SoI.tla: the        *)
(* stream recorded from SoIAnalytical / SoINumerical (harness/soi_replay)  *)
(* must be a behaviour of the model's own actions.  One logged event per   *)
(* yielded point (tick, sphere of the frame it is expressed in); the       *)
(* loop-control actions OuterTest / InnerEnd / Switch are silent.  The     *)
(* Inside pattern is the one observed on the real trajectory.              *)
(* A trace is accepted when all its items are consumed (the real streams   *)
(* of non-terminating requests are cut after a fixed number of items).     *)
(***************************************************************************)
EXTENDS SoI, Json, IOUtils

Data == JsonDeserialize(IOEnv.TRACE_FILE)
Traces == Data.traces

VARIABLES tr, l
tvars == <<tr, l>>
Items == Traces[tr].items

TInit ==
  /\ tr \in 1..Len(Traces) /\ l = 1
  /\ inside = Traces[tr].inside
  /\ stop = Traces[tr].stop /\ stepC = Traces[tr].stepC /\ stepA = Traces[tr].stepA
  /\ pc = "outer" /\ start = Traces[tr].start /\ x = Traces[tr].start /\ last = 0
  /\ soi = Sphere(0) /\ cur = Sphere(0) /\ active = Sphere(0)
  /\ out = <<>> /\ ny = 0

Logged ==
  /\ l <= Len(Items)
  /\ Items[l][1] = x /\ Items[l][2] = active          \* the event carries the date and the frame of the yielded point
  /\ InnerYield
  /\ l' = l + 1 /\ tr' = tr
Silent == (OuterTest \/ InnerEnd \/ Switch) /\ UNCHANGED tvars

TNext == Logged \/ Silent
\* progress report: the harness keeps the highest l reached per trace (accepted iff it reaches Len(Items) + 1)
Report == PrintT(<<"VERIF", tr, l>>)
=============================================================================
