----------------------------- MODULE Sgp4Plumbing -----------------------------
(***************************************************************************)
(* Property C07, first sentence: the default SGP4 propagator is a wrapper  *)
(* around the reference implementation (python-sgp4, Vallado's code,       *)
(* WGS-72).  "Equals the reference" then reduces to plumbing, which this   *)
(* TRACE specification validates on traces recorded from the real wrapper  *)
(* (harness/sgp4_trace.py wraps sgp4.io.twoline2rv and the returned        *)
(* record's propagate from outside the library):                           *)
(*   init  - the two lines handed to the reference library are the TLE     *)
(*           of the orbit (text produced by Tle.tla's Format for the       *)
(*           orbit's fields)                                               *)
(*   call  - the calendar tuple handed to the library is the UTC clock     *)
(*           reading of the requested INSTANT (Dates.tla, whatever the     *)
(*           label of the date), and the wrapper returns 1000 x the        *)
(*           library's output (km -> m, km/s -> m/s)                       *)
(***************************************************************************)
EXTENDS Dates, Json, IOUtils

Data == JsonDeserialize(IOEnv.TRACE_FILE)
Traces == Data.traces

VARIABLES tr, i, bad
tvars == <<tr, i, bad>>
Items == Traces[tr].items

\* civil calendar date of an MJD day (Fliegel & Van Flandern)
Civil(mjd) ==
  LET l0 == mjd + 2400001 + 68569
      n  == (4 * l0) \div 146097
      l1 == l0 - (146097 * n + 3) \div 4
      ii == (4000 * (l1 + 1)) \div 1461001
      l2 == l1 - (1461 * ii) \div 4 + 31
      j  == (80 * l2) \div 2447
      dd == l2 - (2447 * j) \div 80
      l3 == j \div 11
      mm == j + 2 - 12 * l3
      yy == 100 * (n - 49) + ii + l3
  IN <<yy, mm, dd>>

\* expected tuple for an instant given in TAI as <<day, second, microsecond>>
ExpectedTuple(ins) ==
  LET utc == Rd(<<ins[1], ins[2], ins[3] * 10>>, "UTC")
      c == Civil(utc[1])
  IN <<c[1], c[2], c[3], utc[2] \div 3600, (utc[2] % 3600) \div 60, utc[2] % 60, utc[3] \div 10>>

\* same calendar day and clock reading within 2 microseconds (relabelled dates carry 1 us of conversion rounding)
SecOfDay(t) == t[4] * 3600 + t[5] * 60 + t[6]
TupleClose(a, b) ==
  /\ a[1] = b[1] /\ a[2] = b[2] /\ a[3] = b[3]
  /\ LET ds == SecOfDay(a) - SecOfDay(b) IN
       /\ ds \in {-1, 0, 1}
       /\ LET du == ds * 1000000 + (a[7] - b[7]) IN du >= -2 /\ du <= 2

ItemBad(it) ==
  IF it.ev = "init"
  THEN (IF it.l1 = it.want1 /\ it.l2 = it.want2 THEN {} ELSE {<<"lines", i>>})
  ELSE (IF TupleClose(it.tuple, ExpectedTuple(it.inst)) THEN {} ELSE {<<"date-tuple", i>>})
       \cup (IF it.ret = it.out THEN {} ELSE {<<"units", i>>})
       \cup (IF it.retdate = it.inst THEN {} ELSE {<<"result-date", i>>})

TInit == /\ tr \in 1..Len(Traces) /\ i = 1 /\ bad = {}
         /\ inst = <<0, 0, 0>> /\ lab = "UTC" /\ lab0 = "UTC" /\ rd0 = <<0, 0, 0>> /\ hist = <<>> /\ rd = <<0, 0, 0>>
TNext == /\ i <= Len(Items)
         /\ bad' = bad \cup ItemBad(Items[i])
         /\ i' = i + 1 /\ tr' = tr
         /\ UNCHANGED <<inst, lab, lab0, rd0, hist, rd>>
Report == (i = Len(Items) + 1 /\ bad # {}) => PrintT(<<"VERIF", tr, bad>>)
=============================================================================
