------------------------------ MODULE Listeners ------------------------------
(***************************************************************************)
(* Event detection of beyond.propagators.listeners.Speaker (property C10)  *)
(* on an integer microsecond grid, so that the real code can be run on     *)
(* exactly the ticks of the model.                                         *)
(*                                                                         *)
(* A listener watches a sign pattern g : tick -> {-1, +1}, given by its    *)
(* initial sign and the set of ticks at which it flips (the sign at a flip *)
(* tick is already the new one).  An iteration samples the orbit at        *)
(* Samples[1], Samples[2], ...; between two samples every listener whose   *)
(* sign differs is bisected and an event is emitted; events of one         *)
(* interval are sorted by date and come before the sample.                 *)
(*                                                                         *)
(* CONTRACT (checked on `out`):                                            *)
(*   Sound/Complete - an event of l between consecutive samples s < s'     *)
(*                    iff sign g_l(s) # sign g_l(s')                       *)
(*   Between        - s < t <= s'                                          *)
(*   Sharp          - g_l flips exactly at t  (g_l(t-1) # g_l(t))          *)
(*   Label          - the label is the direction of the flip at t          *)
(*   Ordered        - the whole stream is chronological                    *)
(*   Fresh          - after Clear the first sample never yields an event   *)
(* IMPLEMENTATION-SHAPED: listen()/_bisect() with timedelta halving        *)
(* (division rounds half to even at 1 us), listeners in list order.        *)
(***************************************************************************)
EXTENDS Integers, Sequences, FiniteSets, TLC

CONSTANTS Samples,    \* sequence of sample ticks of one iteration, strictly increasing
          NL,         \* number of listeners
          MaxFlips,   \* max number of flip ticks per listener
          Passes      \* number of iterations re-using the same listener objects

Horizon == Samples[Len(Samples)]
L == 1..NL

VARIABLES pat,     \* pat[l] = [init |-> +-1, flips |-> set of ticks]   (chosen in Init, constant afterwards)
          prev,    \* prev[l] = tick of the orbit saved in listener.prev, -1 = None
          k,       \* index of the next sample
          pass,    \* current iteration number
          out      \* output stream of the current iteration: <<tick, l, dir>> (l = 0: sample)

vars == <<pat, prev, k, pass, out>>

\* sign of listener l at tick t
G(p, t) == IF Cardinality({f \in p.flips : f <= t}) % 2 = 0 THEN p.init ELSE -p.init

\* timedelta / 2 : exact rational rounded half to even
Half(d) == IF d % 2 = 0 THEN d \div 2
           ELSE LET lo == (d - 1) \div 2 IN IF lo % 2 = 0 THEN lo ELSE lo + 1

\* Speaker._bisect(begin, end, listener): returns the tick of `end` when the halving stops
RECURSIVE Bisect(_, _, _)
Bisect(p, b, e) ==
  LET step == Half(e - b) IN
  IF step < 1 THEN e
  ELSE LET d == b + step IN
       IF G(p, b) * G(p, d) > 0 THEN Bisect(p, d, e) ELSE Bisect(p, b, d)

\* events of one listen() call at sample tick t, in listener order, then sorted by date (stable)
Fired(t) == {l \in L : prev[l] # -1 /\ G(pat[l], t) # G(pat[l], prev[l])}
EventOf(l, t) == LET e == Bisect(pat[l], prev[l], t) IN <<e, l, G(pat[l], e)>>
RECURSIVE SortedEvents(_, _)
SortedEvents(S, t) ==
  IF S = {} THEN <<>>
  ELSE LET ev == [l \in S |-> EventOf(l, t)]
           m  == CHOOSE l \in S : \A o \in S : ev[l][1] < ev[o][1] \/ (ev[l][1] = ev[o][1] /\ l <= o)
       IN <<ev[m]>> \o SortedEvents(S \ {m}, t)

\* subsets of at most k elements, built constructively (filtering SUBSET (1..Horizon) enumerates 2^Horizon sets)
RECURSIVE UpTo(_, _)
UpTo(S, n) == IF n = 0 THEN {{}} ELSE LET smaller == UpTo(S, n - 1) IN smaller \cup {F \cup {x} : F \in smaller, x \in S}
Patterns == [init : {-1, 1}, flips : UpTo(1..Horizon, MaxFlips)]

Init ==
  /\ pat \in [L -> Patterns]
  /\ prev = [l \in L |-> -1]
  /\ k = 1 /\ pass = 1
  /\ out = <<>>

\* iter(): clear_listeners, then for each sample: listen (events, sorted) then the sample itself
Sample ==
  /\ k <= Len(Samples)
  /\ LET t == Samples[k] IN
       /\ out' = out \o SortedEvents(Fired(t), t) \o << <<t, 0, 0>> >>
       /\ prev' = [l \in L |-> t]
  /\ k' = k + 1
  /\ UNCHANGED <<pat, pass>>

\* a new iteration with the same listener objects: clear_listeners() resets prev
NewPass ==
  /\ k > Len(Samples) /\ pass < Passes
  /\ prev' = [l \in L |-> -1]
  /\ k' = 1 /\ pass' = pass + 1 /\ out' = <<>>
  /\ UNCHANGED pat

Next == Sample \/ NewPass
Spec == Init /\ [][Next]_vars

-----------------------------------------------------------------------------
(* CONTRACT over an output stream `o` for patterns `p` (also used by ListenersTrace on real streams) *)

IsSample(x) == x[2] = 0
SamplesOf(o) == {i \in 1..Len(o) : IsSample(o[i])}
\* index of the sample preceding / following position i
PrevSample(o, i) == LET S == {j \in SamplesOf(o) : j < i} IN IF S = {} THEN 0 ELSE CHOOSE j \in S : \A q \in S : q <= j
NextSample(o, i) == LET S == {j \in SamplesOf(o) : j > i} IN IF S = {} THEN 0 ELSE CHOOSE j \in S : \A q \in S : q >= j

Ordered(o) == \A i \in 1..(Len(o) - 1) : o[i][1] <= o[i + 1][1]
Between(o) == \A i \in 1..Len(o) : ~IsSample(o[i]) =>
                 /\ PrevSample(o, i) # 0 /\ NextSample(o, i) # 0
                 /\ o[PrevSample(o, i)][1] < o[i][1] /\ o[i][1] <= o[NextSample(o, i)][1]
Sharp(o, p) == \A i \in 1..Len(o) : ~IsSample(o[i]) => G(p[o[i][2]], o[i][1]) # G(p[o[i][2]], o[i][1] - 1)
Label(o, p) == \A i \in 1..Len(o) : ~IsSample(o[i]) => o[i][3] = G(p[o[i][2]], o[i][1])
\* exactly the listeners whose sign differs between consecutive samples fire, once each
SoundComplete(o, p) ==
  \A j \in SamplesOf(o) :
     LET n == NextSample(o, j) IN
     n # 0 =>
       \A l \in L :
          Cardinality({i \in (j + 1)..(n - 1) : o[i][2] = l}) =
            (IF G(p[l], o[j][1]) # G(p[l], o[n][1]) THEN 1 ELSE 0)
Fresh(o) == o # <<>> => IsSample(o[1])

ContractOK == /\ Ordered(out) /\ Between(out) /\ Sharp(out, pat) /\ Label(out, pat)
              /\ SoundComplete(out, pat) /\ Fresh(out)
=============================================================================
