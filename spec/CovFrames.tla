------------------------------ MODULE CovFrames ------------------------------
(***************************************************************************)
(* Covariance frame changes (beyond.orbits.cov.Cov, property C14) on the   *)
(* exact lattice: frames are octahedral rotations of EME2000, the state is *)
(* axis aligned so that QSW / TNW axes are signed permutations, and the    *)
(* covariance is an integer symmetric matrix.  Everything is exact.        *)
(*                                                                         *)
(* CONTRACT: cov(target) = J(target) C0 J(target)^T where J depends only   *)
(* on the target: the rotation from the attachment frame to the target,    *)
(* QSW/TNW being built from the position and velocity in the attachment    *)
(* (inertial) frame.  Hence path independence and restoration.             *)
(* IMPLEMENTATION-SHAPED: the m1/m2 two-step of Cov.frame with the private *)
(* state copy that follows non-local targets while _orb_frame stays.       *)
(***************************************************************************)
EXTENDS Integers, Sequences, FiniteSets, TLC, Mat

CONSTANTS Rot,       \* frame id -> 3x3 integer rotation taking EME2000 coordinates to frame coordinates (Rot[1] = identity)
          Pos, Vel,  \* axis-aligned position and velocity directions in EME2000 coordinates
          C0,        \* integer symmetric 6x6 matrix, expressed in the attachment frame
          Attach,    \* frame id in which the state and covariance are given
          MaxHops,
          PrivateFollows   \* TRUE: the behaviour before fix 5e6d814 (the private state copy followed every non-local target
                           \* while _orb_frame stayed): kept as a named deviation for regression exploration

NF == Len(Rot)
\* targets: frame ids 1..NF, then the two local orbital frames (TLC cannot mix strings and integers in one set)
QSW == NF + 1
TNW == NF + 2
Targets == 1..(NF + 2)
Local(t) == t > NF

VARIABLES cf,     \* frame the covariance is currently expressed in
          mat,    \* its matrix according to the implementation-shaped model
          pf,     \* frame of the covariance's private copy of the state
          sf,     \* frame the state vector itself is currently expressed in
          hist,   \* actions: <<"cov", target>> or <<"state", target>>
          exp     \* CONTRACT value of the covariance in its current frame (exported for the replay)

vars == <<cf, mat, pf, sf, hist, exp>>

\* local orbital frame matrices (rows = axes) from a state expressed in frame f coordinates
PosIn(f) == MatVec(Rot[f], Pos)
VelIn(f) == MatVec(Rot[f], Vel)
Qsw(p, v) == LET q == AxisUnit(p) w == AxisUnit(Cross(p, v)) IN <<q, Cross(w, q), w>>
Tnw(p, v) == LET t == AxisUnit(v) w == AxisUnit(Cross(p, v)) IN <<t, Cross(w, t), w>>
LocalMat(name, f) == IF name = QSW THEN Qsw(PosIn(f), VelIn(f)) ELSE Tnw(PosIn(f), VelIn(f))

\* rotation taking coordinates in frame a to coordinates in frame b
RotAB(a, b) == MatMul(Rot[b], Transpose(Rot[a]))

\* CONTRACT: the map from the attachment frame to a target
J(t) == IF Local(t) THEN LocalMat(t, Attach) ELSE RotAB(Attach, t)
Expected(t) == LET j == Block6(J(t)) IN MatMul(MatMul(j, C0), Transpose(j))

Init ==
  /\ cf = Attach /\ mat = C0 /\ pf = Attach /\ sf = Attach /\ hist = <<>> /\ exp = C0

\* effect of the Cov.frame setter
CovMove(t) ==
  /\ LET m1 == IF Local(cf) THEN Transpose(LocalMat(cf, pf))      \* to_local(self.frame, self.orb).T : private state !
               ELSE IF cf # Attach THEN RotAB(cf, Attach) ELSE Ident(3)
         m2 == IF Local(t) THEN LocalMat(t, pf)                    \* to_local(frame, self.orb)
               ELSE IF Attach # t THEN RotAB(Attach, t) ELSE Ident(3)
         m == Block6(MatMul(m2, m1))
     IN mat' = MatMul(MatMul(m, mat), Transpose(m))
  /\ cf' = t
  /\ pf' = IF PrivateFollows /\ ~Local(t) THEN t ELSE pf    \* (was: self.orb.frame = frame)

\* cov.frame = t
SetFrame(t) ==
  /\ Len(hist) < MaxHops
  /\ t # cf
  /\ CovMove(t)
  /\ sf' = sf
  /\ exp' = Expected(t)
  /\ hist' = Append(hist, <<"cov", t>>)

\* state.frame = t : a covariance expressed in the state's frame follows it
StateSetFrame(t) ==
  /\ Len(hist) < MaxHops
  /\ ~Local(t) /\ t # sf
  /\ IF cf = sf THEN CovMove(t) ELSE UNCHANGED <<cf, mat, pf>>
  /\ sf' = t
  /\ exp' = IF cf = sf THEN Expected(t) ELSE exp
  /\ hist' = Append(hist, <<"state", t>>)

Next == \E t \in Targets : SetFrame(t) \/ StateSetFrame(t)
Spec == Init /\ [][Next]_vars

\* spec-level sanity: frames are proper rotations, local frames too, C0 symmetric
WellFormed ==
  /\ \A f \in 1..NF : IsRotation(Rot[f])
  /\ IsRotation(Qsw(PosIn(Attach), VelIn(Attach))) /\ IsRotation(Tnw(PosIn(Attach), VelIn(Attach)))
  /\ IsSymmetric(C0) /\ \A t \in Targets : IsSymmetric(Expected(t))
  /\ Expected(Attach) = C0
\* the implementation-shaped model against the contract (candidate generator)
ModelMeetsContract == mat = exp /\ exp = Expected(cf)
=============================================================================
