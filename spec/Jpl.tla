---------------------------------- MODULE Jpl ----------------------------------
(***************************************************************************)
(* Solar-system bodies from a JPL SPK kernel (property C18, second         *)
(* sentence).  The kernel is a set of segments <<centre, target>> (read    *)
(* from the file by an independent reader and given as a constant); they   *)
(* form a tree rooted at the solar-system barycentre (0).  The position of *)
(* body b as seen from body a is the FORMAL SIGNED SUM of segments         *)
(*      pos(b) - pos(a) ,   pos(x) = sum of the segments from the root to x *)
(* i.e. + the segments on the root path of b that are not on that of a,    *)
(* and - those on the root path of a that are not on that of b.            *)
(* TLC enumerates every ordered pair, checks the tree and the algebra      *)
(* (antisymmetry, triangle law) and exports the signed sums; the harness   *)
(* evaluates them with the segments' own Chebyshev evaluation and compares *)
(* with the frames and orbits the library builds from the same file.       *)
(***************************************************************************)
EXTENDS Integers, Sequences, FiniteSets, TLC

CONSTANTS Seg       \* sequence of <<centre, target>>

Bodies == {Seg[i][1] : i \in 1..Len(Seg)} \cup {Seg[i][2] : i \in 1..Len(Seg)}
SegOf(t) == CHOOSE i \in 1..Len(Seg) : Seg[i][2] = t
IsTarget(t) == \E i \in 1..Len(Seg) : Seg[i][2] = t

\* segments (indices) on the path from the root to x
RECURSIVE RootPath(_, _)
RootPath(x, fuel) == IF ~IsTarget(x) \/ fuel = 0 THEN {} ELSE {SegOf(x)} \cup RootPath(Seg[SegOf(x)][1], fuel - 1)
Path(x) == RootPath(x, Len(Seg))

VARIABLES a, b, plus, minus
vars == <<a, b, plus, minus>>

Init == /\ a \in Bodies /\ b \in Bodies /\ a # b
        /\ plus = Path(b) \ Path(a)
        /\ minus = Path(a) \ Path(b)
Next == UNCHANGED vars

\* the kernel is a tree: every target has exactly one centre, one root only
Roots == {x \in Bodies : ~IsTarget(x)}
TreeOK == /\ \A t \in Bodies : Cardinality({i \in 1..Len(Seg) : Seg[i][2] = t}) <= 1
          /\ Cardinality(Roots) = 1
\* algebra of the formal sums
Antisymmetric == plus = Path(b) \ Path(a) /\ minus = (Path(a) \ Path(b))
Triangle == \A c \in Bodies :
              \* (b - a) = (c - a) + (b - c) as signed multisets: every segment's net coefficient agrees
              \A s \in 1..Len(Seg) :
                 LET co(x, y) == (IF s \in Path(y) \ Path(x) THEN 1 ELSE 0) - (IF s \in Path(x) \ Path(y) THEN 1 ELSE 0)
                 IN co(a, b) = co(a, c) + co(c, b)
NonEmpty == plus \cup minus # {}
=============================================================================
