---------------------------- MODULE EphemSettings ----------------------------
(***************************************************************************)
(* History dimension of property C09: an ephemeris object carries its      *)
(* interpolation settings (method, order) as mutable attributes, and       *)
(* builds its interpolator lazily.  CONTRACT: every interpolation uses the *)
(* settings in force when it is made - whatever was interpolated, or set,  *)
(* before.  The behaviours (set order / set method / convert the points in *)
(* place to another frame or form / interpolate, in any                    *)
(* order) are enumerated by TLC and replayed on one real Ephem object per  *)
(* behaviour; each real result is compared with a FRESH ephemeris built    *)
(* with the settings the model says are in force (and, for Lagrange, with  *)
(* the polynomial the table was sampled from when its degree is below the  *)
(* order - Interp.tla's LagrangeOK).                                       *)
(*                                                                         *)
(* Named deviation FreezeAtFirstUse: the settings of the first             *)
(* interpolation stay in force (an interpolator cached without following   *)
(* the setters); TLC shows it leaves the contract.                         *)
(*                                                                         *)
(* The behaviour may also go on with a DUPLICATE of the object: a pickle   *)
(* round trip (settings kept) or ephem.copy().  For the latter the         *)
(* contract one would expect - a copy interpolates as its source - is the  *)
(* invariant CopyKeepsSettings; the code rebuilds the copy from its points *)
(* alone, i.e. with the DEFAULT method and order: named deviation          *)
(* CopyResetsSettings (TRUE = what the code does; outside the listed       *)
(* properties, so the replay follows the code and TLC reports where the    *)
(* expectation breaks).                                                    *)
(***************************************************************************)
EXTENDS Integers, Sequences, FiniteSets, TLC

CONSTANTS Orders,            \* orders that may be set
          Reprs,             \* set of <<frame, form>> the ephemeris may be converted to in place
          Queries,           \* abscissae (half-steps of the table) that may be interpolated
          MaxLen,
          FreezeAtFirstUse,  \* FALSE: the contract; TRUE: the deviation
          CopyResetsSettings \* TRUE: ephem.copy() comes back with the default method and order (what the code does)

VARIABLES method, order,     \* what the getters report
          repr,              \* <<frame, form>> of the points (ephem.frame = / ephem.form = convert them in place)
          usedrepr,          \* representation of the values the next interpolation will really use
          used,              \* <<method, order>> the next interpolation will really use
          built,
          hist               \* actions so far: <<"order", k>>, <<"method", m>>, <<"interp", q, method used, order used>>

vars == <<method, order, repr, usedrepr, used, built, hist>>

Methods == {"lagrange", "linear"}

Init == /\ method = "lagrange" /\ order = 8 /\ used = <<"lagrange", 8>> /\ built = FALSE /\ hist = <<>>
        /\ repr = <<"EME2000", "cartesian">> /\ usedrepr = <<"EME2000", "cartesian">>

Can == Len(hist) < MaxLen
SetOrder(k) ==
  /\ Can /\ k # order
  /\ order' = k
  /\ used' = IF FreezeAtFirstUse /\ built THEN used ELSE <<used[1], k>>
  /\ hist' = Append(hist, <<"order", k>>)
  /\ UNCHANGED <<method, built, repr, usedrepr>>
SetMethod(m) ==
  /\ Can /\ m # method
  /\ method' = m
  /\ used' = IF FreezeAtFirstUse /\ built THEN used ELSE <<m, used[2]>>
  /\ hist' = Append(hist, <<"method", m>>)
  /\ UNCHANGED <<order, built, repr, usedrepr>>
\* an interpolated point is reached through four DOORS - interpolate(), its alias propagate(), an iteration over an explicit date,
\* the sub-ephemeris built from one - which the contract does not tell apart: TLC enumerates the choice
Doors == {"interpolate", "propagate", "iter-dates", "ephem-dates"}
Interpolate(q, door) ==
  /\ Can
  /\ built' = TRUE
  /\ hist' = Append(hist, <<"interp", q, used[1], used[2], usedrepr[1], usedrepr[2], door>>)
  /\ UNCHANGED <<method, order, used, repr, usedrepr>>
\* ephem.frame = f / ephem.form = f : every point is converted in place
Convert(r) ==
  /\ Can /\ r # repr
  /\ repr' = r
  /\ usedrepr' = IF FreezeAtFirstUse /\ built THEN usedrepr ELSE r
  /\ hist' = Append(hist, <<"convert", r[1], r[2]>>)
  /\ UNCHANGED <<method, order, used, built>>

\* go on with a duplicate of the object (the interpolator of the new object is not built yet)
Pickle ==
  /\ Can
  /\ built' = FALSE /\ used' = <<method, order>> /\ usedrepr' = repr
  /\ hist' = Append(hist, <<"pickle">>)
  /\ UNCHANGED <<method, order, repr>>
Copy ==
  /\ Can
  /\ method' = IF CopyResetsSettings THEN "lagrange" ELSE method
  /\ order' = IF CopyResetsSettings THEN 8 ELSE order
  /\ built' = FALSE /\ used' = <<method', order'>> /\ usedrepr' = repr
  /\ hist' = Append(hist, <<"copy">>)
  /\ UNCHANGED repr

Next == Pickle \/ Copy \/ (\E k \in Orders : SetOrder(k)) \/ (\E m \in Methods : SetMethod(m)) \/ (\E q \in Queries, d \in Doors : Interpolate(q, d)) \/ (\E r \in Reprs : Convert(r))
Spec == Init /\ [][Next]_vars

\* CONTRACT: what an interpolation uses is what the getters report
UsesCurrentSettings == used = <<method, order>> /\ usedrepr = repr
\* expectation (not demanded by a listed property): duplicating the object does not change how it interpolates
CopyKeepsSettings == [][(hist' # hist /\ hist'[Len(hist')][1] \in {"copy", "pickle"}) => (method' = method /\ order' = order)]_vars
=============================================================================
