-------------------------------- MODULE Local --------------------------------
(***************************************************************************)
(* Local orbital frames (beyond.frames.local, property C17) on the exact   *)
(* lattice: integer position r and velocity v whose norms and whose        *)
(* angular-momentum norm are integers, so that every axis is an integer    *)
(* vector over an integer denominator.                                     *)
(*   QSW rows:  q = r/|r| ,  s = w x q ,  w = (r x v)/|r x v|              *)
(*   TNW rows:  t = v/|v| ,  n = w x t ,  w                                *)
(* TLC checks that these are proper rotations with the stated axes and     *)
(* exports, per lattice state: the rows, the projection of every delta-v   *)
(* given in QSW/TNW axes into the inertial frame (M^T dv), and the exact   *)
(* coordinates of a second state in the frame attached to the first.       *)
(***************************************************************************)
EXTENDS Integers, Sequences, FiniteSets, TLC, Mat

CONSTANTS States,    \* set of <<r, v, |r|, |v|, |r x v|>>
          Dvs,       \* integer delta-v vectors (components along the local axes)
          Others     \* set of <<r2, v2>> : second states for the orbit-attached frame

VARIABLES st, dv, other,
          qsw, tnw,      \* rows as <<numerator vector, denominator>>
          pq, pt,        \* projected delta-v: <<numerator vector, denominator>> for QSW and TNW tags
          relq, relt     \* position of `other` relative to st in QSW / TNW axes: <<numerator, denominator>> (and velocity)

vars == <<st, dv, other, qsw, tnw, pq, pt, relq, relt>>

R == st[1]
V == st[2]
NR == st[3]
NV == st[4]
NH == st[5]
Hv == Cross(R, V)

QswRows == << <<R, NR>>, <<Cross(Hv, R), NH * NR>>, <<Hv, NH>> >>
TnwRows == << <<V, NV>>, <<Cross(Hv, V), NH * NV>>, <<Hv, NH>> >>

\* M^T d for rows given as numerator/denominator pairs: common denominator = product of the three
ProjT(rows, d) ==
  LET den == rows[2][2]        \* the second row's denominator (|h| |r| or |h| |v|) is a common multiple of the three
      term(k) == Scale(d[k] * (den \div rows[k][2]), rows[k][1])
  IN <<VecAdd(VecAdd(term(1), term(2)), term(3)), den>>
\* M x for a 3-vector x: component k = row_k . x / den_k ; common denominator again
Apply(rows, x) ==
  LET den == rows[2][2]
  IN <<[k \in 1..3 |-> Dot(rows[k][1], x) * (den \div rows[k][2])], den>>

Init ==
  /\ st \in States /\ dv \in Dvs /\ other \in Others
  /\ qsw = QswRows /\ tnw = TnwRows
  /\ pq = ProjT(QswRows, dv) /\ pt = ProjT(TnwRows, dv)
  /\ relq = <<Apply(QswRows, VecSub(other[1], R)), Apply(QswRows, VecSub(other[2], V))>>
  /\ relt = <<Apply(TnwRows, VecSub(other[1], R)), Apply(TnwRows, VecSub(other[2], V))>>
Next == UNCHANGED vars

\* ---- spec-level checks -------------------------------------------------------------------------------------
NormsOK == Dot(R, R) = NR * NR /\ Dot(V, V) = NV * NV /\ Dot(Hv, Hv) = NH * NH /\ NH > 0
Orthonormal(rows) ==
  /\ \A k \in 1..3 : Dot(rows[k][1], rows[k][1]) = rows[k][2] * rows[k][2]
  /\ \A k, l \in 1..3 : k # l => Dot(rows[k][1], rows[l][1]) = 0
RightHanded(rows) ==   \* row1 x row2 = row3  (numerators: n1 x n2 * d3 = n3 * d1 * d2)
  Scale(rows[3][2], Cross(rows[1][1], rows[2][1])) = Scale(rows[1][2] * rows[2][2], rows[3][1])
ProperRotations == NormsOK /\ Orthonormal(qsw) /\ Orthonormal(tnw) /\ RightHanded(qsw) /\ RightHanded(tnw)
\* a maneuver contributes exactly its stated magnitude
MagnitudeKept == Dot(pq[1], pq[1]) = Dot(dv, dv) * pq[2] * pq[2] /\ Dot(pt[1], pt[1]) = Dot(dv, dv) * pt[2] * pt[2]
=============================================================================
