---------------------------- MODULE RoutingTrace ----------------------------
(***************************************************************************)
(* Conformance of the REAL beyond.utils.node.Node against the contract of  *)
(* Routing.tla.  The harness replays link histories on real Node objects,  *)
(* projects (neighbour order, route tables) after every `+` and writes the *)
(* distinct projected states and the observed transitions to a JSON file.  *)
(* Here every projected state is judged with the contract operators        *)
(* (Failing), every transition with the Link action's effect on the        *)
(* neighbour tables.  Verdicts are total: each failing item is printed.    *)
(***************************************************************************)
EXTENDS Routing, Json, IOUtils

Data == JsonDeserialize(IOEnv.TRACE_FILE)
States == Data.states
Steps  == Data.steps

VARIABLE k
NItems == Len(States) + Len(Steps)

\* effect of  a + b  on the neighbour tables, whatever the route algorithm
LinkEffect(pre, post, a, b) ==
  /\ a # b
  /\ \A x \in Nodes \ {a, b} : post[x] = pre[x]
  /\ post[a] = AppendUnique(pre[a], b)
  /\ post[b] = AppendUnique(pre[b], a)

\* on a forest, a link never changes the chain between nodes that were already connected
Stable(pre, post) ==
  ForestP(post.nb) =>
    \A p \in ValidPairs(pre.nb, pre.rt) : Walk(post.rt, p[1], p[2]) = Walk(pre.rt, p[1], p[2])

Verdict(i) ==
  IF i <= Len(States)
  THEN Failing(States[i].nb, States[i].rt)
  ELSE LET s == Steps[i - Len(States)]
           pre == States[s.pre]
           post == States[s.post]
       IN (IF LinkEffect(pre.nb, post.nb, s.a, s.b) THEN {} ELSE {"link-effect"})
          \cup (IF Stable(pre, post) THEN {} ELSE {"existing-route-changed"})

TInit == k \in 1..NItems /\ nbrs = <<>> /\ routes = <<>> /\ hist = <<>>
TNext == UNCHANGED <<k, nbrs, routes, hist>>
Report == LET f == Verdict(k) IN IF f = {} THEN TRUE ELSE PrintT(<<"VERIF", k, f>>)
=============================================================================
