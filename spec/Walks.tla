-------------------------------- MODULE Walks --------------------------------
(***************************************************************************)
(* Law-driven replay (binding B4 of DESIGN.md): the state is an abstract    *)
(* TOKEN (a physical state / an instant / a message) and a representation  *)
(* LABEL; actions change the label, never the token.  TLC enumerates every *)
(* walk over the labels up to a bound; the harness instantiates each walk  *)
(* with concrete payloads on the real library and checks that the          *)
(* projected token is unchanged after every step.                          *)
(***************************************************************************)
EXTENDS Naturals, Sequences, TLC

CONSTANTS Labels,   \* set of representation labels (frames, forms, scales ...)
          MaxLen    \* walks visit at most MaxLen labels

VARIABLES walk, token
vars == <<walk, token>>

Init == \E l \in Labels : walk = <<l>> /\ token = 0
Step(l) == /\ Len(walk) < MaxLen
           /\ l # walk[Len(walk)]
           /\ walk' = Append(walk, l)
           /\ token' = token            \* the law: relabelling never changes the token
Next == \E l \in Labels : Step(l)
Spec == Init /\ [][Next]_vars
TokenInvariant == token = 0
=============================================================================
