------------------------------ MODULE TleEpoch ------------------------------
(***************************************************************************)
(* Property C12, "the epoch to 1e-8 day", for orbits whose epoch does NOT  *)
(* come from a TLE text: any UTC date with microseconds.                   *)
(*                                                                         *)
(* The writer has to turn (year, day of year, second of day, microsecond)  *)
(* into the fields  yy ddd.ffffffff : rounding the fraction to 8 digits    *)
(* may carry into the day (23:59:59.9998 is day + 1, fraction 0), and at   *)
(* the end of a year into the next year (or into a day number one beyond   *)
(* the length of the year, which the reader takes as 1 January).           *)
(*                                                                         *)
(* GENERATION  (INIT GInit): TLC enumerates the corner grid - years on     *)
(* both sides of the 57 / 00 window and leap / common, first / last days,  *)
(* seconds and microseconds at the two ends of the day.                    *)
(* JUDGEMENT   (INIT TInit): harness/tle_epoch.py writes each date with    *)
(* Tle.from_orbit and logs the epoch columns it finds in line 1 and the    *)
(* date the reader gives back; TLC evaluates, in exact integer arithmetic  *)
(* (32-bit safe: second and microsecond limbs), the distance between the   *)
(* written epoch and the true one.                                         *)
(***************************************************************************)
EXTENDS Integers, Sequences, TLC, Json, IOUtils

CONSTANTS Years, Doys, Secs, Uss

VARIABLES year, doy, sec, us, k
vars == <<year, doy, sec, us, k>>

Leap(y) == y % 4 = 0 /\ (y % 100 # 0 \/ y % 400 = 0)
DaysIn(y) == IF Leap(y) THEN 366 ELSE 365
FullYear(yy) == IF yy < 57 THEN 2000 + yy ELSE 1900 + yy      \* the two-digit year window of the format

GInit == year \in Years /\ doy \in {d \in Doys : d <= DaysIn(year)} \cup {DaysIn(year)} /\ sec \in Secs /\ us \in Uss /\ k = 0
GNext == UNCHANGED vars

-----------------------------------------------------------------------------
\* an 8-digit fraction of day as <<seconds, microseconds>>: f x 864 us = (f div 10^6) x 864 s + (f mod 10^6) x 864 us
FracToSecUs(f) == LET p == (f % 1000000) * 864 IN <<(f \div 1000000) * 864 + p \div 1000000, p % 1000000>>

\* signed distance (microseconds) from the true epoch to a written one, or a token when it is a second or more
Distance(y, d, s, u, wyy, wdoy, wfrac) ==
  LET wy == FullYear(wyy)
      su == FracToSecUs(wfrac)
      dd == IF wy = y THEN wdoy - d ELSE IF wy = y + 1 THEN wdoy - d + DaysIn(y) ELSE IF wy = y - 1 THEN wdoy - d - DaysIn(wy) ELSE 9999
      ds == dd * 86400 + su[1] - s
  IN IF dd > 2 \/ dd < -2 THEN <<"days", dd>> ELSE IF ds > 2 \/ ds < -2 THEN <<"seconds", ds>> ELSE <<"us", ds * 1000000 + su[2] - u>>

Tol == 864       \* 1e-8 day
Within(dist, tol) == dist[1] = "us" /\ dist[2] <= tol /\ -dist[2] <= tol

Data == JsonDeserialize(IOEnv.TRACE_FILE)
Ev == Data.events
Verdict(e) ==
  (IF Within(Distance(e.year, e.doy, e.sec, e.us, e.wyy, e.wdoy, e.wfrac), Tol) THEN {} ELSE {"written"})
  \* what the library's own reader makes of the lines: the same instant, to the resolution of the text (+ 1 us)
  \cup (IF e.ryear = 0 THEN {"unreadable"}
        ELSE LET dd == IF e.ryear = e.year THEN e.rdoy - e.doy ELSE IF e.ryear = e.year + 1 THEN e.rdoy - e.doy + DaysIn(e.year) ELSE 9999
                 ds == dd * 86400 + e.rsec - e.sec
             IN IF dd <= 2 /\ dd >= -2 /\ ds <= 2 /\ ds >= -2 /\ ds * 1000000 + e.rus - e.us <= Tol + 1 /\ e.us - e.rus - ds * 1000000 <= Tol + 1
                THEN {} ELSE {"read-back"})
  \cup (IF e.len1 = 69 /\ e.len2 = 69 THEN {} ELSE {"length"})

TInit == k \in 1..Len(Ev) /\ year = 0 /\ doy = 0 /\ sec = 0 /\ us = 0
TNext == UNCHANGED vars
Report == LET f == Verdict(Ev[k]) IN IF f = {} THEN TRUE ELSE PrintT(<<"VERIF", k, f>>)

\* sanity of the limb arithmetic (checked in generation mode)
FracSane == \A f \in {0, 1, 50000000, 99999999} : LET su == FracToSecUs(f) IN su[1] \in 0..86399 /\ su[2] \in 0..999999
=============================================================================
