--------------------------- MODULE VisibilityTrace ---------------------------
(***************************************************************************)
(* Property C10, last clause: "a station visibility stream consists of     *)
(* exactly the above-horizon sample points plus the AOS/LOS/MAX events,    *)
(* whose elevation (resp. elevation rate) is zero" - together with the     *)
(* general clauses (one event per sign change between consecutive samples, *)
(* label by direction, chronological order) and the quantifier's "repeated *)
(* iterations re-using the same listener objects".                         *)
(*                                                                         *)
(* A trace is ONE call of station.visibility(orbit, start, stop, step,     *)
(* events / listeners in one of the accepted styles), recorded by          *)
(* harness/visibility_trace.py together with an independent evaluation of  *)
(* the sampling grid:                                                      *)
(*   grid    <<[s, us, up, rise]>>   every date of the range; up = sign of  *)
(*           the elevation there, rise = sign of the elevation rate        *)
(*           (computed from a fresh propagation, not from the stream)      *)
(*   stream  <<[k, s, us, cls, lab, up, z]>> what the generator yielded:   *)
(*           k = "S" sample | "E" event; cls = "signal" | "max" | "mask" | *)
(*           "other"; lab = "AOS" | "LOS" | "MAX" | ...; up = sign of the  *)
(*           elevation of the item; z = |elevation| (signal) or |rate|     *)
(*           (max) in 1e-9 rad (rad/s)                                     *)
(*   picks   <<[info, offset, found, s, us]>> what find_event(stream, info, *)
(*           offset) returned on a further identical call (found = FALSE:  *)
(*           it raised): the (offset+1)-th event carrying that text        *)
(*   filtered <<[s, us]>> what events_iterator(stream, info1, info2)       *)
(*           yielded (T.filter = the texts asked for; <<>> = every event)  *)
(* Times are <<seconds, microseconds>> from the start (32-bit safe).       *)
(* The verdict is a pure function of the trace: TLC evaluates it for every *)
(* recorded call and prints the failing clauses.                           *)
(***************************************************************************)
EXTENDS Integers, Sequences, FiniteSets, TLC, Json, IOUtils

CONSTANTS ZTol       \* sharpness of AOS/LOS (elevation) and MAX (elevation rate), in 1e-9 rad resp. rad/s

Data == JsonDeserialize(IOEnv.TRACE_FILE)
Traces == Data.traces
VARIABLE tr

TLess(a, b) == a.s < b.s \/ (a.s = b.s /\ a.us < b.us)
TLeq(a, b) == ~TLess(b, a)
TEq(a, b) == a.s = b.s /\ a.us = b.us

Verdict(T) ==
  LET G == T.grid
      S == T.stream
      n == Len(G)
      IsSample(x) == x.k = "S"
      Up(x) == x.up > 0
      samples == SelectSeq(S, IsSample)
      above == SelectSeq(G, Up)
      \* station events of class c yielded in the grid interval (G[j], G[j+1]]
      In(j, c) == {q \in 1..Len(S) : S[q].k = "E" /\ S[q].cls = c /\ TLess(G[j], S[q]) /\ TLeq(S[q], G[j + 1])}
      NeedSignal(j) == G[j].up # G[j + 1].up
      NeedMax(j) == G[j].rise > 0 /\ G[j + 1].rise < 0 /\ G[j + 1].up > 0
      Decided(j) == G[j].up # 0 /\ G[j + 1].up # 0 /\ G[j].rise # 0 /\ G[j + 1].rise # 0
  IN
  \* exactly the above-horizon sample points, in order
  (IF Len(samples) = Len(above) /\ \A q \in 1..Len(samples) : TEq(samples[q], above[q]) THEN {}
   ELSE IF Len(samples) > Len(above) THEN {"sample-below-horizon-or-repeated"} ELSE {"above-horizon-sample-missing"})
  \cup UNION {
        IF ~Decided(j) THEN {}
        ELSE (IF NeedSignal(j) /\ In(j, "signal") = {} THEN {"aos-los-missing"} ELSE {})
          \cup (IF ~NeedSignal(j) /\ In(j, "signal") # {} THEN {"aos-los-spurious"} ELSE {})
          \cup (IF Cardinality(In(j, "signal")) > 1 THEN {"aos-los-duplicated"} ELSE {})
          \cup (IF NeedSignal(j) /\ \E q \in In(j, "signal") : S[q].lab # (IF G[j + 1].up > 0 THEN "AOS" ELSE "LOS") THEN {"aos-los-label"} ELSE {})
          \cup (IF NeedMax(j) /\ In(j, "max") = {} THEN {"max-missing"} ELSE {})
          \cup (IF ~NeedMax(j) /\ In(j, "max") # {} THEN {"max-spurious"} ELSE {})
          \cup (IF Cardinality(In(j, "max")) > 1 THEN {"max-duplicated"} ELSE {})
        : j \in 1..(n - 1)}
  \* nothing outside the requested range, chronological order
  \cup (IF \A q \in 1..Len(S) : TLeq(G[1], S[q]) /\ TLeq(S[q], G[n]) THEN {} ELSE {"item-outside-range"})
  \cup (IF \A q \in 1..(Len(S) - 1) : TLeq(S[q], S[q + 1]) THEN {} ELSE {"not-chronological"})
  \* an event of another listener is only yielded above the horizon; AOS / LOS / MAX always
  \cup (IF \A q \in 1..Len(S) : (S[q].k = "E" /\ S[q].cls = "other") => S[q].up >= 0 THEN {} ELSE {"foreign-event-below-horizon"})
  \* find_event / events_iterator (beyond.propagators.listeners): selections of the same stream
  \cup (LET Ev(info) == SelectSeq(S, LAMBDA x : x.k = "E" /\ x.info = info) IN
        IF \A q \in 1..Len(T.picks) :
             LET p == T.picks[q] e == Ev(p.info) IN
               IF p.offset + 1 <= Len(e) THEN p.found /\ TEq(p, e[p.offset + 1]) ELSE ~p.found
        THEN {} ELSE {"find-event"})
  \cup (LET want == SelectSeq(S, LAMBDA x : x.k = "E" /\ (T.filter = <<>> \/ \E f \in 1..Len(T.filter) : T.filter[f] = x.info)) IN
        IF Len(T.filtered) = Len(want) /\ \A q \in 1..Len(want) : TEq(T.filtered[q], want[q]) THEN {} ELSE {"events-iterator"})
  \* the elevation of AOS / LOS, the elevation rate of MAX, is zero
  \cup (IF \A q \in 1..Len(S) : (S[q].k = "E" /\ S[q].cls \in {"signal", "max"}) => S[q].z <= ZTol THEN {} ELSE {"event-not-at-zero"})

TInit == tr \in 1..Len(Traces)
TNext == UNCHANGED tr
Report == LET f == Verdict(Traces[tr]) IN IF f = {} THEN TRUE ELSE PrintT(<<"VERIF", tr, f>>)
=============================================================================
