----------------------------- MODULE ScaleIndep -----------------------------
(***************************************************************************)
(* Property C04: the result of every date-consuming operation depends on   *)
(* the INSTANT, never on the time-scale label of the Date that carries it. *)
(* State: an operation of the catalogue, the label `la` of the argument    *)
(* date and the label `le` of the object's own epoch; the two instants are *)
(* fixed (token).  Relabelling actions never change the token, and the     *)
(* observable result is by definition a function of (operation, token).    *)
(* TLC enumerates operation x label x label; the harness builds the same   *)
(* instants under each label pair with change_scale (itself verified by    *)
(* C03, Dates.tla), runs the real operation and compares the physical      *)
(* result with the UTC/UTC run.                                            *)
(***************************************************************************)
EXTENDS Naturals, Sequences, TLC

CONSTANTS Ops, Scales

VARIABLES op, la, le, token, nrel
vars == <<op, la, le, token, nrel>>

Init == op \in Ops /\ la = "UTC" /\ le = "UTC" /\ token = 0 /\ nrel = 0
RelabelArg(s) == s # la /\ la' = s /\ nrel' = nrel + 1 /\ UNCHANGED <<op, le, token>>
RelabelEpoch(s) == s # le /\ le' = s /\ nrel' = nrel + 1 /\ UNCHANGED <<op, la, token>>
Next == nrel < 2 /\ \E s \in Scales : RelabelArg(s) \/ RelabelEpoch(s)
Spec == Init /\ [][Next]_vars

Result == <<op, token>>                              \* the observable: no label in it
ResultIgnoresLabels == [][Result' = Result]_vars
=============================================================================
