-------------------------------- MODULE NumMan --------------------------------
(***************************************************************************)
(* Maneuvers in a numerical propagation (property C17, "takes effect       *)
(* exactly once") with NO attracting body, so that the true trajectory is  *)
(* piecewise polynomial and everything is exact on an integer time grid:   *)
(* integration step H, start at 0, stop at N*H.                            *)
(*                                                                         *)
(* CONTRACT                                                                *)
(*   - an impulse dated t in (0, N*H) changes the velocity by its delta-v  *)
(*     exactly once, and is applied no later than one step after t: the    *)
(*     final position lies between applying it at t and at t + H           *)
(*   - a continuous burn delivers a*duration; when start and stop are on   *)
(*     the integration grid this is exact (also for the position)          *)
(* IMPLEMENTATION-SHAPED: impulse applied at the first grid point >= t;    *)
(* burn integrated by the Runge-Kutta stages falling inside [start, stop). *)
(***************************************************************************)
EXTENDS Integers, Sequences, FiniteSets, TLC

CONSTANTS H, N,
          ImpTimes,     \* candidate impulse dates (ticks)
          BurnStarts, BurnDurs,
          MaxMans

VARIABLES mans,      \* sequence of [kind, t, dur, v]
          dvTotal,   \* contract: total velocity increment as a linear form: coefficients on the three vectors, x2 (halves)
          posLo, posHi,   \* contract: coefficients (x2) of each vector in the final position, envelope
          posImpl    \* implementation-shaped final position coefficients (x2)

vars == <<mans, dvTotal, posLo, posHi, posImpl>>

T == N * H
Ceil(t) == ((t + H - 1) \div H) * H          \* first grid point >= t
Aligned(m) == m.t % H = 0 /\ m.dur % H = 0

Man == [kind : {"imp"}, t : ImpTimes, dur : {0}, v : 1..3]
       \cup [kind : {"burn"}, t : BurnStarts, dur : BurnDurs, v : 1..3]
EndOf(m) == m.t + m.dur
Chrono(ms) == \A i \in 1..(Len(ms) - 1) : EndOf(ms[i]) <= ms[i + 1].t

\* coefficient (x2) of vector k in the velocity increment: impulses count 2 (one unit), aligned burns 2*dur (a*dur)
VelCoef(ms, k) ==
  LET f[i \in 0..Len(ms)] == IF i = 0 THEN 0
        ELSE f[i - 1] + (IF ms[i].v # k THEN 0 ELSE IF ms[i].kind = "imp" THEN 2 ELSE 2 * ms[i].dur)
  IN f[Len(ms)]
\* position at T (x2): impulse applied at time s contributes dv*(T - s); aligned burn a*dur*(T - start) - a*dur^2/2
PosCoef(ms, k, late) ==
  LET f[i \in 0..Len(ms)] == IF i = 0 THEN 0
        ELSE f[i - 1] + (IF ms[i].v # k THEN 0
                         ELSE IF ms[i].kind = "imp" THEN 2 * (T - (IF late = 0 THEN ms[i].t ELSE IF late = 1 THEN ms[i].t + H ELSE Ceil(ms[i].t)))
                         ELSE 2 * ms[i].dur * (T - ms[i].t) - ms[i].dur * ms[i].dur)
  IN f[Len(ms)]

Init ==
  /\ mans \in UNION {[1..n -> Man] : n \in 1..MaxMans}
  /\ Chrono(mans)
  /\ \A i \in 1..Len(mans) : mans[i].t > 0 /\ EndOf(mans[i]) < T
  /\ \A i \in 1..Len(mans) : mans[i].kind = "burn" => Aligned(mans[i])
  /\ dvTotal = [k \in 1..3 |-> VelCoef(mans, k)]
  /\ posLo = [k \in 1..3 |-> PosCoef(mans, k, 1)]      \* applied one step late
  /\ posHi = [k \in 1..3 |-> PosCoef(mans, k, 0)]      \* applied at its date
  /\ posImpl = [k \in 1..3 |-> PosCoef(mans, k, 2)]
Next == UNCHANGED vars

\* the implementation-shaped application instant satisfies the contract window
ImplInWindow == \A k \in 1..3 : posLo[k] <= posImpl[k] /\ posImpl[k] <= posHi[k]
=============================================================================
