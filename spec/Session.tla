------------------------------- MODULE Session -------------------------------
(***************************************************************************)
(* A user SESSION with the library: one specification that composes the    *)
(* contracts of the per-property modules (DESIGN.md section 5, item 1).    *)
(*                                                                         *)
(* The heap holds orbits, ephemerides and texts.  Whatever sequence of     *)
(* public calls produced an object, the contract says what it denotes:     *)
(*                                                                         *)
(*    an orbit    = trajectory `traj` at tick `t`, expressed in `frame`    *)
(*                  and `form`, its date carried under the label `lab`     *)
(*    an ephemeris = trajectory `traj` at the ticks `ts`, same attributes  *)
(*    a text      = the object it was written from                         *)
(*                                                                         *)
(* Actions are the public calls (copy with conversion, in-place form /     *)
(* frame change, relabelling of the date, propagation, tabulation,         *)
(* interpolation, conversion of an ephemeris, CCSDS dump / load in KVN and *)
(* XML, pickling).  None of them changes WHICH trajectory an object is on, *)
(* and only propagation / interpolation change the tick: that is the       *)
(* invariant the replay checks on the REAL objects, against one oracle -   *)
(* the analytical two-body state of trajectory `traj` at tick `t` - after  *)
(* every action, for every live object (harness/session_replay.py).        *)
(* Behaviours come from TLC: breadth-first to a small depth and            *)
(* `-simulate` for long ones.                                              *)
(***************************************************************************)
EXTENDS Integers, Sequences, FiniteSets, TLC, RangeOps

CONSTANTS Trajs,        \* trajectory identifiers
          Ticks,        \* ticks a propagation may target
          Frames, Inertial,   \* frame names; the subset in which two-body propagation is meaningful
          Forms, Labels,
          ConvTargets,  \* set of <<frame, form>> a conversion may ask for
          Tabs,         \* set of <<span, step>> for tabulations (ticks), each giving >= 8 nodes
          Stations,     \* ground stations from which a state may be measured
          Bodies,       \* analytical bodies that may be asked for their state ("Sun", "Moon")
          KvnDumpConvertsEphem,   \* named deviation (TRUE = what the code does): writing an ephemeris as a KVN OEM converts the
                                  \* CALLER's ephemeris to cartesian in place; the XML writer does not
          MaxObjs, MaxLen

VARIABLES heap,    \* sequence of object records
          hist     \* the calls so far (replayed on the real library)

vars == <<heap, hist>>

\* nl / ni: how many times the object's lineage went through a text (millimetre resolution) / an interpolation - the replay
\* widens its tolerance accordingly; they are not part of what the object denotes
Orbit(tr, t, fr, fo, lab) == [kind |-> "orbit", traj |-> tr, t |-> t, ts |-> <<>>, frame |-> fr, form |-> fo, lab |-> lab, fmt |-> "-", nl |-> 0, ni |-> 0]
Ephem(tr, ts, fr, fo, lab) == [kind |-> "ephem", traj |-> tr, t |-> ts[1], ts |-> ts, frame |-> fr, form |-> fo, lab |-> lab, fmt |-> "-", nl |-> 0, ni |-> 0]
Text(o, fmt) == [o EXCEPT !.kind = IF o.kind = "ephem" THEN "text-ephem" ELSE "text-state", !.fmt = fmt]

Init ==
  /\ heap = << Orbit(1, 0, "EME2000", "keplerian", "UTC") >>
  /\ hist = <<>>

Live == 1..Len(heap)
Can == Len(hist) < MaxLen
Room == Len(heap) < MaxObjs
Call(op, i, x, y) == hist' = Append(hist, <<op, i, x, y>>)
New(o, op, i, x, y) == Room /\ heap' = Append(heap, o) /\ Call(op, i, x, y)
Upd(i, o, op, x, y) == heap' = [heap EXCEPT ![i] = o] /\ Call(op, i, x, y)

\* an "orbit" has a propagator; an "sv" is a bare state vector (what interpolation and the OPM reader return): everything but
\* propagation and tabulation applies to both
IsOrbit(i) == heap[i].kind = "orbit"
IsState(i) == heap[i].kind \in {"orbit", "sv"}
IsEphem(i) == heap[i].kind = "ephem"
IsText(i)  == heap[i].kind \in {"text-state", "text-ephem"}

NewOrbit(tr) == New(Orbit(tr, 0, "EME2000", "keplerian", "UTC"), "new", tr, "-", "-")
CopyConv(i, fr, fo) == IsState(i) /\ New([heap[i] EXCEPT !.frame = fr, !.form = fo], "copyconv", i, fr, fo)
SetFrame(i, fr) == IsState(i) /\ fr # heap[i].frame /\ Upd(i, [heap[i] EXCEPT !.frame = fr], "setframe", fr, "-")
SetForm(i, fo) == IsState(i) /\ fo # heap[i].form /\ Upd(i, [heap[i] EXCEPT !.form = fo], "setform", fo, "-")
Relabel(i, lab) == IsState(i) /\ lab # heap[i].lab /\ Upd(i, [heap[i] EXCEPT !.lab = lab], "relabel", lab, "-")
\* two-body propagation: the same trajectory at another tick; the result is cartesian, in the orbit's frame, and dated by the
\* date that was asked for (whose label is the caller's choice)
Propagate(i, t2, lab2) ==
  /\ IsOrbit(i) /\ heap[i].frame \in Inertial
  /\ New([heap[i] EXCEPT !.t = t2, !.form = "cartesian", !.lab = lab2], "propagate", i, t2, lab2)
AsOrbit(i) == heap[i].kind = "sv" /\ New([heap[i] EXCEPT !.kind = "orbit"], "asorbit", i, "-", "-")
Tabulate(i, tab) ==
  /\ IsOrbit(i) /\ heap[i].frame \in Inertial
  /\ LET o == heap[i] IN New([Ephem(o.traj, Iter(o.t, o.t + tab[1], tab[2], TRUE), o.frame, "cartesian", o.lab) EXCEPT !.nl = o.nl, !.ni = o.ni],
                             "tabulate", i, tab[1], tab[2])
\* interpolation inside the table (h ticks after its first node; tables are sampled every 2 ticks or more, so odd h is between nodes)
Interpolate(i, h) ==
  /\ IsEphem(i) /\ heap[i].form = "cartesian"      \* element forms: raw angles are interpolated (known finding C09 interp/angle-wrap)
  /\ LET e == heap[i] IN
       /\ h <= e.ts[Len(e.ts)] - e.ts[1]
       /\ New([Orbit(e.traj, e.ts[1] + h, e.frame, e.form, e.lab) EXCEPT !.kind = "sv", !.nl = e.nl, !.ni = e.ni + 1], "interpolate", i, h, "-")
EphemConv(i, fr, fo) == IsEphem(i) /\ New([heap[i] EXCEPT !.frame = fr, !.form = fo], "ephemconv", i, fr, fo)
\* ephem.frame = / ephem.form = : every point converted in place
EphemSet(i, fr, fo) == IsEphem(i) /\ Upd(i, [heap[i] EXCEPT !.frame = fr, !.form = fo], "ephemset", fr, fo)
\* CCSDS messages are cartesian; everything else is preserved
Dump(i, fmt) ==
  /\ IsState(i) \/ IsEphem(i)
  /\ Room
  /\ heap' = Append(IF KvnDumpConvertsEphem /\ IsEphem(i) /\ fmt = "kvn" THEN [heap EXCEPT ![i].form = "cartesian"] ELSE heap, Text(heap[i], fmt))
  /\ Call("dump", i, fmt, "-")
Load(i) == IsText(i) /\ New([heap[i] EXCEPT !.kind = IF @ = "text-state" THEN "sv" ELSE "ephem", !.form = "cartesian", !.fmt = "-", !.nl = @ + 1], "load", i, "-", "-")
Pickle(i) == (IsState(i) \/ IsEphem(i)) /\ New(heap[i], "pickle", i, "-", "-")

\* OBSERVATIONS: they create nothing and change nothing; what they return is a function of what the object denotes (or of the
\* date alone) - whatever was measured, asked or converted before.  The replay compares each with a value that does not go
\* through the session's objects (the oracle state; a table of body states computed in another process).
Measure(i, st) == IsState(i) /\ Call("measure", i, st, "-") /\ UNCHANGED heap
\* ask a body for its state at tick t under a label; `mut` says what the caller then does IN PLACE to the state he was handed
AskBody(b, t, lab, mut) == Call("body", 0, t, <<b, lab, mut>>) /\ UNCHANGED heap

Next ==
  /\ Can
  /\ \/ \E tr \in Trajs : NewOrbit(tr)
     \/ \E i \in Live :
          \/ \E c \in ConvTargets : (c[1] # heap[i].frame \/ c[2] # heap[i].form) /\ (CopyConv(i, c[1], c[2]) \/ EphemConv(i, c[1], c[2]) \/ EphemSet(i, c[1], c[2]))
          \/ \E fr \in Frames : SetFrame(i, fr)
          \/ \E fo \in Forms : SetForm(i, fo)
          \/ \E lab \in Labels : Relabel(i, lab)
          \/ \E t2 \in Ticks, lab2 \in Labels : Propagate(i, t2, lab2)
          \/ AsOrbit(i)
          \/ \E tab \in Tabs : Tabulate(i, tab)
          \/ \E h \in {0, 3, 7} : Interpolate(i, h)
          \/ \E fmt \in {"kvn", "xml"} : Dump(i, fmt)
          \/ Load(i) \/ Pickle(i)
          \/ \E st \in Stations : Measure(i, st)
     \/ \E b \in Bodies, t \in Ticks, lab \in Labels, mut \in {"none", "frame", "form"} : AskBody(b, t, lab, mut)

Spec == Init /\ [][Next]_vars

-----------------------------------------------------------------------------
(* the contract, as action properties of the model (sanity of the model itself) *)
\* an action changes at most the object it acts on; new objects are appended
OthersUntouched == [][\A j \in 1..Len(heap) : (hist' # hist /\ hist'[Len(hist')][2] # j) => heap'[j] = heap[j]]_vars
\* with the deviation switched off, a call that returns a new object leaves its receiver unchanged as well
ReceiverUntouched == [][\A j \in 1..Len(heap) : (hist' # hist /\ hist'[Len(hist')][1] \notin {"setframe", "setform", "relabel", "ephemset"}) => heap'[j] = heap[j]]_vars
NothingRemoved == [][Len(heap') >= Len(heap) /\ \A j \in 1..Len(heap) : heap'[j].traj = heap[j].traj]_vars
\* only propagation and interpolation move an object along its trajectory
TickChanges ==
  [][\A j \in 1..Len(heap) : heap'[j].t = heap[j].t]_vars
=============================================================================
