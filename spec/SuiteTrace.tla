----------------------------- MODULE SuiteTrace -----------------------------
(***************************************************************************)
(* TRACE specification for executions nobody in /verif designed: the       *)
(* repository's own test-suite, run under harness/suite_plugin.py, which   *)
(* records one event per public call at its return (the linearization      *)
(* point of this sequential library):                                      *)
(*                                                                         *)
(*   date   Date(reading, scale = lab)          -> TAI instant             *)
(*   scale  d.change_scale(new)                 -> instant kept, label new *)
(*   plus   d + timedelta                       -> reading advances by dt  *)
(*   minus  d1 - d2                             -> instant difference      *)
(*   iter   propagator / ephemeris iteration    -> stream of (date, event) *)
(*                                                                         *)
(* Every event is judged with the CONTRACT operators of Dates.tla (limb    *)
(* arithmetic, offsets between scales, with the Earth-orientation values   *)
(* the implementation attached to the date, which are logged) and with the *)
(* range contract of Propagation.tla / RangeOps.tla restated on limbs.     *)
(* Verdicts are total: the failing clauses of each event are printed.      *)
(* (Node link events of the same recording go to RoutingTrace.tla.)        *)
(***************************************************************************)
EXTENDS Dates, Json, IOUtils

Data == JsonDeserialize(IOEnv.TRACE_FILE)
Ev == Data.events

VARIABLE k

T3(x) == <<x[1], x[2], x[3]>>
Near(x, y, ticks) == AbsLeq(Sub(x, y), <<0, 0, ticks>>)
Leq(x, y) == ~Less(y, x)
IsZero(x) == x = <<0, 0, 0>>

\* TAI - label, with the Earth-orientation values the implementation attached to the date
OffLogged(l, e) ==
  CASE l = "TAI" -> <<0, 0, 0>>
    [] l = "UTC" -> <<0, e.tai_utc, 0>>
    [] l = "GPS" -> <<0, 19, 0>>
    [] l = "TT"  -> Neg(<<0, 32, 1840000>>)
    [] l = "TDB" -> Neg(<<0, 32, 1840000>>)
    [] l = "UT1" -> Sub(<<0, e.tai_utc, 0>>, Norm(0, 0, e.ut1_utc))
    [] OTHER     -> <<0, 0, 0>>

-----------------------------------------------------------------------------
(* Date(reading, scale) *)
DateBad(e) ==
  LET want == Add(T3(e.rd), OffLogged(e.lab, e.eop))
      tol  == IF e.lab = "TDB" THEN 17001 ELSE 1
  IN (IF e.lab \in AllScales THEN {} ELSE {"unknown-scale"})
     \cup (IF Near(T3(e.inst), want, tol) THEN {} ELSE {"date-instant"})
     \cup (IF e.lab = "TDB" \/ Near(Norm(0, e.off[1], e.off[2]), OffLogged(e.lab, e.eop), 1) THEN {} ELSE {"date-offset"})

(* d.change_scale(new): same instant, new label.  1 tick = 0.1 us of slack for the rounding of the recorder.  Tests    *)
(* that replace the Earth-orientation source between the creation of a date and its relabelling (mocked EopDb.get) change  *)
(* the meaning of the labels in between: the instant clauses apply when both dates carry the same EOP values.             *)
ScaleBad(e) ==
  IF ~e.same_eop THEN (IF e.asked \in AllScales => e.new = e.asked THEN {} ELSE {"relabel-label"}) ELSE
  LET exact == e.lab \in ExactScales /\ e.new \in ExactScales
      d1 == Near(T3(e.inst), T3(e.inst2), 1)
      d10 == Near(T3(e.inst), T3(e.inst2), 10)
      d16 == Near(T3(e.inst), T3(e.inst2), 16)
  IN (IF e.asked \in AllScales => e.new = e.asked THEN {} ELSE {"relabel-label"})
     \cup (IF exact /\ ~d1 THEN {"relabel-exact"} ELSE {})
     \cup (IF ~exact /\ ~d10 THEN (IF d16 THEN {"relabel-1us"} ELSE {"relabel-gross"}) ELSE {})

(* d + timedelta: on the clock reading of the label scale; in the uniform scales the instant advances by dt *)
PlusBad(e) ==
  LET r1 == Sub(T3(e.inst), Norm(0, e.off[1], e.off[2]))
      r2 == Sub(T3(e.inst2), Norm(0, e.off2[1], e.off2[2]))
      dt == Norm(e.dt[1], e.dt[2], e.dt[3])
  IN (IF e.lab2 = e.lab THEN {} ELSE {"plus-label"})
     \cup (IF Near(r2, Add(r1, dt), 2) THEN {} ELSE {"plus-reading"})
     \cup (IF (e.lab \in Uniform \/ (e.lab \in {"UTC", "UT1"} /\ e.same_eop)) /\ ~Near(T3(e.inst2), Add(T3(e.inst), dt), 2)
           THEN {"plus-instant"} ELSE {})
     \* TDB - TT is a periodic term of 1.7 ms amplitude and one year period: it moves by less than 30 us in a day
     \cup (IF e.lab = "TDB" /\ AbsLeq(dt, <<1, 0, 0>>) /\ ~Near(T3(e.inst2), Add(T3(e.inst), dt), 400)
           THEN {"plus-instant"} ELSE {})

(* d1 - d2: the difference of the instants, to the microsecond (two datetime roundings) *)
MinusBad(e) ==
  IF Near(Norm(e.td[1], e.td[2], e.td[3]), Sub(T3(e.inst), T3(e.inst2)), 11) THEN {} ELSE {"minus-instant"}

-----------------------------------------------------------------------------
(* iteration streams *)
IsSample(o) == o[2] = ""
SampleIdx(out) == {i \in 1..Len(out) : IsSample(out[i])}
\* the samples in order, as a sequence of limb triples
RECURSIVE SamplesFrom(_, _)
SamplesFrom(out, i) ==
  IF i > Len(out) THEN <<>>
  ELSE (IF IsSample(out[i]) THEN <<T3(out[i][1])>> ELSE <<>>) \o SamplesFrom(out, i + 1)

StepAbs(s) == IF Less(s, <<0, 0, 0>>) THEN Neg(s) ELSE s

\* DateRange(start, stop, +-step, inclusive) restated on limbs: first = start, constant increment in the direction of
\* stop, nothing beyond stop, and (complete streams) the last date is the last one of the range
RangeBad(sm, start, stop, step, complete, inclusive) ==
  LET back == Less(stop, start)
      sa   == StepAbs(step)
      inc  == IF back THEN Neg(sa) ELSE sa
      n    == Len(sm)
  IN (IF n = 0 THEN (IF complete /\ (inclusive \/ start # stop) THEN {"range-empty"} ELSE {})
      ELSE (IF Near(sm[1], start, 2) THEN {} ELSE {"range-first"})
           \cup (IF \A i \in 1..(n - 1) : Near(sm[i + 1], Add(sm[i], inc), 2) THEN {} ELSE {"range-step"})
           \cup (IF \A i \in 1..n : IF back THEN Leq(Sub(stop, <<0, 0, 2>>), sm[i]) ELSE Leq(sm[i], Add(stop, <<0, 0, 2>>))
                 THEN {} ELSE {"range-beyond-stop"})
           \cup (IF complete
                 THEN LET nxt == Add(sm[n], inc)
                          \* the next date would lie beyond stop (or on it, when the range is exclusive)
                          over == IF back THEN (IF inclusive THEN Less(Add(nxt, <<0, 0, 2>>), stop) ELSE Leq(Sub(nxt, <<0, 0, 2>>), stop))
                                          ELSE (IF inclusive THEN Less(stop, Sub(nxt, <<0, 0, 2>>)) ELSE Leq(stop, Add(nxt, <<0, 0, 2>>)))
                      IN IF over THEN {} ELSE {"range-stops-early"}
                 ELSE {}))

ListBad(sm, ds, complete) ==
  (IF Len(sm) <= Len(ds) /\ \A i \in 1..Len(sm) : Near(sm[i], T3(ds[i]), 2) THEN {} ELSE {"list-dates"})
  \cup (IF complete /\ Len(sm) # Len(ds) THEN {"list-length"} ELSE {})

\* listener events: the first item is a sample, dates never go back (in the direction of the iteration), an event lies
\* after the previous sample and not after the next one
StreamBad(out, back) ==
  LET n == Len(out)
      Le(a, b) == IF back THEN Leq(Sub(T3(b), <<0, 0, 2>>), T3(a)) ELSE Leq(T3(a), Add(T3(b), <<0, 0, 2>>))
      Lt(a, b) == IF back THEN Less(T3(b), T3(a)) ELSE Less(T3(a), T3(b))
      Prev(i) == LET c == {j \in 1..(i - 1) : IsSample(out[j])} IN IF c = {} THEN 0 ELSE CHOOSE j \in c : \A m \in c : m <= j
      Nxt(i) == LET c == {j \in (i + 1)..n : IsSample(out[j])} IN IF c = {} THEN 0 ELSE CHOOSE j \in c : \A m \in c : j <= m
  IN (IF n = 0 \/ IsSample(out[1]) THEN {} ELSE {"stream-fresh"})
     \cup (IF \A i \in 1..(n - 1) : Le(out[i][1], out[i + 1][1]) THEN {} ELSE {"stream-ordered"})
     \cup (IF \A i \in 1..n : ~IsSample(out[i]) =>
                 /\ Prev(i) # 0 => Lt(out[Prev(i)][1], out[i][1])
                 /\ Nxt(i) # 0 => Le(out[i][1], out[Nxt(i)][1])
           THEN {} ELSE {"stream-between"})

IterBad(e) ==
  LET complete == e.status = "complete"
      usable == e.status \in {"complete", "closed"}
      sm == SamplesFrom(e.out, 1)
      back == IF e.mode = "range" THEN Less(T3(e.stop), T3(e.start))
              ELSE IF Len(sm) >= 2 THEN Less(sm[Len(sm)], sm[1]) ELSE FALSE
  IN IF ~usable THEN {}
     ELSE (IF e.mode = "range" /\ e.hasstep
           THEN RangeBad(sm, T3(e.start), T3(e.stop), Norm(e.step[1], e.step[2], e.step[3]), complete, e.inclusive) ELSE {})
          \cup (IF e.mode = "range" /\ ~e.hasstep      \* stored points of an ephemeris: inside the request, never going back
                THEN (IF \A i \in 1..Len(sm) : /\ Leq(Sub(T3(e.start), <<0, 0, 2>>), sm[i]) /\ Leq(sm[i], Add(T3(e.stop), <<0, 0, 2>>))
                                               /\ (i > 1 => Less(sm[i - 1], sm[i]))
                      THEN {} ELSE {"nodes-outside-request"})
                ELSE {})
          \cup (IF e.mode = "list" THEN ListBad(sm, e.dates, complete) ELSE {})
          \cup StreamBad(e.out, back)

\* an ephemeris refuses a request outside its table (strict), and only then
EphemBad(e) ==
  IF e.kind # "ephem" \/ e.mode # "range" THEN {}
  ELSE LET inside == /\ Leq(Sub(T3(e.lo), <<0, 0, 2>>), T3(e.start)) /\ Leq(T3(e.start), Add(T3(e.hi), <<0, 0, 2>>))
                     /\ Leq(Sub(T3(e.lo), <<0, 0, 2>>), T3(e.stop)) /\ Leq(T3(e.stop), Add(T3(e.hi), <<0, 0, 2>>))
       IN (IF e.strict /\ ~inside /\ e.status \in {"complete"} /\ Len(e.out) > 0 THEN {"ephem-not-refused"} ELSE {})

-----------------------------------------------------------------------------
Verdict(e) ==
  CASE e.k = "date"  -> DateBad(e)
    [] e.k = "scale" -> ScaleBad(e)
    [] e.k = "plus"  -> PlusBad(e)
    [] e.k = "minus" -> MinusBad(e)
    [] e.k = "iter"  -> IterBad(e) \cup EphemBad(e)
    [] OTHER -> {"unknown-event"}

TInit == /\ k \in 1..Len(Ev)
         /\ inst = <<0, 0, 0>> /\ lab = "UTC" /\ lab0 = "UTC" /\ rd0 = <<0, 0, 0>> /\ hist = <<>> /\ rd = <<0, 0, 0>>
TNext == UNCHANGED <<k, inst, lab, lab0, rd0, hist, rd>>
Report == LET f == Verdict(Ev[k]) IN IF f = {} THEN TRUE ELSE PrintT(<<"VERIF", k, f>>)
=============================================================================
