------------------------------ MODULE RangeOps ------------------------------
(***************************************************************************)
(* Pure operators describing a range of dates on an integer tick grid:     *)
(* the contract of beyond.dates.date.DateRange, re-used as the iteration   *)
(* contract of every propagator (Propagation.tla).                         *)
(***************************************************************************)
EXTENDS Integers, Sequences

Sign(x) == IF x >= 0 THEN 1 ELSE -1
\* constructor accepts iff the step is non-zero and agrees with the direction (a zero span counts as forward)
Accepts(a, b, s) == s # 0 /\ Sign(b - a) = Sign(s)

\* iteration: first to last, inclusive of stop only if asked, never beyond stop
RECURSIVE IterFrom(_, _, _, _)
IterFrom(x, b, s, inc) ==
  IF (s > 0 /\ (x < b \/ (inc /\ x = b))) \/ (s < 0 /\ (x > b \/ (inc /\ x = b)))
  THEN <<x>> \o IterFrom(x + s, b, s, inc)
  ELSE <<>>
Iter(a, b, s, inc) == IterFrom(a, b, s, inc)

\* membership: every instant of the swept interval, closed at start, closed at stop iff inclusive
Member(x, a, b, s, inc) ==
  IF s > 0 THEN a <= x /\ (x < b \/ (inc /\ x = b))
           ELSE a >= x /\ (x > b \/ (inc /\ x = b))

\* implementation-shaped closed form used by __len__: ceil(dur / step) + (1 if inclusive and step divides dur)
CeilDiv(n, d) == IF d > 0 THEN (n + d - 1) \div d ELSE ((-n) + (-d) - 1) \div (-d)
LenFormula(a, b, s, inc) == CeilDiv(b - a, s) + (IF inc /\ (b - a) % (IF s > 0 THEN s ELSE -s) = 0 THEN 1 ELSE 0)

=============================================================================
