---------------------------- MODULE Propagation ----------------------------
(***************************************************************************)
(* Propagation / iteration contract of beyond (property C08) on an integer *)
(* tick grid, epoch of the orbit = tick 0.                                 *)
(*                                                                         *)
(* CONTRACT                                                                *)
(*   iter(start, stop, step)  yields exactly the dates of                  *)
(*        DateRange(start, stop, +-step, inclusive)  (RangeOps!Iter),      *)
(*   iter(dates = L)          yields exactly L in order,                   *)
(*   propagate(t)             yields t,                                    *)
(*   every yielded state is  F(orbit, date)  - a pure function of the      *)
(*   initial orbit and the date - whatever calls were made before on the   *)
(*   same orbit / propagator / listener objects.                           *)
(*   An ephemeris refuses dates outside its table.                         *)
(*                                                                         *)
(* IMPLEMENTATION-SHAPED sub-models (candidates only, never a verdict):    *)
(*   KNDates   - KeplerNum._iter : march on the internal step H and        *)
(*               re-sampling through Ephem.iter without start/stop         *)
(*   EphDates  - Ephem.iter's three branches                               *)
(***************************************************************************)
EXTENDS Integers, Sequences, FiniteSets, TLC, RangeOps

CONSTANTS Starts, Spans, StepsOut,   \* parameter grids of iter(start, start+span, step)
          PropTimes,                 \* dates for propagate()
          DateLists,                 \* explicit date lists
          H,                         \* internal step of the numerical propagator (ticks)
          ELo, EHi, EN,              \* ephemeris table: nodes ELo, ELo+EN, ..., EHi
          Tolerant,                  \* explore Ephem.iter(strict=False) as well (forward ranges)
          EExtra,                    \* ... plus these ticks (a table that is NOT uniformly sampled: two successive steps, an
                                     \* event recorded between two samples); {} for a uniform table
          Order,                     \* Lagrange order of ephemerides (8)
          MaxCalls,
          Orbits                     \* orbit objects sharing ONE propagator instance

VARIABLES calls,    \* history of calls: records [op, o, a, b, s, dates, lst]
          bound,    \* orbit the shared propagator is currently bound to (0 = none)
          expected, \* contract: dates the LAST call must yield, or <<"raise">>
          kn,       \* KeplerNum model's dates for the last call, or <<"raise">>
          eph,      \* Ephem model's dates for the last call, or <<"raise">>
          expeph    \* contract for an ephemeris object: as expected, but dates outside the table are refused

vars == <<calls, bound, expected, kn, eph, expeph>>

Raise == <<"raise">>

-----------------------------------------------------------------------------
(* contract *)
Dir(a, b, s) == IF b < a THEN -s ELSE s          \* the step sign follows the direction
ExpIter(a, b, s) == Iter(a, b, Dir(a, b, s), TRUE)

\* ephemeris: same dates, but anything outside the table is refused; step 0 encodes "step = None": the stored
\* nodes between start and stop
Nodes == {ELo + k * EN : k \in 0..((EHi - ELo) \div EN)} \cup {x \in EExtra : ELo < x /\ x < EHi}
RECURSIVE SortedSeq(_)
SortedSeq(S) == IF S = {} THEN <<>> ELSE LET m == CHOOSE x \in S : \A y \in S : x <= y IN <<m>> \o SortedSeq(S \ {m})
NodesFrom(x, lo, hi) == SortedSeq({n \in Nodes : x <= n /\ lo <= n /\ n <= hi})
Reverse(s) == [i \in 1..Len(s) |-> s[Len(s) + 1 - i]]
ExpEphIter(a, b, s) ==
  IF a < ELo \/ a > EHi \/ b < ELo \/ b > EHi THEN Raise
  ELSE IF s = 0 THEN (IF a <= b THEN NodesFrom(ELo, a, b) ELSE Reverse(NodesFrom(ELo, b, a)))
  ELSE ExpIter(a, b, s)
ExpEphDates(ds) == IF \E i \in 1..Len(ds) : ds[i] < ELo \/ ds[i] > EHi THEN Raise ELSE ds

-----------------------------------------------------------------------------
(* KeplerNum._iter, dates only *)
RECURSIVE March(_, _)
March(x, b) == IF x < b THEN <<x>> \o March(x + H, b) ELSE <<x>>     \* while date < stop: step
RECURSIVE Resample(_, _, _, _)
Resample(x, last, s, fuel) ==
  IF fuel = 0 THEN Raise          \* would never terminate / leaves the table
  ELSE IF x <= last THEN <<x>> \o Resample(x + s, last, s, fuel - 1) ELSE <<>>
KNDates(a, b, s) ==
  LET grid == March(a, b)
      last == grid[Len(grid)]
      sd   == Dir(a, b, s)
  IN
  IF s = H THEN grid                                   \* "if step is self.step: step = None": stored points
  ELSE IF Len(grid) < Order THEN Raise                 \* not enough points for Lagrange interpolation
  ELSE IF sd < 0 THEN Raise                            \* date <= stop for ever, leaves the table
  ELSE Resample(a, last, sd, 64)

(* Ephem.iter, dates only; s = 0 encodes step None *)
EphDates(a, b, s) ==
  IF a < ELo \/ b > EHi THEN Raise                     \* strict
  ELSE IF s = 0 THEN NodesFrom(ELo, a, b)              \* for orb in self: skip < start, break > stop
  ELSE IF s < 0 THEN (IF a <= b THEN Raise ELSE <<>>)
  ELSE IterFrom(a, b, s, TRUE)                         \* while date <= stop (no direction handling)

(* Ephem.iter(strict=False): "If False, it will take the closest point in each case" - the request is clipped to the table.      *)
(* Contract: the dates of the range from max(start, first node) to min(stop, last node); nothing when they do not intersect.     *)
Max2(x, y) == IF x > y THEN x ELSE y
Min2(x, y) == IF x < y THEN x ELSE y
ExpEphTol(a, b, s) ==
  LET lo == Max2(a, ELo) hi == Min2(b, EHi) IN
  IF lo > hi THEN <<>> ELSE IF s = 0 THEN NodesFrom(ELo, lo, hi) ELSE Iter(lo, hi, s, TRUE)
\* implementation-shaped: real_start / stop replaced by the table's ends, then the same two loops
EphDatesTol(a, b, s) ==
  LET start == IF a < ELo THEN ELo ELSE a
      stop  == IF b > EHi THEN EHi ELSE b
  IN IF s = 0 THEN NodesFrom(ELo, start, stop) ELSE IterFrom(start, stop, s, TRUE)

-----------------------------------------------------------------------------
Init ==
  /\ calls = <<>> /\ bound = 0
  /\ expected = <<>> /\ kn = <<>> /\ eph = <<>> /\ expeph = <<>>

CallPropagate(o, t) ==
  /\ calls' = Append(calls, [op |-> "propagate", o |-> o, a |-> t, b |-> t, s |-> 0, dates |-> <<>>])
  /\ bound' = o
  /\ expected' = <<t>>
  /\ kn' = KNDates(t, t, H)
  /\ eph' = IF t < ELo \/ t > EHi THEN Raise ELSE <<t>>
  /\ expeph' = IF t < ELo \/ t > EHi THEN Raise ELSE <<t>>

CallIter(o, a, span, s) ==
  /\ calls' = Append(calls, [op |-> "iter", o |-> o, a |-> a, b |-> a + span, s |-> s, dates |-> <<>>])
  /\ bound' = o
  /\ expected' = ExpIter(a, a + span, IF s = 0 THEN H ELSE s)      \* step None: the propagator's own step (numerical propagators)
  /\ kn' = KNDates(a, a + span, IF s = 0 THEN H ELSE s)
  /\ eph' = EphDates(a, a + span, Dir(a, a + span, s))
  /\ expeph' = ExpEphIter(a, a + span, s)

CallIterTolerant(o, a, span, s) ==
  /\ Tolerant /\ span >= 0
  /\ calls' = Append(calls, [op |-> "iter-tolerant", o |-> o, a |-> a, b |-> a + span, s |-> s, dates |-> <<>>])
  /\ bound' = o
  /\ expected' = ExpIter(a, a + span, IF s = 0 THEN H ELSE s)      \* (only ephemerides have a tolerant mode)
  /\ kn' = <<>>
  /\ eph' = EphDatesTol(a, a + span, s)
  /\ expeph' = ExpEphTol(a, a + span, s)

CallIterDates(o, ds) ==
  /\ calls' = Append(calls, [op |-> "dates", o |-> o, a |-> 0, b |-> 0, s |-> 0, dates |-> ds])
  /\ bound' = o
  /\ expected' = ds
  /\ kn' = ds
  /\ eph' = ExpEphDates(ds)
  /\ expeph' = ExpEphDates(ds)

Next ==
  /\ Len(calls) < MaxCalls
  /\ \E o \in Orbits :
       \/ \E t \in PropTimes : CallPropagate(o, t)
       \/ \E a \in Starts, sp \in Spans, s \in StepsOut : CallIter(o, a, sp, s) \/ CallIterTolerant(o, a, sp, s)
       \/ \E ds \in DateLists : CallIterDates(o, ds)

Spec == Init /\ [][Next]_vars

-----------------------------------------------------------------------------
(* spec-level sanity of the contract *)
ContractShape ==
  calls # <<>> =>
    LET c == calls[Len(calls)] IN
      c.op \in {"iter", "iter-tolerant"} =>
        /\ expected # <<>> /\ expected[1] = c.a
        /\ \A i \in 1..Len(expected) : IF c.b >= c.a THEN expected[i] <= c.b ELSE expected[i] >= c.b
        /\ \A i \in 1..(Len(expected) - 1) : expected[i + 1] - expected[i] = Dir(c.a, c.b, IF c.s = 0 THEN H ELSE c.s)
        /\ LET last == expected[Len(expected)] st == IF c.s = 0 THEN H ELSE c.s IN
             IF c.b >= c.a THEN last + st > c.b ELSE last - st < c.b

\* candidate generators: where do the implementation-shaped models leave the contract?
KNAgrees  == kn = expected
EphAgrees == eph = expeph
=============================================================================
