------------------------------ MODULE Interleave ------------------------------
(***************************************************************************)
(* Property C08, last sentence, for LIVE generators: iter() returns a lazy *)
(* generator.  Two orbit objects that do not share anything the user can   *)
(* see (each was given its propagator by NAME, or its own instance) may be *)
(* used in any interleaving - the nested loop                              *)
(*      for a in A.iter(...): b = B.propagate(a.date)                      *)
(* is the most ordinary use of the library.                                *)
(*                                                                         *)
(* State: for each orbit, an optional open generator (its range and how    *)
(* many items were consumed).  Actions: Open, NextItem, Propagate, in any  *)
(* interleaving.  CONTRACT: the k-th item of a generator is the k-th date  *)
(* of ITS OWN range (RangeOps!Iter) and every state is F(own orbit, date), *)
(* whatever the other orbit did in between.  The behaviours are replayed   *)
(* on real orbit objects (harness/interleave_replay.py).                   *)
(*                                                                         *)
(* (Interleaving two live generators of orbits that explicitly share ONE   *)
(* propagator instance is not demanded: Propagation.tla covers completed   *)
(* calls on shared instances.)                                             *)
(***************************************************************************)
EXTENDS Integers, Sequences, FiniteSets, TLC, RangeOps

CONSTANTS Ranges,      \* set of <<start, stop, step>> (ticks; step > 0, direction follows start/stop)
          PropTimes,
          MaxLen

Orbits == {1, 2}
None == <<>>

VARIABLES gen,     \* gen[o] = None or <<start, stop, step, consumed>>
          hist,    \* <<"open", o, start, stop, step>> | <<"next", o, expected date>> | <<"prop", o, t>>
          nopen

vars == <<gen, hist, nopen>>

Dir(a, b, s) == IF b < a THEN -s ELSE s
Dates(g) == Iter(g[1], g[2], Dir(g[1], g[2], g[3]), TRUE)

Init == gen = [o \in Orbits |-> None] /\ hist = <<>> /\ nopen = 0

Can == Len(hist) < MaxLen
Open(o, r) ==
  /\ Can /\ nopen < 3
  /\ gen' = [gen EXCEPT ![o] = <<r[1], r[2], r[3], 0>>]
  /\ hist' = Append(hist, <<"open", o, r[1], r[2], r[3]>>)
  /\ nopen' = nopen + 1
NextItem(o) ==
  /\ Can /\ gen[o] # None
  /\ gen[o][4] < Len(Dates(gen[o]))
  /\ gen' = [gen EXCEPT ![o][4] = @ + 1]
  /\ hist' = Append(hist, <<"next", o, Dates(gen[o])[gen[o][4] + 1]>>)      \* CONTRACT: its own range, its own position
  /\ UNCHANGED nopen
Propagate(o, t) ==
  /\ Can
  /\ hist' = Append(hist, <<"prop", o, t>>)
  /\ UNCHANGED <<gen, nopen>>

Next == \E o \in Orbits : (\E r \in Ranges : Open(o, r)) \/ NextItem(o) \/ (\E t \in PropTimes : Propagate(o, t))
Spec == Init /\ [][Next]_vars

\* only behaviours in which a generator is advanced after the OTHER orbit was used are interesting
Interleaved ==
  \E i, j \in 1..Len(hist) : i < j /\ hist[j][1] = "next" /\ hist[i][2] # hist[j][2]
                              /\ \E k \in 1..(i - 1) : hist[k][1] = "open" /\ hist[k][2] = hist[j][2]
\* sanity of the contract: consumed never exceeds the range
Consistent == \A o \in Orbits : gen[o] # None => gen[o][4] <= Len(Dates(gen[o]))
=============================================================================
