------------------------------ MODULE TleStream ------------------------------
(***************************************************************************)
(* Multi-TLE texts (Tle.from_string, property C12 last clause): a text is  *)
(* a sequence of line kinds; the contract says which entries it yields:    *)
(* exactly the valid (line 1, line 2) pairs of one object, in order.       *)
(*   N   name line            C  comment        E  empty line              *)
(*   A1 A2 / B1 B2  valid lines of objects A / B                           *)
(*   X2  line 2 of A with a wrong checksum     S1  line 1 of A cut short   *)
(* Comments and empty lines are transparent.  Texts pairing a valid line 1 *)
(* with a valid line 2 of ANOTHER object are outside the contract.         *)
(***************************************************************************)
EXTENDS Naturals, Sequences, TLC

CONSTANTS MaxLen
Kinds == {"N", "C", "E", "A1", "A2", "B1", "B2", "X2", "S1"}

VARIABLES text, expect, firstbad
vars == <<text, expect, firstbad>>

Transparent(k) == k \in {"C", "E"}
RECURSIVE Strip(_)
Strip(t) == IF t = <<>> THEN <<>> ELSE (IF Transparent(Head(t)) THEN <<>> ELSE <<Head(t)>>) \o Strip(Tail(t))

\* entries of a stripped text, in order
RECURSIVE Entries(_)
Entries(t) ==
  IF Len(t) < 2 THEN <<>>
  ELSE IF t[1] = "A1" /\ t[2] = "A2" THEN <<"A">> \o Entries(SubSeq(t, 3, Len(t)))
  ELSE IF t[1] = "B1" /\ t[2] = "B2" THEN <<"B">> \o Entries(SubSeq(t, 3, Len(t)))
  ELSE Entries(Tail(t))

\* outside the contract: a valid line 1 directly followed by a valid line 2 of the other object
Mixed(t) == \E i \in 1..(Len(t) - 1) : (t[i] = "A1" /\ t[i + 1] = "B2") \/ (t[i] = "B1" /\ t[i + 1] = "A2")
\* with error = "raise": is there a line 2 that does not close a valid pair ?
HasInvalid(t) ==
  \E i \in 1..Len(t) : t[i] \in {"A2", "B2", "X2"} /\
     ~(i > 1 /\ ((t[i] = "A2" /\ t[i - 1] = "A1") \/ (t[i] = "B2" /\ t[i - 1] = "B1")))

Texts(n) == UNION {[1..k -> Kinds] : k \in 0..n}
Init ==
  /\ text \in Texts(MaxLen)
  /\ ~Mixed(Strip(text))
  /\ expect = Entries(Strip(text))
  /\ firstbad = HasInvalid(Strip(text))
Next == UNCHANGED vars
\* sanity: never more entries than line-2 kinds
Sane == Len(expect) <= Len(text) \div 2
=============================================================================
