--------------------------------- MODULE Mat ---------------------------------
(***************************************************************************)
(* Exact integer linear algebra for the "exact lattice" of DESIGN.md §3:   *)
(* vectors and matrices are sequences (of sequences) of integers; frames   *)
(* of the octahedral group (signed permutation matrices) keep every        *)
(* rotation, covariance transport and local orbital frame exactly integer. *)
(***************************************************************************)
EXTENDS Integers, Sequences, TLC

Dim(m) == Len(m)
RECURSIVE SumTo(_, _)
SumTo(f, n) == IF n = 0 THEN 0 ELSE f[n] + SumTo(f, n - 1)
Dot(u, v) == SumTo([i \in 1..Len(u) |-> u[i] * v[i]], Len(u))
Row(m, i) == m[i]
Colm(m, j) == [i \in 1..Len(m) |-> m[i][j]]
\* arguments are forced with TLCEval: TLC would otherwise re-evaluate a lazily passed argument at every use
Transpose(a0) == LET a == TLCEval(a0) IN [j \in 1..Len(a[1]) |-> [i \in 1..Len(a) |-> a[i][j]]]
MatMul(a0, b0) ==
  LET a == TLCEval(a0)
      bt == TLCEval(Transpose(b0))
  IN [i \in 1..Len(a) |-> [j \in 1..Len(bt) |-> Dot(a[i], bt[j])]]
MatVec(a0, v0) == LET a == TLCEval(a0) v == TLCEval(v0) IN [i \in 1..Len(a) |-> Dot(a[i], v)]
Ident(n) == [i \in 1..n |-> [j \in 1..n |-> IF i = j THEN 1 ELSE 0]]
Zero(n, m) == [i \in 1..n |-> [j \in 1..m |-> 0]]
VecAdd(u0, v0) == LET u == TLCEval(u0) v == TLCEval(v0) IN [i \in 1..Len(u) |-> u[i] + v[i]]
VecSub(u0, v0) == LET u == TLCEval(u0) v == TLCEval(v0) IN [i \in 1..Len(u) |-> u[i] - v[i]]
VecNeg(u) == [i \in 1..Len(u) |-> -u[i]]
Scale(k, u) == [i \in 1..Len(u) |-> k * u[i]]
Cross(u, v) == <<u[2] * v[3] - u[3] * v[2], u[3] * v[1] - u[1] * v[3], u[1] * v[2] - u[2] * v[1]>>

\* 6x6 block-diagonal expansion of a 3x3 rotation (no rate)
Block6(r0) == LET r == TLCEval(r0) IN [i \in 1..6 |-> [j \in 1..6 |->
                IF i <= 3 /\ j <= 3 THEN r[i][j] ELSE IF i > 3 /\ j > 3 THEN r[i - 3][j - 3] ELSE 0]]
\* cross-product matrix [w]x
Skew(w) == << <<0, -w[3], w[2]>>, <<w[3], 0, -w[1]>>, <<-w[2], w[1], 0>> >>
\* beyond.utils.matrix.expand(m, rate): lower-left block = -[rate]x m
Expand6(r0, rate) ==
  LET r == TLCEval(r0)
      sk == TLCEval(Skew(rate))
      ll == TLCEval(MatMul([i \in 1..3 |-> [j \in 1..3 |-> -sk[i][j]]], r))
  IN [i \in 1..6 |-> [j \in 1..6 |->
        IF i <= 3 /\ j <= 3 THEN r[i][j]
        ELSE IF i > 3 /\ j > 3 THEN r[i - 3][j - 3]
        ELSE IF i > 3 /\ j <= 3 THEN ll[i - 3][j] ELSE 0]]

IsSymmetric(a) == \A i, j \in 1..Len(a) : a[i][j] = a[j][i]
Det3(m) == m[1][1] * (m[2][2] * m[3][3] - m[2][3] * m[3][2])
         - m[1][2] * (m[2][1] * m[3][3] - m[2][3] * m[3][1])
         + m[1][3] * (m[2][1] * m[3][2] - m[2][2] * m[3][1])
IsRotation(m) == MatMul(m, Transpose(m)) = Ident(3) /\ Det3(m) = 1

\* unit vector of an axis-aligned integer vector (exactly one non-zero component)
Sgn(x) == IF x > 0 THEN 1 ELSE IF x < 0 THEN -1 ELSE 0
AxisUnit(v) == [i \in 1..3 |-> Sgn(v[i])]
AxisAligned(v) == \E i \in 1..3 : v[i] # 0 /\ \A j \in 1..3 : j # i => v[j] = 0
=============================================================================
