-------------------------------- MODULE Kepler --------------------------------
(***************************************************************************)
(* Analytical two-body and J2 propagation (property C05) in canonical      *)
(* units: mu = 1, unit length = equatorial radius Re, so that the          *)
(* first-order secular J2 rates are RATIONAL multiples of n*J2:            *)
(*    dOmega/dt = -3/2 n J2 (Re/p)^2 cos i                                 *)
(*    domega/dt =  3/4 n J2 (Re/p)^2 (4 - 5 sin^2 i)                       *)
(*    dM/dt     =  n + 3/4 n J2 (Re/p)^2 sqrt(1-e^2) (2 - 3 sin^2 i)       *)
(* with p = a (1 - e^2) and n = a^(-3/2).                                  *)
(*                                                                         *)
(* State: the mean elements and the elapsed time; action Prop(dt) advances *)
(* the time only: a, e, i never change, M advances by n dt (two-body) and  *)
(* node, perigee, anomaly drift linearly (J2).  Hence composition, inverse *)
(* and periodicity.  TLC enumerates (orbit, sequence of time steps) and    *)
(* exports the exact rate coefficients (prime-field residues).             *)
(***************************************************************************)
EXTENDS Integers, Sequences, FiniteSets, TLC, Field

CONSTANTS Primes,
          Ks,       \* set of <<kn, kd>> : a = (kn/kd)^2 Re, so n = (kd/kn)^3
          Ecc,      \* set of <<en, ed, sn, sd>> (elliptic: s = sqrt(1-e^2))
          Sin2,     \* set of <<n, d>> : sin^2 i
          Dts,      \* set of integers: time steps in units of T0/4  (T0 = canonical time unit)
          MaxSteps

VARIABLES k, ecc, s2, steps, elapsed, coef
vars == <<k, ecc, s2, steps, elapsed, coef>>

Coef(p) ==
  LET kk == FRat(k[1], k[2], p)
      a == FMul(kk, kk, p)
      n == FInv(FMul(a, kk, p), p)
      e == FRat(ecc[1], ecc[2], p)
      s == FRat(ecc[3], ecc[4], p)
      pp == FMul(a, FSub(1, FMul(e, e, p), p), p)
      ip2 == FInv(FMul(pp, pp, p), p)
      si2 == FRat(s2[1], s2[2], p)
  IN [n |-> n, a |-> a,
      cO |-> FMul(FNeg(FRat(3, 2, p), p), ip2, p),                                   \* x cos i (irrational in general)
      cw |-> FMul(FMul(FRat(3, 4, p), ip2, p), FSub(4, FMul(5, si2, p), p), p),
      cM |-> FMul(FMul(FMul(FRat(3, 4, p), ip2, p), s, p), FSub(2, FMul(3, si2, p), p), p)]

Init ==
  /\ k \in Ks /\ ecc \in Ecc /\ s2 \in Sin2
  /\ steps = <<>> /\ elapsed = 0
  /\ coef = [j \in 1..Len(Primes) |-> Coef(Primes[j])]
Prop(dt) ==
  /\ Len(steps) < MaxSteps
  /\ steps' = Append(steps, dt)
  /\ elapsed' = elapsed + dt           \* the only thing a propagation changes: elements are functions of the elapsed time
  /\ UNCHANGED <<k, ecc, s2, coef>>
Next == \E dt \in Dts : Prop(dt)
Spec == Init /\ [][Next]_vars

\* composition / inverse are built in: the state depends on the elapsed time only
ElapsedIsSum == LET f[i \in 0..Len(steps)] == IF i = 0 THEN 0 ELSE f[i - 1] + steps[i] IN elapsed = f[Len(steps)]
\* no perigee drift at the critical inclination, whatever a and e
CriticalInclination == (5 * s2[1] = 4 * s2[2]) => \A j \in 1..Len(Primes) : coef[j].cw = 0
=============================================================================
