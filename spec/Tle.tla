--------------------------------- MODULE Tle ---------------------------------
(***************************************************************************)
(* Two-line element text (property C12), written from the column table of  *)
(* the format (CelesTrak / module doc-string), NOT from the code.          *)
(*                                                                         *)
(* A line is a sequence of 69 one-character strings.  Every field is an    *)
(* integer at its printed precision:                                       *)
(*   norad 5 digits | designator: none or (yy, launch nb, piece)           *)
(*   epoch: yy, day of year, 8-digit day fraction                          *)
(*   ndot/2: sign + 8 decimals | nddot/6, B*: sign, 5-digit mantissa,      *)
(*   signed 1-digit exponent | element number 4 cols (65-68)               *)
(*   line 2: inclination, node, perigee, anomaly in 1e-4 deg, 7-digit      *)
(*   eccentricity, mean motion in 1e-8 rev/day, revolution number 5 cols   *)
(*   column 69: checksum = (sum of digits + number of '-') mod 10          *)
(*                                                                         *)
(* TLC proves Parse(Format(f)) = f, validity of every formatted TLE and    *)
(* detection of any single-digit corruption; every state is a test vector  *)
(* for the real Tle class (parse, orbit(), from_orbit() round trip).       *)
(***************************************************************************)
EXTENDS Integers, Sequences, FiniteSets, TLC

CONSTANTS Base,      \* a record of field values
          Corner     \* field name -> set of corner values
Names == DOMAIN Corner

Pieces == << <<"A", " ", " ">>, <<"Z", "Z", "Z">>, <<"A", "B", " ">>, <<"C", " ", " ">> >>

DigitChars == <<"0", "1", "2", "3", "4", "5", "6", "7", "8", "9">>
DC(d) == DigitChars[d + 1]
IsDigit(c) == c \in {DigitChars[i] : i \in 1..10}
DV(c) == CHOOSE d \in 0..9 : DC(d) = c

RECURSIVE Pow10(_)
Pow10(k) == IF k = 0 THEN 1 ELSE 10 * Pow10(k - 1)
\* n written with exactly w digits, zero padded
ZPad(n, w) == [i \in 1..w |-> DC((n \div Pow10(w - i)) % 10)]
NDigits(n) == IF n < 10 THEN 1 ELSE IF n < 100 THEN 2 ELSE IF n < 1000 THEN 3 ELSE IF n < 10000 THEN 4 ELSE 5
\* n right-justified in w columns, padded with spaces
SPad(n, w) == [i \in 1..w |-> IF i <= w - NDigits(n) THEN " " ELSE ZPad(n, NDigits(n))[i - (w - NDigits(n))]]
Sp(k) == [i \in 1..k |-> " "]

\* "decimal point assumed" field: sign column (space or -), 5 mantissa digits, exponent sign, exponent digit
Assumed(sgn, mant, esgn, ex) ==
  <<IF sgn < 0 THEN "-" ELSE " ">> \o ZPad(mant, 5) \o <<IF esgn < 0 THEN "-" ELSE "+", DC(ex)>>
\* angle in 1e-4 degrees, %8.4f
Angle(v) == SPad(v \div 10000, 3) \o <<".">> \o ZPad(v % 10000, 4)

Checksum(line) ==
  LET F[i \in 0..68] == IF i = 0 THEN 0
                        ELSE F[i - 1] + (IF IsDigit(line[i]) THEN DV(line[i]) ELSE IF line[i] = "-" THEN 1 ELSE 0)
  IN F[68] % 10

\* security classification (column 8): Unclassified, Classified, Secret
Classes == <<"U", "C", "S">>
Line1Body(f) ==
  <<"1", " ">> \o ZPad(f.norad, 5) \o <<Classes[f.cls], " ">>
  \o (IF f.desig = 0 THEN Sp(8) ELSE ZPad(f.dyy, 2) \o ZPad(f.dlaunch, 3) \o Pieces[f.desig]) \o <<" ">>
  \o ZPad(f.eyy, 2) \o ZPad(f.edoy, 3) \o <<".">> \o ZPad(f.efrac, 8) \o <<" ">>
  \o <<IF f.ndsgn < 0 THEN "-" ELSE " ", ".">> \o ZPad(f.nd, 8) \o <<" ">>
  \o Assumed(f.nddsgn, f.nddmant, f.nddesgn, f.nddexp) \o <<" ">>
  \o Assumed(f.bssgn, f.bsmant, f.bsesgn, f.bsexp) \o <<" ", "0", " ">>
  \o SPad(f.elnb, 4)
Line2Body(f) ==
  <<"2", " ">> \o ZPad(f.norad, 5) \o <<" ">> \o Angle(f.incl) \o <<" ">> \o Angle(f.raan) \o <<" ">>
  \o ZPad(f.ecc, 7) \o <<" ">> \o Angle(f.argp) \o <<" ">> \o Angle(f.ma) \o <<" ">>
  \o SPad(f.mm \div 100000000, 2) \o <<".">> \o ZPad(f.mm % 100000000, 8) \o SPad(f.rev, 5)
Line1(f) == LET b == Line1Body(f) IN b \o <<DC(Checksum(b \o <<"0">>))>>
Line2(f) == LET b == Line2Body(f) IN b \o <<DC(Checksum(b \o <<"0">>))>>

\* ---- parsing (inverse of the column table) ----
RECURSIVE ReadInt(_)
ReadInt(s) == IF s = <<>> THEN 0
              ELSE LET c == s[Len(s)] r == ReadInt(SubSeq(s, 1, Len(s) - 1))
                   IN IF IsDigit(c) THEN 10 * r + DV(c) ELSE r
Col(line, a, b) == SubSeq(line, a, b)          \* columns a..b, 1-based inclusive (as in the format table)
PieceIndex(s) == IF \E k \in 1..Len(Pieces) : Pieces[k] = s THEN CHOOSE k \in 1..Len(Pieces) : Pieces[k] = s ELSE 0
Parse(l1, l2) ==
  [norad |-> ReadInt(Col(l1, 3, 7)),
   cls |-> IF \E k \in 1..3 : Classes[k] = l1[8] THEN CHOOSE k \in 1..3 : Classes[k] = l1[8] ELSE 0,
   desig |-> IF Col(l1, 10, 17) = Sp(8) THEN 0 ELSE PieceIndex(Col(l1, 15, 17)),
   dyy |-> IF Col(l1, 10, 17) = Sp(8) THEN 0 ELSE ReadInt(Col(l1, 10, 11)),
   dlaunch |-> IF Col(l1, 10, 17) = Sp(8) THEN 0 ELSE ReadInt(Col(l1, 12, 14)),
   eyy |-> ReadInt(Col(l1, 19, 20)), edoy |-> ReadInt(Col(l1, 21, 23)), efrac |-> ReadInt(Col(l1, 25, 32)),
   ndsgn |-> IF l1[34] = "-" THEN -1 ELSE 1, nd |-> ReadInt(Col(l1, 36, 43)),
   nddsgn |-> IF l1[45] = "-" THEN -1 ELSE 1, nddmant |-> ReadInt(Col(l1, 46, 50)),
   nddesgn |-> IF l1[51] = "-" THEN -1 ELSE 1, nddexp |-> ReadInt(Col(l1, 52, 52)),
   bssgn |-> IF l1[54] = "-" THEN -1 ELSE 1, bsmant |-> ReadInt(Col(l1, 55, 59)),
   bsesgn |-> IF l1[60] = "-" THEN -1 ELSE 1, bsexp |-> ReadInt(Col(l1, 61, 61)),
   elnb |-> ReadInt(Col(l1, 65, 68)),
   incl |-> ReadInt(Col(l2, 9, 16)), raan |-> ReadInt(Col(l2, 18, 25)), ecc |-> ReadInt(Col(l2, 27, 33)),
   argp |-> ReadInt(Col(l2, 35, 42)), ma |-> ReadInt(Col(l2, 44, 51)), mm |-> ReadInt(Col(l2, 53, 63)),
   rev |-> ReadInt(Col(l2, 64, 68))]

Valid(l1, l2) ==
  /\ Len(l1) = 69 /\ Len(l2) = 69
  /\ l1[1] = "1" /\ l1[2] = " " /\ l2[1] = "2" /\ l2[2] = " "
  /\ DC(Checksum(l1)) = l1[69] /\ DC(Checksum(l2)) = l2[69]

-----------------------------------------------------------------------------
VARIABLES fields, l1, l2
vars == <<fields, l1, l2>>

\* the designator sub-fields only mean something when a designator is present
\* canonical writing of zero ("00000-0", " .00000000") and of a zero exponent ("+0")
Canon(f) ==
  LET f1 == IF f.desig = 0 THEN [f EXCEPT !.dyy = 0, !.dlaunch = 0] ELSE f
      f2 == IF f1.nddmant = 0 THEN [f1 EXCEPT !.nddsgn = 1, !.nddesgn = -1, !.nddexp = 0]
            ELSE IF f1.nddexp = 0 THEN [f1 EXCEPT !.nddesgn = 1] ELSE f1
      f3 == IF f2.bsmant = 0 THEN [f2 EXCEPT !.bssgn = 1, !.bsesgn = -1, !.bsexp = 0]
            ELSE IF f2.bsexp = 0 THEN [f2 EXCEPT !.bsesgn = 1] ELSE f2
  IN IF f3.nd = 0 THEN [f3 EXCEPT !.ndsgn = 1] ELSE f3

Init ==
  /\ \E a \in Names, b \in Names : \E va \in Corner[a], vb \in Corner[b] :
        fields = Canon([[Base EXCEPT ![a] = va] EXCEPT ![b] = vb])
  /\ fields.edoy = 366 => fields.eyy % 4 = 0          \* day 366 exists in leap years only (1957-2056: every fourth year)
  /\ l1 = Line1(fields)
  /\ l2 = Line2(fields)
Next == UNCHANGED vars

RoundTrip == Parse(l1, l2) = fields
WellFormed == Valid(l1, l2)
\* any single digit replaced by any other digit is detected by the checksum
Corrupt(line, i, d) == [line EXCEPT ![i] = DC(d)]
CorruptionDetected ==
  \A i \in 1..68 : IsDigit(l1[i]) => \A d \in 0..9 : d # DV(l1[i]) => DC(Checksum(Corrupt(l1, i, d))) # l1[69]
=============================================================================
