#!/bin/bash
# runs every check in the thorough tier, one after the other (used to exercise the thorough commands; evidence is rewritten)
cd /verif
for id in C01 C02 C03 C04 C05 C06 C07 C08 C09 C10 C11 C12 C13 C14 C15 C16 C17 C18 C19 C20; do
  start=$(date +%s)
  timeout 5400 /venv/bin/python /verif/checks/run.py $id --tier thorough > /tmp/thorough_$id.log 2>&1
  rc=$?
  echo "$id rc=$rc wall=$(( $(date +%s) - start ))s $(grep -c '^VIOLATION' /tmp/thorough_$id.log) violations; $(tail -1 /tmp/thorough_$id.log | cut -c1-200)"
done
